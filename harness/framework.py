"""Shared machinery of every check (DESIGN.md 2.3).

A property module (harness/props/cXX.py) provides:

    PROP            'C01'
    LEAN_MODULES    ['Glom.Props.C01']          proof obligations of the property
    RULE            text: how cases are generated / what makes one non-trivial
    TRUSTED         list of strings (property-specific trusted base)
    corpus()        -> list of cases (minimised past failures; run first)
    generate(rng, tier, scale) -> iterator of cases   (input only)
    run_impl(case)  -> case with the implementation's observation added
    nontrivial(case, verdict) -> bool
    key(case)       -> hashable canonical form (distinctness)
    shrink(case)    -> iterator of smaller candidate cases          (optional)
    classify(case, verdict) -> name of a known-finding classifier or None (optional)
    focus(disagreements, facts_changed) -> generator kwargs for the search  (optional)
"""
import fcntl
import hashlib
import json
import os
import random
import re
import subprocess
import sys
import time

VERIF = os.path.dirname(os.path.dirname(os.path.abspath(__file__)))
LEAN = os.path.join(VERIF, 'lean')
_DRIVER_SNAPSHOT = {}

def driver_path(prop):
    # the private copy taken under the build lock (a concurrent check run against another tree
    # may rebuild the shared executable while this one is still using it)
    return _DRIVER_SNAPSHOT.get(prop) or os.path.join(LEAN, '.lake', 'build', 'bin', 'drv_' + prop.lower())


def _snapshot_driver(prop):
    import atexit, shutil, tempfile
    src = os.path.join(LEAN, '.lake', 'build', 'bin', 'drv_' + prop.lower())
    d = os.path.join(LEAN, '.lake', 'build', 'run')
    try:
        os.makedirs(d, exist_ok=True)
        fd, dst = tempfile.mkstemp(prefix='drv_%s.' % prop.lower(), dir=d)
        os.close(fd)
        shutil.copy2(src, dst)
        _DRIVER_SNAPSHOT[prop] = dst
        atexit.register(lambda: os.path.exists(dst) and os.remove(dst))
    except OSError:
        _DRIVER_SNAPSHOT.pop(prop, None)

REPO = os.environ.get('GLOM_REPO', '/repo')
ALLOWED_AXIOMS = {'propext', 'Classical.choice', 'Quot.sound'}
FORBIDDEN = re.compile(r'\bsorry\b|\badmit\b|^axiom |native_decide|bv_decide|implemented_by|\bunsafe |maxHeartbeats 0')

BASE_TRUSTED = [
    "Lean 4.33.0 kernel (theorems re-checked by `lake build`; thorough tier also `leanchecker`)",
    "axioms: at most propext, Classical.choice, Quot.sound (audited per theorem with collectAxioms on every run); no sorry/admit/native_decide/bv_decide/own axioms",
    "extract/extract_facts.py (translator of tables and decision logic from /repo's source into Lean data)",
    "correspondence harness: harness/*.py object-graph encoder, Lean JSON decoder, compiled driver (Lean compiler/runtime trusted for running the model only)",
    "CPython's object model as far as the kernel models it; validated by the correspondence only",
]


class Lock:
    """the build lock; re-entrant within a process (facts, build, axiom audit and leanchecker of one
    check run under ONE acquisition: another check run against another tree regenerates the facts
    and rebuilds the proof modules, and must not do so between this run's build and its audit)"""
    depth = 0
    f = None

    def __enter__(self):
        if Lock.depth == 0:
            Lock.f = open(os.path.join(VERIF, '.lock'), 'w')
            fcntl.flock(Lock.f, fcntl.LOCK_EX)
        Lock.depth += 1
        return self

    def __exit__(self, *a):
        Lock.depth -= 1
        if Lock.depth == 0:
            fcntl.flock(Lock.f, fcntl.LOCK_UN)
            Lock.f.close()


def sh(cmd, cwd=None, timeout=3600, env=None):
    p = subprocess.run(cmd, cwd=cwd, stdout=subprocess.PIPE, stderr=subprocess.STDOUT,
                       text=True, timeout=timeout, env=env)
    return p.returncode, p.stdout


def build(prop, lean_modules):
    """regenerate facts from /repo, rebuild driver and the property's proof modules"""
    res = {'extract_problems': [], 'facts_changed': [], 'driver_ok': False,
           'props_ok': {}, 'logs': {}}
    with Lock():
        rc, out = sh(['/venv/bin/python', os.path.join(VERIF, 'extract', 'extract_facts.py'),
                      '--repo', REPO], cwd=VERIF,
                     env=dict(os.environ, PYTHONPATH=REPO, PYTHONDONTWRITEBYTECODE='1'))
        try:
            rep = json.loads(out.strip().splitlines()[-1])
            res['extract_problems'] = rep['extract_problems']
            res['facts_changed'] = rep['changed']
        except Exception:
            res['extract_problems'] = ['extractor crashed: ' + out[-2000:]]
        rc, out = sh(['lake', 'build', 'drv_' + prop.lower()], cwd=LEAN)
        res['driver_ok'] = (rc == 0)
        res['logs']['driver'] = out[-4000:] if rc else ''
        if rc == 0:
            _snapshot_driver(prop)
        for m in lean_modules:
            rc, out = sh(['lake', 'build', m], cwd=LEAN)
            res['props_ok'][m] = (rc == 0)
            if rc:
                res['logs'][m] = out[-6000:]
    return res


def audit(lean_modules):
    """(#theorems, #clean, details) via collectAxioms on every theorem of the modules"""
    with Lock():
        rc, out = sh(['lake', 'env', 'lean', '--run', 'Audit.lean'] + list(lean_modules), cwd=LEAN)
    thms = []
    if rc != 0:
        return {'ok': False, 'error': out[-3000:], 'theorems': []}
    for line in out.splitlines():
        line = line.strip()
        if line.startswith('{'):
            thms += json.loads(line)['theorems']
    bad = [t for t in thms if not set(t['axioms']) <= ALLOWED_AXIOMS]
    return {'ok': not bad and bool(thms), 'theorems': thms, 'bad': bad}


def strip_comments(text):
    # remove /- ... -/ (nested) and -- comments
    out = []
    i, depth = 0, 0
    n = len(text)
    while i < n:
        if text.startswith('/-', i):
            depth += 1
            i += 2
        elif depth and text.startswith('-/', i):
            depth -= 1
            i += 2
        elif depth:
            if text[i] == '\n':
                out.append('\n')
            i += 1
        elif text.startswith('--', i):
            while i < n and text[i] != '\n':
                i += 1
        else:
            out.append(text[i])
            i += 1
    return ''.join(out)


def grep_forbidden(prop=None):
    """forbidden constructs in the Lean sources of this property (files named after another
    property are that property's business: several developers may be editing concurrently)"""
    hits = []
    for root, _, files in os.walk(os.path.join(LEAN, 'Glom')):
        for fn in files:
            if fn.endswith('.lean'):
                m = re.match(r'C(\d\d)', fn)
                if prop and m and ('C' + m.group(1)) != prop:
                    continue
                p = os.path.join(root, fn)
                code = strip_comments(open(p).read())
                for ln, line in enumerate(code.splitlines(), 1):
                    if FORBIDDEN.search(line):
                        hits.append('%s:%d: %s' % (os.path.relpath(p, VERIF), ln, line.strip()))
    return hits


def leanchecker(lean_modules):
    rc, out = sh(['lake', 'env', 'leanchecker'] + list(lean_modules), cwd=LEAN, timeout=3600)
    return rc == 0, out[-2000:]


def run_driver(prop, cases):
    """cases: list of dicts; returns list of verdict dicts aligned with cases"""
    lines = []
    for i, c in enumerate(cases):
        d = dict(c)
        d['case'] = i
        lines.append(json.dumps(d, separators=(',', ':')))
    p = subprocess.run([driver_path(prop)], input='\n'.join(lines) + '\n', stdout=subprocess.PIPE,
                       stderr=subprocess.PIPE, text=True)
    verdicts = [None] * len(cases)
    for line in p.stdout.splitlines():
        if not line.strip():
            continue
        v = json.loads(line)
        if isinstance(v.get('case'), int):
            verdicts[v['case']] = v
    for i in range(len(cases)):
        if verdicts[i] is None:
            verdicts[i] = {'error': 'driver produced no verdict (rc=%s, stderr=%s)' % (p.returncode, p.stderr[-300:])}
    return verdicts


def load_known(prop):
    """KNOWN_FINDINGS.txt lines:  known: property=C16 classifier=<name> :: <what fails>"""
    out = []
    p = os.path.join(VERIF, 'KNOWN_FINDINGS.txt')
    if not os.path.exists(p):
        return out
    for line in open(p):
        line = line.strip()
        if not line.startswith('known:'):
            continue
        m = re.match(r'known:\s+property=(\S+)\s+classifier=(\S+)\s+::\s+(.*)', line)
        if m and m.group(1) == prop:
            out.append({'classifier': m.group(2), 'text': m.group(3)})
    return out


def canon(obj):
    return hashlib.sha1(json.dumps(obj, sort_keys=True, separators=(',', ':')).encode()).hexdigest()


class ImplHang(BaseException):
    """raised by SIGALRM inside run_impl: a BaseException, so glom's `except Exception` clauses
    cannot swallow it"""


# one evaluation of the implementation on one generated case takes milliseconds; a case that does
# not return within this budget is reported as an implementation that does not terminate on it
CASE_BUDGET_S = int(os.environ.get('VERIF_CASE_BUDGET_S', '30'))


def run_with_budget(fn, case, budget=None):
    import signal
    budget = budget or CASE_BUDGET_S

    def on_alarm(signum, frame):
        raise ImplHang()
    try:
        old = signal.signal(signal.SIGALRM, on_alarm)
    except ValueError:          # not in the main thread
        return fn(case)
    signal.alarm(budget)
    try:
        return fn(case)
    finally:
        signal.alarm(0)
        signal.signal(signal.SIGALRM, old)


class Runner:
    def __init__(self, mod, tier, seed):
        self.mod, self.tier, self.seed = mod, tier, seed
        self.t0 = time.time()
        self.evaluations = 0
        self.distinct = set()
        self.hist = {}
        self.samples = []
        self.failures = []       # (case, verdict)
        self.disagreements = []  # (case, verdict)
        self.errors = []
        self.impl_crashes = 0
        self.hangs = []          # cases on which the implementation did not return within the budget

    def batch(self, cases):
        """run impl + driver on a batch; collect stats"""
        mod = self.mod
        ran = []
        hung = []
        for c in cases:
            if len(self.hangs) >= 2:
                break            # two cases that do not return are enough; every further one costs the budget
            try:
                ran.append(run_with_budget(mod.run_impl, c, getattr(mod, 'CASE_BUDGET_S', None)))
            except ImplHang:
                # the implementation did not return: no property states that as an outcome
                self.hangs.append(c)
                hc = dict(c)
                hc['impl'] = {'hang': 'no return within %d s' % (getattr(mod, 'CASE_BUDGET_S', None) or CASE_BUDGET_S)}
                hv = {'holds': False, 'agree': False, 'hang': True, 'branch': 'impl-hang',
                      'why': 'the implementation did not return on this case within the per-case budget '
                             '(cases take milliseconds on the unchanged tree)'}
                self.evaluations += 1
                self.hist['impl-hang'] = self.hist.get('impl-hang', 0) + 1
                self.failures.append((hc, hv))
                hung.append((hc, hv))
            except Exception as e:   # harness bug, not an observation
                self.errors.append('run_impl crashed: %r on %s' % (e, json.dumps(c)[:300]))
        if not ran:
            return hung
        verdicts = run_driver(mod.PROP, ran)
        out = list(hung)
        for c, v in zip(ran, verdicts):
            self.evaluations += 1
            if 'error' in v:
                self.errors.append('driver: %s on %s' % (v['error'], json.dumps(c)[:300]))
                continue
            if v.get('skip'):
                self.hist['skipped'] = self.hist.get('skipped', 0) + 1
                continue
            b = v.get('branch', '?')
            self.hist[b] = self.hist.get(b, 0) + 1
            if mod.nontrivial(c, v):
                self.distinct.add(canon(mod.key(c)))
            if len(self.samples) < 6 and self.evaluations % 97 in (1, 2):
                self.samples.append({'case': mod.key(c), 'impl': c.get('impl'), 'model': v.get('model')})
            if not v.get('holds', False):
                self.failures.append((c, v))
            elif not v.get('agree', False):
                self.disagreements.append((c, v))
            out.append((c, v))
        return out

    def one(self, case):
        r = self.batch([case])
        return r[0] if r else (case, {'error': 'no verdict'})


def shrink(runner, mod, case, verdict, budget=300):
    """greedy delta-debugging: keep any smaller candidate on which the property still fails"""
    if not hasattr(mod, 'shrink') or verdict.get('hang'):
        return case, verdict
    cur, curv = case, verdict
    probe = Runner(mod, runner.tier, runner.seed)
    improved = True
    while improved and budget > 0:
        improved = False
        for cand in mod.shrink(cur):
            budget -= 1
            if budget <= 0:
                break
            try:
                c2, v2 = probe.one(cand)
            except Exception:
                continue
            if 'error' not in v2 and not v2.get('skip') and v2.get('holds') is False:
                cur, curv = c2, v2
                improved = True
                break
    return cur, curv


def write_replay(prop, seed, n, payload):
    d = os.path.join(VERIF, 'replays')
    os.makedirs(d, exist_ok=True)
    p = os.path.join(d, '%s-%s-%d.json' % (prop, seed, n))
    with open(p, 'w') as f:
        json.dump(payload, f, indent=1, sort_keys=True)
    return os.path.relpath(p, VERIF)


def main_check(mod, argv):
    import argparse
    ap = argparse.ArgumentParser()
    ap.add_argument('--tier', default=os.environ.get('VERIF_TIER', 'quick'))
    ap.add_argument('--replay', default=None)
    ap.add_argument('--no-build', action='store_true')
    args = ap.parse_args(argv)
    tier = args.tier if args.tier in ('quick', 'thorough') else 'quick'
    try:
        seed = int(os.environ.get('VERIF_SEED', '0') or 0)
    except ValueError:
        seed = 0
    prop = mod.PROP
    t0 = time.time()

    if args.replay:
        return replay(mod, args.replay)

    # 1. facts + build, 2. audit — under one acquisition of the build lock
    with Lock():
        b = build(prop, mod.LEAN_MODULES) if not args.no_build else {
            'extract_problems': [], 'facts_changed': [], 'driver_ok': True,
            'props_ok': {m: True for m in mod.LEAN_MODULES}, 'logs': {}}
        if not b['driver_ok']:
            print('driver build failed:\n' + b['logs'].get('driver', ''))
        broken_modules = [m for m, ok in b['props_ok'].items() if not ok]

        forb = grep_forbidden(prop)
        aud = {'ok': False, 'theorems': [], 'bad': []}
        good_modules = [m for m in mod.LEAN_MODULES if b['props_ok'].get(m)]
        if good_modules:
            aud = audit(good_modules)
        checker_ok = True
        if tier == 'thorough' and good_modules:
            checker_ok, checker_out = leanchecker(good_modules)
            if not checker_ok:
                print('leanchecker failed: ' + checker_out)

    # 3. corpus + generated cases
    rng = random.Random(seed * 1000003 + 17)
    runner = Runner(mod, tier, seed)
    if b['driver_ok']:
        corpus = mod.corpus() if hasattr(mod, 'corpus') else []
        runner.batch(corpus)
        buf = []
        for c in mod.generate(rng, tier, 1):
            buf.append(c)
            if len(buf) >= 500:
                runner.batch(buf)
                buf = []
        runner.batch(buf)

    known = load_known(prop)
    known_hit = {}
    new_failures = []
    for c, v in runner.failures:
        cl = mod.classify(c, v) if hasattr(mod, 'classify') else None
        k = next((kf for kf in known if kf['classifier'] == cl), None) if cl else None
        if k:
            known_hit.setdefault(k['classifier'], (k, c, v))
        else:
            new_failures.append((c, v))

    tie_problems = []
    # extractor problems are tagged with the fact file or with the property id of the fact module
    fact_files = set(getattr(mod, 'FACT_FILES', [])) | {'general', prop, prop.lower()}
    my_problems = [x for x in b['extract_problems'] if x.split(':', 1)[0] in fact_files
                   or ':' not in x]
    if my_problems:
        tie_problems.append({'kind': 'extractor', 'detail': my_problems})
    for m in broken_modules:
        tie_problems.append({'kind': 'proof-obligation', 'module': m,
                             'detail': first_error(b['logs'].get(m, ''))})
    if not b['driver_ok']:
        tie_problems.append({'kind': 'driver-build', 'detail': b['logs'].get('driver', '')[-1500:]})
    if good_modules and not aud['ok']:
        tie_problems.append({'kind': 'axiom-audit', 'detail': aud.get('bad') or aud.get('error')})
    if forb:
        tie_problems.append({'kind': 'forbidden-construct', 'detail': forb})
    if not checker_ok:
        tie_problems.append({'kind': 'leanchecker', 'detail': 'leanchecker rejected a module'})
    if runner.disagreements:
        tie_problems.append({'kind': 'correspondence',
                             'detail': '%d cases where model and implementation differ' % len(runner.disagreements),
                             'cases': [{'case': mod.key(c), 'impl': c.get('impl'), 'model': v.get('model')}
                                       for c, v in runner.disagreements[:5]]})
    if runner.errors:
        tie_problems.append({'kind': 'harness-error', 'detail': runner.errors[:5]})

    # 4. tie broken and no failing input yet: search
    searched = 0
    if tie_problems and not new_failures and b['driver_ok']:
        focus = mod.focus(runner.disagreements, b['facts_changed']) if hasattr(mod, 'focus') else {}
        srunner = Runner(mod, tier, seed)
        deadline = time.time() + (120 if tier == 'quick' else 900)
        for rnd in range(10):
            srng = random.Random(seed * 7919 + rnd + 1)
            buf = []
            for c in mod.generate(srng, tier, 1, **(focus or {})):
                buf.append(c)
                if len(buf) >= 500:
                    srunner.batch(buf); buf = []
                    if srunner.failures or time.time() > deadline:
                        break
            srunner.batch(buf)
            for c, v in srunner.failures:
                cl = mod.classify(c, v) if hasattr(mod, 'classify') else None
                if not (cl and any(kf['classifier'] == cl for kf in known)):
                    new_failures.append((c, v))
            if new_failures or time.time() > deadline:
                break
        searched = srunner.evaluations
        runner.evaluations += srunner.evaluations
        runner.distinct |= srunner.distinct

    # 4b. change-directed search: the tie is intact and nothing failed, but the source of a function
    # this property's cases execute differs from the baseline the checks were validated on
    # (extract/baseline_digests.json): search longer.  A changed digest is never an alarm by itself.
    changed_funcs, directed = relevant_changes(prop), 0
    if changed_funcs and not tie_problems and not new_failures and b['driver_ok'] \
            and os.environ.get('VERIF_NO_DIRECTED') != '1':
        focus = mod.focus_changed(changed_funcs) if hasattr(mod, 'focus_changed') else {}
        srunner = Runner(mod, tier, seed)
        deadline = time.time() + (75 if tier == 'quick' else 600)
        for rnd in range(8):
            srng = random.Random(seed * 104729 + rnd + 1)
            buf = []
            for c in mod.generate(srng, tier, 1, **(focus or {})):
                buf.append(c)
                if len(buf) >= 500:
                    srunner.batch(buf); buf = []
                    if srunner.failures or time.time() > deadline:
                        break
            srunner.batch(buf)
            for c, v in srunner.failures:
                cl = mod.classify(c, v) if hasattr(mod, 'classify') else None
                if not (cl and any(kf['classifier'] == cl for kf in known)):
                    new_failures.append((c, v))
            if new_failures or time.time() > deadline:
                break
        directed = srunner.evaluations
        runner.evaluations += srunner.evaluations
        runner.distinct |= srunner.distinct
        if srunner.disagreements and not new_failures:
            # the longer search met a case on which model and implementation differ: the tie is broken
            tie_problems.append({'kind': 'correspondence',
                                 'detail': '%d cases where model and implementation differ (change-directed search)' % len(srunner.disagreements),
                                 'cases': [{'case': mod.key(c), 'impl': c.get('impl'), 'model': v.get('model')}
                                           for c, v in srunner.disagreements[:5]]})
            runner.disagreements += srunner.disagreements

    # 5. report
    rc = 0
    lines = []
    for cl, (k, c, v) in known_hit.items():
        lines.append('KNOWN-FINDING: property=%s %s' % (prop, k['text']))
    nviol = 0
    if new_failures:
        c, v = new_failures[0]
        c, v = shrink(runner, mod, c, v)
        path = write_replay(prop, seed, 0, {
            'property': prop, 'kind': 'failing-input', 'case': c, 'verdict': v,
            'tie_problems': tie_problems,
            'how_to_replay': 'bin/check %s --replay <this file>' % prop})
        lines.append('VIOLATION property=%s replay=%s' % (prop, path))
        nviol = len(new_failures)
        rc = 1
    elif tie_problems:
        path = write_replay(prop, seed, 0, {
            'property': prop, 'kind': 'tie-broken',
            'no_longer_checks': tie_problems,
            'searched_cases': searched,
            'note': 'the theorem / facts obligation / correspondence named above no longer checks '
                    'against /repo; the search over model and implementation found no input on '
                    'which the property itself fails'})
        lines.append('VIOLATION property=%s replay=%s no-failing-input-found' % (prop, path))
        nviol = 1
        rc = 1

    nthm = len(aud['theorems'])
    # theorems of modules that did not build are obligations that were not discharged
    obligations = nthm + sum(getattr(mod, 'THEOREMS_PER_MODULE', {}).get(m, 1) for m in broken_modules)
    discharged = nthm - len(aud.get('bad') or []) if (aud['ok'] or aud.get('bad')) else 0
    ev = {
        'property_id': prop, 'tier': tier, 'seed': seed, 'level': 'proof',
        'coverage': {
            'obligations': obligations,
            'discharged': discharged,
            'checker_cmd': 'cd lean && lake build %s && lake env lean --run Audit.lean %s%s' % (
                ' '.join(mod.LEAN_MODULES), ' '.join(mod.LEAN_MODULES),
                ' && lake env leanchecker ' + ' '.join(mod.LEAN_MODULES) if tier == 'thorough' else ''),
            'trusted_base': BASE_TRUSTED + list(getattr(mod, 'TRUSTED', [])),
            'theorems': [t['theorem'] + ' [' + ','.join(t['axioms']) + ']' for t in aud['theorems']],
            'facts_regenerated_from': REPO,
            'facts_changed_this_run': b['facts_changed'],
            'evaluations': runner.evaluations,
            'distinct_nontrivial': len(runner.distinct),
            'rule': mod.RULE,
            'samples': runner.samples or [{'note': 'no correspondence case ran'}],
            'branch_histogram': runner.hist,
            'correspondence_disagreements': len(runner.disagreements),
            'property_failures_on_impl': len(runner.failures),
            'known_findings_reproduced': sorted(known_hit),
            'search_cases_after_broken_tie': searched,
            'changed_functions_vs_baseline': changed_funcs,
            'change_directed_search_cases': directed,
            'tie_problems': [t['kind'] for t in tie_problems],
        },
        'assumptions': list(getattr(mod, 'ASSUMPTIONS', [])),
        'wall_s': round(time.time() - t0, 2),
        'violations': nviol,
    }
    # evidence/ describes runs against /repo itself; a run against another tree (GLOM_REPO, used when
    # a seeded change is evaluated on a scratch copy) is recorded apart and never committed
    evdir = 'evidence' if os.path.realpath(REPO) == os.path.realpath('/repo') else 'replays/evidence-other-tree'
    os.makedirs(os.path.join(VERIF, evdir), exist_ok=True)
    with open(os.path.join(VERIF, evdir, prop + '.json'), 'w') as f:
        json.dump(ev, f, indent=1)
    for l in lines:
        print(l)
    print('%s %s: %d theorems (%d discharged), %d cases (%d distinct non-trivial), %d failures, '
          '%d disagreements, tie problems: %s, %.1fs' % (
              prop, tier, obligations, discharged, runner.evaluations, len(runner.distinct),
              len(runner.failures), len(runner.disagreements),
              [t['kind'] for t in tie_problems] or 'none', time.time() - t0))
    return rc


def relevant_changes(prop):
    """functions of glom whose source differs from the baseline digests and which this property's
    quick-tier cases execute (extract/func_cov.json); new or unmapped functions count for every
    property whose cases execute something in the same file"""
    try:
        sys.path.insert(0, os.path.join(VERIF, 'extract'))
        import srcdigest
        ch = srcdigest.changed(REPO)
        cov = json.load(open(os.path.join(VERIF, 'extract', 'func_cov.json'))).get(prop, [])
    except Exception:
        return []
    if not ch:
        return []
    covset = set(cov)
    files = {k.split('::')[0] for k in cov}
    known_all = set()
    try:
        for v in json.load(open(os.path.join(VERIF, 'extract', 'func_cov.json'))).values():
            known_all |= set(v)
    except Exception:
        pass
    out = []
    for k in ch:
        f = k.split('::')[0]
        if k in covset or (f in files and (k not in known_all or k.endswith('::<module>'))):
            out.append(k)
    return out


def first_error(log):
    m = re.search(r'error: .*', log)
    if not m:
        return log[-800:]
    i = m.start()
    return log[i:i + 1200]


def replay(mod, path):
    d = json.load(open(path))
    if d.get('kind') == 'tie-broken':
        print(json.dumps(d, indent=1))
        print('this replay names proof obligations / correspondences that no longer check; '
              're-run the check to re-evaluate them')
        return 1
    case = d['case']
    for k in list(case):
        if k.startswith('impl'):
            del case[k]
    runner = Runner(mod, 'quick', 0)
    c, v = runner.one(case)
    print('case:   ', json.dumps(mod.key(c)))
    print('impl:   ', json.dumps({k: c[k] for k in c if k.startswith('impl')}))
    print('model:  ', json.dumps(v.get('model')))
    print('verdict:', json.dumps({k: v.get(k) for k in ('agree', 'holds', 'why', 'error') if k in v}))
    if v.get('holds') is False:
        print('VIOLATION property=%s replay=%s' % (mod.PROP, path))
        return 1
    return 0
