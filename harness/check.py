#!/venv/bin/python
"""bin/check <Cxx> [--tier quick|thorough] [--replay file]"""
import importlib
import os
import sys

HERE = os.path.dirname(os.path.abspath(__file__))
VERIF = os.path.dirname(HERE)
sys.path.insert(0, VERIF)
sys.dont_write_bytecode = True


def main(argv):
    if len(argv) < 2:
        print('usage: bin/check Cxx [--tier quick|thorough] [--replay file]')
        return 2
    prop = argv[1]
    repo = os.environ.get('GLOM_REPO', '/repo')
    sys.path.insert(0, repo)
    from harness import framework
    mod = importlib.import_module('harness.props.' + prop.lower())
    return framework.main_check(mod, argv[2:])


if __name__ == '__main__':
    sys.exit(main(sys.argv))
