"""Object-graph codec between real Python objects and the Lean kernel's heap JSON.

decode(heap_json, classes) builds real objects (sharing and cycles included);
Encoder dumps any object graph into heap JSON, giving every container a small
integer address in first-visit order.  The class catalogue below is fixed and
every class in it has a name the Lean side receives together with its MRO.
"""
from collections import OrderedDict

ACCESS_LOG = []   # appended to by the logging classes: address-bearing objects


class Obj:
    """plain attribute object"""
    def __init__(self, **kw):
        self.__dict__.update(kw)


class Obj2(Obj):
    pass


def _log_attr(self, name):
    if not name.startswith('_'):
        ACCESS_LOG.append(self)
    return object.__getattribute__(self, name)


class LDict(dict):
    __getattribute__ = _log_attr

    def __getitem__(self, k):
        ACCESS_LOG.append(self)
        return dict.__getitem__(self, k)


class LList(list):
    __getattribute__ = _log_attr

    def __getitem__(self, k):
        ACCESS_LOG.append(self)
        return list.__getitem__(self, k)


class LTuple(tuple):
    __getattribute__ = _log_attr

    def __getitem__(self, k):
        ACCESS_LOG.append(self)
        return tuple.__getitem__(self, k)


class LObj:
    """attribute object that logs every public attribute read"""
    def __init__(self, **kw):
        self.__dict__.update(kw)

    def __getattribute__(self, name):
        if not name.startswith('_'):
            ACCESS_LOG.append(self)
        return object.__getattribute__(self, name)


CLASSES = {c.__name__: c for c in
           [dict, OrderedDict, list, tuple, set, frozenset, Obj, Obj2, LDict, LList, LTuple, LObj]}

LAYOUT = {}
for _n, _c in CLASSES.items():
    if issubclass(_c, dict):
        LAYOUT[_n] = 'dict'
    elif issubclass(_c, list):
        LAYOUT[_n] = 'list'
    elif issubclass(_c, tuple):
        LAYOUT[_n] = 'tuple'
    elif issubclass(_c, (set, frozenset)):
        LAYOUT[_n] = 'set'
    else:
        LAYOUT[_n] = 'inst'


def class_table(names=None):
    out = []
    for n, c in CLASSES.items():
        if names is None or n in names:
            out.append([n, [k.__name__ for k in c.__mro__]])
    return out


class Sentinel:
    def __init__(self, name):
        self.name = name


def enc_val(v, addr_of):
    """immediate value or reference"""
    if v is None:
        return None
    if isinstance(v, bool):
        return {'b': v}
    if isinstance(v, int):
        return {'i': v}
    if isinstance(v, str):
        return {'s': v}
    if isinstance(v, float):
        return {'f': v.hex()}
    a = addr_of(v)
    if a is not None:
        return {'r': a}
    if isinstance(v, type):
        return {'ty': v.__name__}
    if callable(v):
        return {'fn': getattr(v, '__name__', repr(v))}
    name = getattr(v, '__name__', None) or getattr(v, 'name', None) or repr(v)
    return {'sent': str(name)}


class Encoder:
    """dump object graphs into one heap; addresses are stable across calls"""
    def __init__(self):
        self.objs = []      # python objects by address
        self.ids = {}       # id -> address
        self.cells = []     # encoded cells (filled lazily)

    def is_container(self, v):
        return type(v).__name__ in CLASSES and type(v) is CLASSES[type(v).__name__]

    def addr(self, v):
        if not self.is_container(v):
            return None
        a = self.ids.get(id(v))
        if a is None:
            a = len(self.objs)
            self.ids[id(v)] = a
            self.objs.append(v)
            self.cells.append(None)
            self.cells[a] = self._cell(v)
        return a

    def lookup(self, v):
        """address of an already-known object, else None (never allocates)"""
        return self.ids.get(id(v))

    def _cell(self, v):
        cn = type(v).__name__
        lay = LAYOUT[cn]
        ev = lambda x: enc_val(x, self.addr)
        if lay == 'dict':
            return {'k': 'dict', 'c': cn, 'v': [[ev(k), ev(x)] for k, x in dict.items(v)]}
        if lay == 'list':
            return {'k': 'list', 'c': cn, 'v': [ev(x) for x in list.__iter__(v)]}
        if lay == 'tuple':
            return {'k': 'tuple', 'c': cn, 'v': [ev(x) for x in tuple.__iter__(v)]}
        if lay == 'set':
            items = sorted(v, key=repr)
            return {'k': 'set', 'c': cn, 'v': [ev(x) for x in items]}
        d = object.__getattribute__(v, '__dict__')
        return {'k': 'inst', 'c': cn, 'v': [[k, ev(x)] for k, x in d.items()]}

    def val(self, v):
        return enc_val(v, self.addr)

    def val_known(self, v):
        """encode without allocating: unknown containers become {'sent': '<new ...>'}"""
        return enc_val(v, self.lookup)

    def heap(self):
        return list(self.cells)

    def snapshot(self):
        """re-encode every known object now (to observe mutation)"""
        return [self._cell(o) for o in self.objs]


def decode(heap, sentinels=None):
    """build real objects from heap JSON; returns list of objects by address"""
    objs = [None] * len(heap)
    tuples_pending = []
    # pass 1: allocate mutable shells (tuples/frozensets are built in pass 2)
    for a, cell in enumerate(heap):
        cls = CLASSES[cell['c']]
        lay = cell['k']
        if lay in ('dict', 'list') or (lay == 'set' and cls is set) or lay == 'inst':
            objs[a] = cls.__new__(cls)
            if lay == 'dict' and cls is OrderedDict:
                objs[a] = OrderedDict()
        else:
            tuples_pending.append(a)

    def dv(j):
        if j is None:
            return None
        if 'b' in j:
            return j['b']
        if 'i' in j:
            return j['i']
        if 's' in j:
            return j['s']
        if 'f' in j:
            return float.fromhex(j['f'])
        if 'r' in j:
            a = j['r']
            if objs[a] is None:
                build_immutable(a)
            return objs[a]
        if 'ty' in j:
            return CLASSES.get(j['ty']) or getattr(__builtins__, j['ty'], None) or __builtins__[j['ty']]
        if 'sent' in j and sentinels and j['sent'] in sentinels:
            return sentinels[j['sent']]
        raise ValueError('cannot decode %r' % (j,))

    building = set()

    def build_immutable(a):
        if a in building:
            raise ValueError('cycle through immutable container at %d' % a)
        building.add(a)
        cell = heap[a]
        cls = CLASSES[cell['c']]
        items = [dv(x) for x in cell['v']]
        objs[a] = cls(items)
        building.discard(a)

    for a in tuples_pending:
        if objs[a] is None:
            build_immutable(a)
    for a, cell in enumerate(heap):
        lay = cell['k']
        o = objs[a]
        if lay == 'dict':
            setitem = OrderedDict.__setitem__ if isinstance(o, OrderedDict) else dict.__setitem__
            for k, v in cell['v']:
                setitem(o, dv(k), dv(v))
        elif lay == 'list':
            list.extend(o, [dv(x) for x in cell['v']])
        elif lay == 'set' and isinstance(o, set):
            for x in cell['v']:
                o.add(dv(x))
        elif lay == 'inst':
            d = object.__getattribute__(o, '__dict__')
            for k, v in cell['v']:
                d[k] = dv(v)
    return objs, dv
