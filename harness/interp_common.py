"""Python end of the interpreter model (lean/Glom/Model/Interp.lean):
spec JSON -> real glom spec objects, the catalogue of instrumented callables,
value codec, and one logged run of the real glom."""
import contextlib
import copy
import io
import types
from collections import OrderedDict

LOG = []
# identity observation (C08): the mutable containers `build` created for the spec of the current
# run, and every one of them that was handed to a catalogue callable
SPEC_OBJS = []
LEAKS = []
# objects of the spec that are literals where they stand (an OrderedDict under Fill / in argument position:
# only instances of exactly dict / list / tuple / set / frozenset are rebuilt): recognised by identity
SPEC_LITERALS = []


def _reg(fns, key, obj):
    """remember an object created while building a case (kept alive, found again by identity)"""
    if fns is not None:
        fns.setdefault((key,), []).append(obj)
    return obj


def mutables(v, seen=None):
    """every list / dict / set object reachable from a value through plain containers"""
    if seen is None:
        seen = set()
    if id(v) in seen:
        return
    if any(v is o for o in SPEC_LITERALS):
        return                  # a literal object of the spec: it and what it holds are the user's
    if type(v) in (list, tuple, set, frozenset) or isinstance(v, dict):
        seen.add(id(v))
        if type(v) not in (tuple, frozenset):
            yield v
        if isinstance(v, dict):
            for k, x in list(v.items()):
                yield from mutables(k, seen)
                yield from mutables(x, seen)
        else:
            for x in list(v):
                yield from mutables(x, seen)


# ----------------------------------------------------------------- values
def enc(v):
    import glom
    from glom.core import ScopeVars
    if v is None:
        return None
    for o in SPEC_LITERALS:
        if v is o:
            return {'specobj': type(v).__name__}
    if v is glom.SKIP:
        return {'sent': 'SKIP'}
    if v is glom.STOP:
        return {'sent': 'STOP'}
    if isinstance(v, bool):
        return {'b': v}
    if isinstance(v, int):
        return {'i': v}
    if isinstance(v, str):
        return {'s': v}
    if type(v) is list:
        return {'l': [enc(x) for x in v]}
    if type(v) is tuple:
        return {'t': [enc(x) for x in v]}
    if type(v) is OrderedDict:
        return {'od': [[enc(k), enc(x)] for k, x in v.items()]}
    if type(v) is dict:
        return {'d': [[enc(k), enc(x)] for k, x in v.items()]}
    if type(v) is set:
        return {'set': sorted((enc(x) for x in v), key=repr)}
    if type(v) is frozenset:
        return {'fs': sorted((enc(x) for x in v), key=repr)}
    if isinstance(v, Fn):
        return {'fn': [v.__name__, v.kind]}
    if isinstance(v, type):
        return {'ty': v.__name__}
    if isinstance(v, ScopeVars):
        return {'vars': 0}
    if isinstance(v, (types.GeneratorType, map, filter)):
        return {'gen': 0}                 # an unconsumed lazy stream: opaque
    raise ValueError('cannot encode %r' % (v,))


TYPES = {'int': int, 'str': str, 'list': list, 'tuple': tuple, 'dict': dict, 'bool': bool,
         'NoneType': type(None), 'object': object, 'set': set, 'frozenset': frozenset,
         'OrderedDict': OrderedDict, 'float': float}


def dec(j, fns=None):
    import glom
    if j is None:
        return None
    if 'b' in j:
        return j['b']
    if 'i' in j:
        return j['i']
    if 's' in j:
        return j['s']
    if 'sent' in j:
        return {'SKIP': glom.SKIP, 'STOP': glom.STOP}[j['sent']]
    if 'l' in j:
        return _reg(fns, 'dec-objs', [dec(x, fns) for x in j['l']])
    if 't' in j:
        return tuple(dec(x, fns) for x in j['t'])
    if 'd' in j:
        return _reg(fns, 'dec-objs', {dec(k, fns): dec(v, fns) for k, v in j['d']})
    if 'od' in j:
        return _reg(fns, 'dec-objs', OrderedDict((dec(k, fns), dec(v, fns)) for k, v in j['od']))
    if 'set' in j:
        return _reg(fns, 'dec-objs', set(dec(x, fns) for x in j['set']))
    if 'fs' in j:
        return frozenset(dec(x, fns) for x in j['fs'])
    if 'fn' in j:
        return get_fn(fns, j['fn'][0], j['fn'][1])
    if 'ty' in j:
        return TYPES[j['ty']]
    raise ValueError('cannot decode %r' % (j,))


# ----------------------------------------------------------------- catalogue
class Fn:
    """instrumented catalogue callable: logs (name, args) then behaves by kind"""
    def __init__(self, name, kind):
        self.__name__ = name
        self.kind = kind

    def __repr__(self):
        return '<fn %s:%s>' % (self.__name__, self.kind)

    def __call__(self, *args, **kwargs):
        LOG.append({'call': self.__name__, 'args': [enc(a) for a in args]})
        if SPEC_OBJS:
            own = set(map(id, SPEC_OBJS))
            for a in list(args) + list(kwargs.values()):
                for o in mutables(a):
                    if id(o) in own:
                        LEAKS.append('%s received the spec\'s own %s object' % (self.__name__, type(o).__name__))
        return apply_kind(self.kind, args, kwargs)


def as_int(v):
    return int(v) if isinstance(v, (int, bool)) else None


def apply_kind(kind, args, kwargs):
    import glom
    if kind == 'pack':
        return (tuple(args), [(k, kwargs[k]) for k in sorted(kwargs)])
    if kind == 'mk_list' and not args:
        return []
    if kind == 'mk_zero' and not args:
        return 0
    if kind == 'raise_ve':
        raise ValueError('catalogue')
    if kind == 'nested_glom_fail':
        # a re-entrant glom call that fails; the callable renders the error (as logging would) and re-raises
        try:
            glom.glom(['Nested'], {'internal': ['val']})
        except Exception as exc:
            str(exc)
            raise
    if kind == 'raise_multiline':
        raise ValueError('first line\n\n    ^^^\n~~~~\nlast line of the message')
    if kind == 'raise_glom':
        raise glom.GlomError('catalogue')
    if len(args) != 1 or kwargs:
        raise TypeError('catalogue arity')
    v = args[0]
    if kind == 'id':
        return v
    if kind == 'const7':
        return 7
    if kind == 'inc':
        if as_int(v) is None:
            raise TypeError('inc')
        return int(v) + 1
    if kind == 'neg':
        if as_int(v) is None:
            raise TypeError('neg')
        return -int(v)
    if kind == 'len':
        if isinstance(v, (list, tuple, set, frozenset, dict, str)):
            return len(v)
        raise TypeError('len')
    if kind == 'skip_if_odd':
        return glom.SKIP if as_int(v) is not None and int(v) % 2 != 0 else v
    if kind == 'stop_if_neg':
        return glom.STOP if as_int(v) is not None and int(v) < 0 else v
    if kind == 'stop_if_truthy':
        return glom.STOP if v else v
    if kind == 'stop_if_falsy':
        return v if v else glom.STOP
    if kind == 'skip_if_truthy':
        return glom.SKIP if v else v
    if kind == 'skip_if_falsy':
        return v if v else glom.SKIP
    if kind == 'wrap':
        return [v]
    if kind == 'truthy':
        return bool(v)
    if kind == 'is_none':
        return v is None
    if kind == 'is_int':
        return isinstance(v, int)
    if kind == 'first':
        if isinstance(v, (list, tuple, str)):
            return v[0]
        if isinstance(v, dict):
            return v[0]
        raise TypeError('first')
    raise TypeError('unknown kind ' + kind)


def get_fn(fns, name, kind):
    if fns is None:
        return Fn(name, kind)
    if name not in fns:
        fns[name] = Fn(name, kind)
    return fns[name]


class Probe:
    """custom spec (documented extension point): records the mode in force at its position"""
    def __init__(self, pid):
        self.pid = pid

    def glomit(self, target, scope):
        from glom.core import MODE
        LOG.append({'probe': self.pid, 'mode': scope[MODE].__name__})
        return target

    def __repr__(self):
        return 'Probe(%d)' % self.pid


class ReadProbe:
    """custom spec (documented extension point): evaluates the wrapped spec -- a scope reader -- with the
    running evaluator in its own scope, records what it yielded (value or exception class), hands it on"""
    def __init__(self, pid, spec):
        self.pid = pid
        self.spec = spec

    def glomit(self, target, scope):
        import glom
        try:
            v = scope[glom.glom](target, self.spec, scope)
        except Exception as e:
            LOG.append({'read': self.pid, 'err': exc_name(e)})
            raise
        try:
            LOG.append({'read': self.pid, 'ok': enc(v)})
        except ValueError:
            LOG.append({'read': self.pid, 'ok': {'gen': 0}})      # (an object the codec has no form for)
        return v

    def __repr__(self):
        return 'ReadProbe(%d, %r)' % (self.pid, self.spec)


class ReEnter:
    """custom spec: a nested top-level evaluation handed the running scope (what glom.streaming.First and
    Iter().first(key) do through Spec(key).glom(item, scope=S))"""
    def __init__(self, spec, via_spec):
        self.spec = spec
        self.via_spec = via_spec

    def glomit(self, target, scope):
        import glom
        if self.via_spec:
            return glom.Spec(self.spec).glom(target, scope=scope)
        return glom.glom(target, self.spec, scope=scope)

    def __repr__(self):
        return 'ReEnter(%r)' % (self.spec,)


# ----------------------------------------------------------------- specs
def build(j, fns):
    """spec JSON -> glom spec object"""
    import glom
    from glom import T, S, A
    k = j['k']
    B = lambda x: build(x, fns)
    if k == 'str':
        return j['s']
    if k == 'lit':
        return dec(j['v'], fns)
    if k == 'tuple':
        return tuple(B(x) for x in j['xs'])
    if k == 'list':
        return _reg(fns, 'spec-containers', [B(x) for x in j['xs']])
    if k == 'dict':
        return _reg(fns, 'spec-containers', {B(a): B(b) for a, b in j['es']})
    if k == 'odict':
        # (an OrderedDict is not rebuilt in Fill / argument position: there it is a literal -- the very object)
        return _reg(fns, 'spec-literals', OrderedDict((B(a), B(b)) for a, b in j['es']))
    if k == 'set':
        return _reg(fns, 'spec-containers', set(B(x) for x in j['xs']))
    if k == 'fset':
        return frozenset(B(x) for x in j['xs'])
    if k == 'fn':
        return get_fn(fns, j['name'], j['kind'])
    if k == 'ty':
        return TYPES[j['name']]

    def tsteps(t, steps):
        for op, arg in steps:
            a = dec(arg, fns)
            if op == '[':
                t = t[a]
            elif op == '.':
                t = getattr(t, a)
            elif op == '+':
                t = t + a
            elif op == '-':
                t = t - a
            elif op == '*':
                t = t * a
            elif op == '%':
                t = t % a
            else:
                raise ValueError(op)
        return t
    if k == 't':
        return tsteps(T, j['steps'])
    if k == 'sRead':
        if j.get('item'):
            return tsteps(S[j['name']], j['steps'])
        return tsteps(getattr(S, j['name']), j['steps'])
    if k == 'sGlobRead':
        return getattr(S.globals, j['name'])
    if k == 'sVarRead':
        return getattr(getattr(S, j['var']), j['name'])
    if k == 'sBind':
        return S(**OrderedDict((n, B(v)) for n, v in j['bs']))
    if k == 'aBind':
        return getattr(A, j['name'])
    if k == 'aGlob':
        return getattr(A.globals, j['name'])
    if k == 'aVar':
        return getattr(getattr(A, j['var']), j['name'])
    if k == 'pipe':
        return glom.Pipe(*[B(x) for x in j['xs']])
    if k == 'val':
        return glom.Val(dec(j['v'], fns))
    if k == 'specW':
        return glom.Spec(B(j['s']), scope={n: dec(v, fns) for n, v in j['scope']})
    if k == 'coalesce':
        kw = {}
        if j.get('dflt') is not None:
            kw['default'] = B(j['dflt'])
        if j.get('dflt_factory') is not None:
            kw['default_factory'] = get_fn(fns, *j['dflt_factory'])
        sk = j.get('skip')
        if sk is not None:
            if sk['k'] == 'pred':
                kw['skip'] = get_fn(fns, sk['name'], sk['kind'])
            elif sk['k'] == 'anyOf':
                kw['skip'] = tuple(dec(v, fns) for v in sk['vs'])
            else:
                kw['skip'] = dec(sk['v'], fns)
        se = [exc_class(n) for n in j['skip_exc']]
        form = j.get('se_form')
        if form == 'tuple':
            # always a tuple, whatever its length: skip_exc=() ("pass over no exception"), 1-tuples
            kw['skip_exc'] = tuple(se)
        elif form == 'class' and len(se) == 1:
            kw['skip_exc'] = se[0]                      # the class itself, GlomError included
        elif j['skip_exc'] != ['GlomError']:
            kw['skip_exc'] = tuple(se) if len(se) != 1 else se[0]
        return glom.Coalesce(*[B(x) for x in j['subs']], **kw)
    if k == 'call':
        return glom.Call(B(j['func']), args=B(j['args']), kwargs=B(j['kwargs']))
    if k == 'invoke':
        fj = j['func']
        if j.get('func_is_spec') and fj.get('k') == 'specW' and not fj.get('scope'):
            inv = glom.Invoke.specfunc(B(fj['s']))      # = Invoke(Spec(..)): the function is given by a spec
        else:
            inv = glom.Invoke(B(fj))
        for b in j['blocks']:
            pos = [B(x) for x in b['pos']]
            kw = OrderedDict((n, B(v)) for n, v in b['kw'])
            if b['op'] == 'C':
                inv = inv.constants(*pos, **kw)
            elif b['op'] == 'S':
                inv = inv.specs(*pos, **kw)
            else:
                inv = inv.star(args=pos[0] if pos else None, kwargs=kw['**'] if kw else None)
            # a prefix spec is re-used after being extended: deriving siblings from it must not alter it
            for name in ('u', 'w'):
                inv.constants(**{name: 'sibling'})
                inv.specs(**{name: glom.Val('sibling')})
        return inv
    if k == 'ref':
        if j.get('sub') is not None:
            return glom.Ref(j['name'], B(j['sub']))
        return glom.Ref(j['name'])
    if k == 'vars':
        if j.get('base'):
            # positional mapping + keyword defaults; the mapping object is kept by the spec
            base = fns.setdefault(('vars-base', json_key(j['base'])), {n: dec(v, fns) for n, v in j['base']})
            return glom.Vars(base, **{n: dec(v, fns) for n, v in j['defaults']})
        return glom.Vars(**{n: dec(v, fns) for n, v in j['defaults']})
    if k == 'let':
        return glom.Let(**OrderedDict((n, B(v)) for n, v in j['bs']))
    if k == 'auto':
        return glom.Auto(B(j['s']))
    if k == 'fill':
        return glom.Fill(B(j['s']))
    if k == 'match':
        if j.get('dflt') is not None:
            return glom.Match(B(j['s']), default=B(j['dflt']))
        return glom.Match(B(j['s']))
    if k == 'group':
        from glom.grouping import Group
        return Group(B(j['s']))
    if k in ('and', 'or'):
        cls = glom.And if k == 'and' else glom.Or
        kw = {}
        if j.get('dflt') is not None:
            kw['default'] = B(j['dflt'])
        return cls(*[B(x) for x in j['cs']], **kw)
    if k == 'not':
        return glom.Not(B(j['c']))
    if k == 'switch':
        cases = [(B(a), B(b)) for a, b in j['cases']]
        if j.get('dflt') is not None:
            return glom.Switch(cases, default=B(j['dflt']))
        return glom.Switch(cases)
    if k == 'probe':
        return Probe(j['id'])
    if k == 'iter':
        if j.get('map'):
            return glom.Iter().map(B(j['s']))
        return glom.Iter(B(j['s']))
    if k == 'shared':
        # ONE spec object used at several places (a reused fragment): built once per case
        key = ('shared', j['id'])
        if key not in fns:
            fns[key] = B(fns[('shared-table',)][str(j['id'])])
        return fns[key]
    if k == 'optKey':
        return glom.Optional(dec(j['v'], fns))
    if k == 'reqKey':
        return glom.Required(B(j['s']))
    if k == 'reenter':
        return ReEnter(B(j['s']), bool(j.get('via_spec')))
    if k == 'rprobe':
        return ReadProbe(j['id'], B(j['s']))
    if k == 'inspect':
        kw = {'echo': bool(j.get('echo')), 'recursive': bool(j.get('recursive'))}
        if j.get('bp') is not None:
            kw['breakpoint'] = get_fn(fns, *j['bp'])
        if j.get('pm') is not None:
            kw['post_mortem'] = get_fn(fns, *j['pm'])
        return glom.Inspect(B(j['s']), **kw)
    raise ValueError('unknown spec kind ' + k)


def json_key(j):
    import json
    return json.dumps(j, sort_keys=True)


def exc_class(name):
    import builtins
    import glom
    return getattr(glom, name, None) or getattr(builtins, name)


def exc_name(e):
    for c in type(e).__mro__:
        if not c.__name__.startswith('GlomError.wrap'):
            return c.__name__
    return type(e).__name__


def run_glom(case, built=None, keep=False):
    """one real glom() call; returns impl observation fields.  `built` = (spec, target, fns) objects
    to re-use (a second call on the very same spec object); `keep` also returns the raw result"""
    import glom
    if built is None:
        fns = {('shared-table',): case.get('shared') or {}}
        # a history in one process: specs evaluated BEFORE the one observed, built from the same objects
        for bj in case.get('before') or []:
            try:
                with contextlib.redirect_stdout(io.StringIO()):
                    glom.glom(dec(case['target'], fns), build(bj, fns))
            except Exception:
                pass
            del LOG[:]
        spec = build(case['spec'], fns)
        target = dec(case['target'], fns)
    else:
        spec, target, fns = built
    kw = {}
    caller_scope = None
    if case.get('scope_layers'):
        # a layered mapping handed as scope=: the first layer wins
        import collections
        caller_scope = collections.ChainMap(*[{n: dec(v, fns) for n, v in layer} for layer in case['scope_layers']])
        kw['scope'] = caller_scope
    elif case.get('scope'):
        caller_scope = {n: dec(v, fns) for n, v in case['scope']}
        kw['scope'] = caller_scope
    # a DEEP copy: a mutation of an object held by the caller's mapping shows too
    before = copy.deepcopy(caller_scope) if caller_scope is not None else None
    del LOG[:]
    del LEAKS[:]
    SPEC_OBJS[:] = fns.get(('spec-containers',), [])
    SPEC_LITERALS[:] = fns.get(('spec-literals',), [])
    res = None
    try:
        with contextlib.redirect_stdout(io.StringIO()):      # (Inspect(echo=True) prints; not observed)
            res = glom.glom(target, spec, **kw)
    except Exception as e:
        impl = {'err': exc_name(e)}
    else:
        try:
            impl = {'ok': enc(res)}
        except ValueError as ve:
            impl = {'err': 'Unencodable:' + str(ve)[:80]}
    log = list(LOG)
    del LOG[:]
    # identity: no mutable container of the spec may be part of the result or reach a callable
    own = set(map(id, SPEC_OBJS))
    leaks = list(LEAKS)
    for o in mutables(res):
        if id(o) in own:
            leaks.append('the result contains the spec\'s own %s object' % type(o).__name__)
    del LEAKS[:]
    del SPEC_OBJS[:]
    del SPEC_LITERALS[:]
    out = dict(case)
    out['impl'] = impl
    out['impl_log'] = log
    out['impl_scope_untouched'] = (before == caller_scope) if before is not None else True
    out['impl_fresh'] = not leaks
    if leaks:
        out['impl_leaks'] = sorted(set(leaks))
    out['_built'] = (spec, target, fns)
    if keep:
        out['_res'] = res
    return out


MARK = '#mutated'


def run_glom_mutating(case):
    """the same spec object evaluated twice; between the two calls every mutable container of the
    first result that glom created (i.e. that is not part of the target, of a Val / scope value of
    the case) is mutated.  The second evaluation (fresh equal target) must not see any of it."""
    first = run_glom(case, keep=True)
    spec, target, fns = first.pop('_built')
    res = first.pop('_res')
    # (objects of the target / of Val and scope values, and literal objects of the spec itself, are the user's)
    given = set(map(id, fns.get(('dec-objs',), []))) | set(map(id, fns.get(('spec-literals',), [])))
    n = 0
    for o in list(mutables(res)):
        if id(o) in given:
            continue
        n += 1
        if type(o) is list:
            o.append(MARK)
        elif isinstance(o, dict):
            o[MARK] = MARK
        else:
            o.add(MARK)
    first['impl_mutated'] = n
    second = run_glom(case, built=(spec, dec(case['target'], fns), fns))
    second.pop('_built', None)
    same = (first['impl'] == second['impl'] and first['impl_log'] == second['impl_log'])
    first['impl_rerun_same'] = same
    first['impl_fresh'] = first['impl_fresh'] and second['impl_fresh']
    if second.get('impl_leaks'):
        first['impl_leaks'] = sorted(set(first.get('impl_leaks', []) + second['impl_leaks']))
    if not same:
        first['impl_rerun'] = {'impl': second['impl'], 'log': second['impl_log']}
    return first
