"""C03 — auto-mode restructuring is compositional: generators + implementation runner."""
import json
import os

from harness import interp_common as ic
from harness.interp_gen import Gen, gate_inspect

PROP = 'C03'
LEAN_MODULES = ['Glom.Props.C03']
FACT_FILES = ['ExcFacts']
READY = True
MANIFEST = dict(
    text=("Lean 4 theorems over the code-shaped loops of the interpreter model (_handle_dict, _handle_list, _handle_tuple, "
          "Coalesce.glomit with accumulators and early exits as in the Python), for every evaluator of the sub-specs, every "
          "scope representation, every target and length: a list spec is map/filter-SKIP/stop-at-STOP of the sub-spec, a dict "
          "spec yields the same keys in order holding the sub-results, a tuple feeds each result to the next step "
          "(glom(t,(a,b)) = glom(glom(t,a),b) for non-sentinel results; a chain of pure steps is the reference fold chainRef, whose "
          "result is never a sentinel, so a chain nested in a chain hands its value on to the outer steps also when one of its "
          "steps returned STOP: c03_chain_ref, c03_nested_chain), Pipe = tuple, Coalesce first non-skipped success wins "
          "and later alternatives never run (skip_exc=() passes over no exception, skip=() skips no value: "
          "c03_coalesce_no_skip_exc, c03_coalesce_skip_nothing), containers are determined by the evaluator at their own scope "
          "only. The loop laws also hold for evaluators WITH EFFECTS (call log, ScopeVars writes, exceptions): "
          "c03_list_stateful / c03_dict_stateful / c03_chain_stateful equate the accumulator loops with the accumulator-free "
          "state-threading references listRefM / dictRefM / chainRefM (each sub-spec evaluated once, left to right, the state "
          "threaded, an exception ends the evaluation with the state reached), c03_list_call_log gives the call log of a list "
          "spec explicitly (the sub-spec's entries per item, in order, up to and including the first STOP), and the interpreter "
          "itself satisfies the hypotheses for instrumented callables (c03_callable_evalOn, c03_callable_loggedOn). Inspect is "
          "modelled: transparent without callbacks (c03_inspect_transparent: Inspect(s) = Spec(s)), breakpoint once before, "
          "post_mortem once after an exception which is re-raised (c03_inspect_callbacks). The model is "
          "tied to /repo by differential execution (result + ordered call log) through the compiled Lean driver, and the "
          "composition law itself is re-evaluated on the real glom (top-level tuple/dict/list specs recomputed from separate "
          "glom calls on their sub-specs)."),
    note=("trusted: Lean kernel + {propext, Classical.choice, Quot.sound}; harness/driver; Python primitives as Prims parameters; "
          "hand-written interpreter model validated by the correspondence on every run. Inspect(recursive=True) with callbacks "
          "is not modelled (the tracer it installs is called for every nested evaluation); what Inspect echoes is not observed."),
    technique='Lean 4 loop-refinement lemmas (accumulator loops = map/filter/fold reference, pure and state-threading) + differential correspondence + metamorphic composition check',
    ref='DESIGN.md §3 C03')
RULE = ('type-directed: a random JSON-like target; a spec tree of depth <= 3 (quick) / 4 (thorough), width <= 4, over '
        '{str path, T, dict (literal and computed keys, dict/OrderedDict), list, tuple, Pipe, callable, type, Val, Spec, '
        'Coalesce(+default/default_factory/skip/skip_exc), Call, Invoke (constants/specs/star), Ref}; chain steps are '
        'derived from the real result of the previous step so most chains resolve; SKIP / STOP are produced at every '
        'position by Val(SKIP/STOP) and by skip_if_odd / stop_if_neg / {stop,skip}_if_{truthy,falsy} callables; 10% of '
        'cases are nested chains: a tuple / Pipe of str paths and plain callables placed directly as a step of a '
        'tuple / Pipe (0-2 steps before it, 1-3 after it) with a callable that returns SKIP / STOP for the value it '
        'receives at a random position of the inner chain; 7% are containers with T leaves in argument position (Call '
        'args / kwargs, Coalesce default, ...) evaluated per record of a list of distinct records; ~12% of accesses are invalid. '
        'Enumerated on every run (1408 cases): every boundary value of one Coalesce keyword -- skip_exc in {(), GlomError as class / '
        '1-tuple, PathAccessError as class / 1-tuple, (ValueError,), (ValueError, KeyError), Exception}, skip in {(), (None,), (0,), '
        'None, 0, False, "", [], SKIP}, default in {None, 0, False, "", [], {}, (), SKIP, STOP, Val(None)}, default_factory -- and '
        'the pairs skip_exc boundary x falsy default, x what the first alternative does (PathAccessError from a path / from T, '
        'GlomError, ValueError, CoalesceError, yields None / 0 / a value) followed by a logged later alternative, x where the '
        'Coalesce stands (whole spec, dict value, tuple step, list element); 25% of the random Coalesces draw such a boundary. '
        'Inspect(spec, echo, recursive, breakpoint=f, post_mortem=g) wraps random sub-specs (callbacks are instrumented callables; '
        'recursive=True without callbacks only). Every '
        'callable is an instrumented catalogue function with a unique name, so the ordered call log is observed. '
        'non-trivial = spec has >= 3 nodes; distinct = distinct (target, spec)')
TRUSTED = ['Python primitives (==, truthiness, hashing, iteration, int(), the catalogue callables) are parameters of the '
           'theorems (`Prims`); their executable instantiation in Glom/Driver/InterpCodec.lean is validated by the '
           'correspondence only']
ASSUMPTIONS = ['what Inspect echoes to stdout is not observed; Inspect(recursive=True) with callbacks is not modelled',
               'T-expressions inside specs carry literal arguments only (C02 covers T)',
               'the iteration of a target is a parameter of the theorems (Prims.iterate): which handler the registry resolves, also '
               'after a registration between two evaluations, is C13 / C06']


def generate(rng, tier, scale, **focus):
    if not focus:
        # enumerated: the boundary values of Coalesce's skip / skip_exc / default arguments
        yield from Gen.coalesce_boundaries()
    n = (1200 if tier == 'quick' else 30000) * scale
    for i in range(n):
        g = Gen(rng, {'extra': ['ref', 'nestchain', 'inspect']})
        t = g.target()
        depth = rng.choice([1, 2, 2, 3]) if tier == 'quick' else rng.choice([2, 3, 3, 4])
        q = rng.random()
        if q < 0.07:
            # containers with T leaves in argument position (Call args / kwargs, Coalesce default, ..) evaluated
            # once per record of a list of distinct records: each evaluation uses the current target
            t = Gen.rows_target(rng)
            spec = g.s_argshape(t, 2)
        elif q < 0.17:
            # a chain of plain steps (str paths, plain callables) nested directly in a tuple / Pipe, a
            # SKIP / STOP-returning callable at a random position of the inner chain, outer steps after it
            spec = g.s_nestchain(t, rng.choice([0, 1]))
        else:
            spec = g.spec(t, depth)
        yield {'spec': gate_inspect(spec), 'target': ic.enc(t), 'scope': []}


def corpus():
    p = os.path.join(os.path.dirname(os.path.dirname(os.path.dirname(os.path.abspath(__file__)))),
                     'corpus', PROP + '.jsonl')
    out = []
    if os.path.exists(p):
        for line in open(p):
            if line.strip():
                out.append(json.loads(line))
    return out


def has_kind(j, kinds):
    if isinstance(j, dict):
        if j.get('k') in kinds:
            return True
        return any(has_kind(v, kinds) for v in j.values())
    if isinstance(j, list):
        return any(has_kind(v, kinds) for v in j)
    return False


def compose(case):
    """recompute a top-level tuple / Pipe / dict / list spec from separate glom calls on its sub-specs"""
    import glom
    from collections import OrderedDict
    spec = case['spec']
    k = spec['k']
    if k not in ('tuple', 'pipe', 'dict', 'odict', 'list') or has_kind(spec, ('ref', 'sRead', 'sGlobRead', 'sVarRead')):
        return None
    fns = {}
    target = ic.dec(case['target'], fns)
    del ic.LOG[:]
    try:
        if k in ('tuple', 'pipe'):
            res = target
            for st in spec['xs']:
                nxt = glom.glom(res, ic.build(st, fns))
                if nxt is glom.SKIP:
                    continue
                if nxt is glom.STOP:
                    break
                res = nxt
        elif k == 'list':
            if not spec['xs']:
                return None
            sub = ic.build(spec['xs'][0], fns)
            res = []
            for item in glom.glom(target, glom.Iter().all()) if not isinstance(target, (list, tuple)) else target:
                v = glom.glom(item, sub)
                if v is glom.SKIP:
                    continue
                if v is glom.STOP:
                    break
                res.append(v)
        else:
            res = OrderedDict() if k == 'odict' else {}
            for kj, vj in spec['es']:
                v = glom.glom(target, ic.build(vj, fns))
                if v is glom.SKIP:
                    continue
                key_ = ic.build(kj, fns)
                if kj['k'] in ('t', 'specW'):
                    key_ = glom.glom(target, key_)
                res[key_] = v
        out = {'ok': ic.enc(res)}
    except Exception as e:
        out = {'err': ic.exc_name(e)}
    log = list(ic.LOG)
    del ic.LOG[:]
    return out, log


def run_impl(case):
    import contextlib
    import io
    base = {k: v for k, v in case.items() if not k.startswith('impl')}
    out = ic.run_glom(base)
    out.pop('_built', None)
    try:
        with contextlib.redirect_stdout(io.StringIO()):
            comp = compose(base)
    except Exception:
        comp = None
    if comp is None:
        out['impl_compose_ok'] = True
    else:
        out['impl_compose_ok'] = (comp[0] == out['impl'] and comp[1] == out['impl_log'])
        if not out['impl_compose_ok']:
            out['impl_compose'] = {'res': comp[0], 'log': comp[1]}
    return out


def key(case):
    return {'spec': case['spec'], 'target': case['target'], 'scope': case.get('scope')}


def size(j):
    if isinstance(j, dict):
        return (1 if 'k' in j else 0) + sum(size(v) for v in j.values())
    if isinstance(j, list):
        return sum(size(v) for v in j)
    return 0


def nontrivial(case, verdict):
    return size(case['spec']) >= 3


def shrink(case):
    """replace any sub-spec by one of its children / drop list elements"""
    base = {k: v for k, v in case.items() if not k.startswith('impl')}
    spec = case['spec']

    def variants(j):
        if isinstance(j, dict) and 'k' in j:
            # replace by a child spec
            for v in j.values():
                if isinstance(v, dict) and 'k' in v:
                    yield v
                if isinstance(v, list):
                    for x in v:
                        if isinstance(x, dict) and 'k' in x:
                            yield x
                        if isinstance(x, list):
                            for y in x:
                                if isinstance(y, dict) and 'k' in y:
                                    yield y
            for key_, v in j.items():
                if isinstance(v, list):
                    for i in range(len(v)):
                        c = dict(j); c[key_] = v[:i] + v[i + 1:]
                        yield c
                        for sub in variants(v[i]):
                            c = dict(j); c[key_] = v[:i] + [sub] + v[i + 1:]
                            yield c
                elif isinstance(v, dict) and 'k' in v:
                    for sub in variants(v):
                        c = dict(j); c[key_] = sub
                        yield c
        elif isinstance(j, list):
            for i in range(len(j)):
                for sub in variants(j[i]):
                    yield j[:i] + [sub] + j[i + 1:]

    for v in variants(spec):
        c = dict(base); c['spec'] = v
        yield c
