"""C03 — auto-mode restructuring is compositional: generators + implementation runner."""
import json
import os

from harness import interp_common as ic
from harness.interp_gen import Gen, gate_inspect

PROP = 'C03'
LEAN_MODULES = ['Glom.Props.C03']
FACT_FILES = ['ExcFacts', 'InterpFacts', 'c03']
READY = True
MANIFEST = dict(
    text=("Lean 4 theorems over the code-shaped loops of the interpreter model (_handle_dict, _handle_list, _handle_tuple, "
          "Coalesce.glomit with accumulators and early exits as in the Python), for every evaluator of the sub-specs, every "
          "scope representation, every target and length: a list spec is map/filter-SKIP/stop-at-STOP of the sub-spec, a dict "
          "spec yields the same keys in order holding the sub-results, a tuple feeds each result to the next step "
          "(glom(t,(a,b)) = glom(glom(t,a),b) for non-sentinel results; a chain of pure steps is the reference fold chainRef, whose "
          "result is never a sentinel, so a chain nested in a chain hands its value on to the outer steps also when one of its "
          "steps returned STOP: c03_chain_ref, c03_nested_chain), Pipe = tuple, Coalesce first non-skipped success wins "
          "and later alternatives never run (skip_exc=() passes over no exception, skip=() skips no value: "
          "c03_coalesce_no_skip_exc, c03_coalesce_skip_nothing), containers are determined by the evaluator at their own scope "
          "only. The loop laws also hold for evaluators WITH EFFECTS (call log, ScopeVars writes, exceptions): "
          "c03_list_stateful / c03_dict_stateful / c03_chain_stateful equate the accumulator loops with the accumulator-free "
          "state-threading references listRefM / dictRefM / chainRefM (each sub-spec evaluated once, left to right, the state "
          "threaded, an exception ends the evaluation with the state reached), c03_list_call_log gives the call log of a list "
          "spec explicitly (the sub-spec's entries per item, in order, up to and including the first STOP), and the interpreter "
          "itself satisfies the hypotheses for instrumented callables (c03_callable_evalOn, c03_callable_loggedOn). Inspect is "
          "modelled: transparent without callbacks (c03_inspect_transparent: Inspect(s) = Spec(s)), breakpoint once before, "
          "post_mortem once after an exception which is re-raised (c03_inspect_callbacks). The model is "
          "tied to /repo by differential execution (result + ordered call log) through the compiled Lean driver, and the "
          "composition law itself is re-evaluated on the real glom (top-level tuple/dict/list specs recomputed from separate "
          "glom calls on their sub-specs)."),
    checker=("holds = checkC03 (independent: the observed outcome and call log of the whole spec equal the ones recomputed by composeRef -- "
             "feed forward / SKIP / STOP / same keys and type / iteration order / value before a computed key / Coalesce's first non-skipped "
             "success, an exception of alternative or skip predicate passed over iff in skip_exc -- from separately observed leaf outcomes; "
             "c03_model_checks) AND equality with the code-shaped model (for the leaves: Call, Invoke, T, paths, ...)"),
    note=("trusted: Lean kernel + {propext, Classical.choice, Quot.sound}; harness/driver; Python primitives as Prims parameters; "
          "hand-written interpreter model validated by the correspondence on every run. Inspect(recursive=True) with callbacks "
          "is not modelled (the tracer it installs is called for every nested evaluation); what Inspect echoes is not observed."),
    technique='Lean 4 loop-refinement lemmas (accumulator loops = map/filter/fold reference, pure and state-threading) + differential correspondence + metamorphic composition check',
    ref='DESIGN.md §3 C03')
RULE = ('type-directed: a random JSON-like target; a spec tree of depth <= 3 (quick) / 4 (thorough), width <= 4, over '
        '{str path, T, dict (literal and computed keys, dict/OrderedDict), list, tuple, Pipe, callable, type, Val, Spec, '
        'Coalesce(+default/default_factory/skip/skip_exc), Call, Invoke (constants/specs/star), Ref}; chain steps are '
        'derived from the real result of the previous step so most chains resolve; SKIP / STOP are produced at every '
        'position by Val(SKIP/STOP) and by skip_if_odd / stop_if_neg / {stop,skip}_if_{truthy,falsy} callables; 10% of '
        'cases are nested chains: a tuple / Pipe of str paths and plain callables placed directly as a step of a '
        'tuple / Pipe (0-2 steps before it, 1-3 after it) with a callable that returns SKIP / STOP for the value it '
        'receives at a random position of the inner chain; 7% are containers with T leaves in argument position (Call '
        'args / kwargs, Coalesce default, ...) evaluated per record of a list of distinct records; ~12% of accesses are invalid. '
        'Enumerated on every run (1408 cases): every boundary value of one Coalesce keyword -- skip_exc in {(), GlomError as class / '
        '1-tuple, PathAccessError as class / 1-tuple, (ValueError,), (ValueError, KeyError), Exception}, skip in {(), (None,), (0,), '
        'None, 0, False, "", [], SKIP}, default in {None, 0, False, "", [], {}, (), SKIP, STOP, Val(None)}, default_factory -- and '
        'the pairs skip_exc boundary x falsy default, x what the first alternative does (PathAccessError from a path / from T, '
        'GlomError, ValueError, CoalesceError, yields None / 0 / a value) followed by a logged later alternative, x where the '
        'Coalesce stands (whole spec, dict value, tuple step, list element); 25% of the random Coalesces draw such a boundary. '
        'Inspect(spec, echo, recursive, breakpoint=f, post_mortem=g) wraps random sub-specs (callbacks are instrumented callables; '
        'recursive=True without callbacks only). 3% of the cases put ONE bare Ref(name) object -- inside a reused fragment such as '
        '("next", Ref("fmt")) or ("children", [Ref("tree")]) -- under two or three different Ref(name, body) definitions: in one dict / '
        'tuple spec, as Call arguments, or in consecutive calls of one process (`before`: specs evaluated earlier from the same objects). '
        'Further shapes: list specs with more than one element (only the first is the sub-spec), Coalesce skip predicates that raise '
        '(with and without a matching skip_exc), Call with an EFFECTFUL func spec and effectful argument specs (order func, args, kwargs in '
        'the call log), a class as callee of Call / Invoke, a non-str keyword in Call kwargs. OBSERVATION for the independent checker: for '
        'every spec that is a composition (tuple / Pipe / dict / list / Val / Spec / Auto / Coalesce at any depth) of scope-free sub-specs, the '
        'harness evaluates every LEAF by a separate top-level glom call on the target it receives and hands (position, target, outcome, '
        'call log) to the Lean checker checkC03, which recomputes the composite by the rules of the property text. Every '
        'callable is an instrumented catalogue function with a unique name, so the ordered call log is observed. '
        'non-trivial = spec has >= 3 nodes; distinct = distinct (target, spec)')
TRUSTED = ['Python primitives (==, truthiness, hashing, iteration, int(), the catalogue callables) are parameters of the '
           'theorems (`Prims`); their executable instantiation in Glom/Driver/InterpCodec.lean is validated by the '
           'correspondence only']
ASSUMPTIONS = ['what Inspect echoes to stdout is not observed; Inspect(recursive=True) with callbacks is not modelled',
               'T-expressions inside specs carry literal arguments only (C02 covers T)',
               'READING (C03-3): a container object referenced twice in one argument-position container is evaluated once by glom '
               '(the id() memo of _ArgValuator); the tree-shaped Spec type cannot express that sharing (the heap reference `rebuild` of C08 does); '
               'subclass instances of dict as AUTO specs (defaultdict, Counter) are handled by isinstance (fact ifAuto) but not generated',
               'Inspect is outside the 20 properties (lead): a recursive Inspect\'s tracer also stays installed for the later steps of an '
               'enclosing chain (4 breakpoint calls instead of 2 for (Inspect("a", recursive=True, breakpoint=bp), "b")): gate kept',
               'the iteration of a target is a parameter of the theorems (Prims.iterate): which handler the registry resolves, also '
               'after a registration between two evaluations, is C13 / C06']


def generate(rng, tier, scale, **focus):
    if not focus:
        # enumerated: the boundary values of Coalesce's skip / skip_exc / default arguments
        yield from Gen.coalesce_boundaries()
    n = (1200 if tier == 'quick' else 30000) * scale
    for i in range(n):
        g = Gen(rng, {'extra': ['ref', 'nestchain', 'inspect']})
        t = g.target()
        depth = rng.choice([1, 2, 2, 3]) if tier == 'quick' else rng.choice([2, 3, 3, 4])
        q = rng.random()
        if q < 0.03:
            # one bare Ref object (in a reused fragment) under several Ref(name, body) definitions, in one
            # spec or across consecutive calls of this process
            spec, shared, before, t = g.sharedref_case()
            yield {'spec': spec, 'target': ic.enc(t), 'scope': [], 'shared': shared, 'before': before}
            continue
        if q < 0.07:
            # containers with T leaves in argument position (Call args / kwargs, Coalesce default, ..) evaluated
            # once per record of a list of distinct records: each evaluation uses the current target
            t = Gen.rows_target(rng)
            spec = g.s_argshape(t, 2)
        elif q < 0.17:
            # a chain of plain steps (str paths, plain callables) nested directly in a tuple / Pipe, a
            # SKIP / STOP-returning callable at a random position of the inner chain, outer steps after it
            spec = g.s_nestchain(t, rng.choice([0, 1]))
        else:
            spec = g.spec(t, depth)
        yield {'spec': gate_inspect(spec), 'target': ic.enc(t), 'scope': []}


def corpus():
    p = os.path.join(os.path.dirname(os.path.dirname(os.path.dirname(os.path.abspath(__file__)))),
                     'corpus', PROP + '.jsonl')
    out = []
    if os.path.exists(p):
        for line in open(p):
            if line.strip():
                out.append(json.loads(line))
    return out


def has_kind(j, kinds):
    if isinstance(j, dict):
        if j.get('k') in kinds:
            return True
        return any(has_kind(v, kinds) for v in j.values())
    if isinstance(j, list):
        return any(has_kind(v, kinds) for v in j)
    return False


SCOPE_KINDS = ('sRead', 'sGlobRead', 'sVarRead', 'sBind', 'aBind', 'aGlob', 'aVar', 'let', 'ref', 'vars', 'iter', 'probe', 'rprobe')


def scope_free(j):
    """mirror of `scopeFreeF` (Glom/Spec/C03.lean): nothing that reads or writes the scope, no lazy stream"""
    if isinstance(j, dict):
        if j.get('k') in SCOPE_KINDS:
            return False
        if j.get('k') == 'specW' and j.get('scope'):
            return False
        return all(scope_free(v) for v in j.values())
    if isinstance(j, list):
        return all(scope_free(v) for v in j)
    return True


COMPOSED = ('tuple', 'pipe', 'dict', 'odict', 'list', 'val', 'specW', 'auto', 'coalesce')


def is_composed(j):
    k = j['k']
    return k in COMPOSED and not (k == 'list' and not j['xs']) and not (k == 'specW' and j['scope'])


class _Stop(Exception):
    pass


def observe_leaves(case):
    """SEPARATE top-level glom calls on the leaves of the spec tree -- the sub-specs that are not themselves a
    tuple / Pipe / dict / list / Val / Spec / Coalesce -- at every nesting level, each on the target it receives
    when the containers above it are composed by the rules of the property text (feed forward, SKIP / STOP, same
    keys, iteration order, Coalesce's first non-skipped success).  Only the leaf observations are handed to the
    Lean checker (`checkC03`), which recomputes the composite from them on its own: positions are paths in the
    spec tree (chain step i -> [i]; list sub-spec -> [0]; dict entry i -> [i, 1] for the value, [i, 0] for a
    computed key; Spec(s) -> [0]; Coalesce alternative i -> [i], its skip predicate -> [1000], default -> [2000],
    default_factory -> [2001]).  Returns None when a leaf's target or outcome cannot be encoded."""
    import glom
    spec = case['spec']
    fns = {}
    leaves = []

    def leaf(pos, j, target):
        del ic.LOG[:]
        try:
            tj = ic.enc(target)
        except ValueError:
            raise _Stop('unencodable intermediate target')
        res = None
        try:
            res = glom.glom(target, ic.build(j, fns))
            out = {'ok': ic.enc(res)}
        except ValueError as ve:
            if str(ve).startswith('cannot encode'):
                raise _Stop('unencodable leaf result')
            out = {'err': ic.exc_name(ve)}
        except Exception as e:
            out = {'err': ic.exc_name(e)}
        leaves.append({'pos': pos, 'spec': j, 'target': tj, 'res': out, 'log': list(ic.LOG)})
        del ic.LOG[:]
        if 'err' in out:
            raise _Err(out['err'])
        return res

    class _Err(Exception):
        pass

    def caught(classes, name):
        e = ic.exc_class(name)
        return any(issubclass(e, ic.exc_class(c)) for c in classes)

    def ev(j, target, pos):
        k = j['k']
        if not is_composed(j):
            return leaf(pos, j, target)
        if k in ('tuple', 'pipe'):
            res = target
            for i, st in enumerate(j['xs']):
                nxt = ev(st, res, pos + [i])
                if nxt is glom.SKIP:
                    continue
                if nxt is glom.STOP:
                    break
                res = nxt
            return res
        if k == 'list':
            try:
                items = list(target) if isinstance(target, (list, tuple)) else list(glom.glom(target, glom.Iter().all()))
            except Exception as e:
                raise _Err(ic.exc_name(e))
            out = []
            for item in items:
                v = ev(j['xs'][0], item, pos + [0])
                if v is glom.SKIP:
                    continue
                if v is glom.STOP:
                    break
                out.append(v)
            return out
        if k in ('dict', 'odict'):
            from collections import OrderedDict
            out = OrderedDict() if k == 'odict' else {}
            for i, (kj, vj) in enumerate(j['es']):
                v = ev(vj, target, pos + [i, 1])
                if v is glom.SKIP:
                    continue
                if kj['k'] in ('t', 'specW', 'sRead'):
                    key_ = ev(kj, target, pos + [i, 0])
                    hash(key_)
                else:
                    key_ = ic.build(kj, fns)
                out[key_] = v
            return out
        if k == 'val':
            return ic.dec(j['v'], fns)
        if k in ('specW', 'auto'):
            return ev(j['s'], target, pos + [0])
        # Coalesce
        for i, sub in enumerate(j['subs']):
            try:
                v = ev(sub, target, pos + [i])
                sk = j.get('skip')
                if sk is None:
                    skipped = False
                elif sk['k'] == 'pred':
                    skipped = bool(leaf(pos + [1000], {'k': 'fn', 'name': sk['name'], 'kind': sk['kind']}, v))
                elif sk['k'] == 'anyOf':
                    skipped = v in tuple(ic.dec(x, fns) for x in sk['vs'])
                else:
                    skipped = (v == ic.dec(sk['v'], fns))
                if not skipped:
                    return v
            except _Err as e:
                if not caught(j['skip_exc'], str(e)):
                    raise
        if j.get('dflt') is not None:
            return leaf(pos + [2000], {'k': 'coalesce', 'subs': [], 'dflt': j['dflt'], 'dflt_factory': None, 'skip': None,
                                       'skip_exc': ['GlomError']}, target)
        if j.get('dflt_factory') is not None:
            return leaf(pos + [2001], {'k': 'invoke', 'func': {'k': 'fn', 'name': j['dflt_factory'][0], 'kind': j['dflt_factory'][1]},
                                       'func_is_spec': False, 'blocks': []}, target)
        raise _Err('CoalesceError')

    try:
        ev(spec, ic.dec(case['target'], fns), [])
    except _Stop as e:
        return None, str(e)
    except (_Err, TypeError):
        pass                       # the composite raises: the leaves observed so far are all it needs
    finally:
        del ic.LOG[:]
    return leaves, ''


def run_impl(case):
    import contextlib
    import io
    base = {k: v for k, v in case.items() if not k.startswith('impl')}
    out = ic.run_glom(base)
    out.pop('_built', None)
    # separately observed leaf outcomes (an exception raised by the harness itself is a harness error)
    if scope_free(base['spec']) and is_composed(base['spec']):
        with contextlib.redirect_stdout(io.StringIO()):
            leaves, why = observe_leaves(base)
        out['impl_leaves'] = leaves
        if leaves is None:
            out['impl_leaves_why'] = why
    else:
        out['impl_leaves'] = None
        out['impl_leaves_why'] = 'not a composition of separately observable sub-specs'
    return out


def key(case):
    k = {'spec': case['spec'], 'target': case['target'], 'scope': case.get('scope')}
    for f in ('shared', 'before', 'scope_layers'):
        if case.get(f):
            k[f] = case[f]
    return k


def size(j):
    if isinstance(j, dict):
        return (1 if 'k' in j else 0) + sum(size(v) for v in j.values())
    if isinstance(j, list):
        return sum(size(v) for v in j)
    return 0


def nontrivial(case, verdict):
    return size(case['spec']) >= 3


def shrink(case):
    """replace any sub-spec by one of its children / drop list elements"""
    base = {k: v for k, v in case.items() if not k.startswith('impl')}
    spec = case['spec']

    def variants(j):
        if isinstance(j, dict) and 'k' in j:
            # replace by a child spec
            for v in j.values():
                if isinstance(v, dict) and 'k' in v:
                    yield v
                if isinstance(v, list):
                    for x in v:
                        if isinstance(x, dict) and 'k' in x:
                            yield x
                        if isinstance(x, list):
                            for y in x:
                                if isinstance(y, dict) and 'k' in y:
                                    yield y
            for key_, v in j.items():
                if isinstance(v, list):
                    for i in range(len(v)):
                        c = dict(j); c[key_] = v[:i] + v[i + 1:]
                        yield c
                        for sub in variants(v[i]):
                            c = dict(j); c[key_] = v[:i] + [sub] + v[i + 1:]
                            yield c
                elif isinstance(v, dict) and 'k' in v:
                    for sub in variants(v):
                        c = dict(j); c[key_] = sub
                        yield c
        elif isinstance(j, list):
            for i in range(len(j)):
                for sub in variants(j[i]):
                    yield j[:i] + [sub] + j[i + 1:]

    for v in variants(spec):
        c = dict(base); c['spec'] = v
        yield c
