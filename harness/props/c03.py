"""C03 — auto-mode restructuring is compositional: generators + implementation runner."""
import json
import os

from harness import interp_common as ic
from harness.interp_gen import Gen

PROP = 'C03'
LEAN_MODULES = ['Glom.Props.C03']
FACT_FILES = ['ExcFacts']
READY = False
RULE = ('type-directed: a random JSON-like target; a spec tree of depth <= 3 (quick) / 4 (thorough), width <= 4, over '
        '{str path, T, dict (literal and computed keys, dict/OrderedDict), list, tuple, Pipe, callable, type, Val, Spec, '
        'Coalesce(+default/default_factory/skip/skip_exc), Call, Invoke (constants/specs/star), Ref}; chain steps are '
        'derived from the real result of the previous step so most chains resolve; SKIP / STOP are produced at every '
        'position by Val(SKIP/STOP) and by skip_if_odd / stop_if_neg callables; ~12% of accesses are invalid. Every '
        'callable is an instrumented catalogue function with a unique name, so the ordered call log is observed. '
        'non-trivial = spec has >= 3 nodes; distinct = distinct (target, spec)')
TRUSTED = ['Python primitives (==, truthiness, hashing, iteration, int(), the catalogue callables) are parameters of the '
           'theorems (`Prims`); their executable instantiation in Glom/Driver/InterpCodec.lean is validated by the '
           'correspondence only']
ASSUMPTIONS = ['Inspect is not modelled (I/O)', 'T-expressions inside specs carry literal arguments only (C02 covers T)']


def generate(rng, tier, scale, **focus):
    n = (1200 if tier == 'quick' else 30000) * scale
    for i in range(n):
        g = Gen(rng, {'extra': ['ref']})
        t = g.target()
        depth = rng.choice([1, 2, 2, 3]) if tier == 'quick' else rng.choice([2, 3, 3, 4])
        spec = g.spec(t, depth)
        yield {'spec': spec, 'target': ic.enc(t), 'scope': []}


def corpus():
    p = os.path.join(os.path.dirname(os.path.dirname(os.path.dirname(os.path.abspath(__file__)))),
                     'corpus', PROP + '.jsonl')
    out = []
    if os.path.exists(p):
        for line in open(p):
            if line.strip():
                out.append(json.loads(line))
    return out


def run_impl(case):
    return ic.run_glom({k: v for k, v in case.items() if not k.startswith('impl')})


def key(case):
    return {'spec': case['spec'], 'target': case['target'], 'scope': case.get('scope')}


def size(j):
    if isinstance(j, dict):
        return (1 if 'k' in j else 0) + sum(size(v) for v in j.values())
    if isinstance(j, list):
        return sum(size(v) for v in j)
    return 0


def nontrivial(case, verdict):
    return size(case['spec']) >= 3


def shrink(case):
    """replace any sub-spec by one of its children / drop list elements"""
    base = {k: v for k, v in case.items() if not k.startswith('impl')}
    spec = case['spec']

    def variants(j):
        if isinstance(j, dict) and 'k' in j:
            # replace by a child spec
            for v in j.values():
                if isinstance(v, dict) and 'k' in v:
                    yield v
                if isinstance(v, list):
                    for x in v:
                        if isinstance(x, dict) and 'k' in x:
                            yield x
                        if isinstance(x, list):
                            for y in x:
                                if isinstance(y, dict) and 'k' in y:
                                    yield y
            for key_, v in j.items():
                if isinstance(v, list):
                    for i in range(len(v)):
                        c = dict(j); c[key_] = v[:i] + v[i + 1:]
                        yield c
                        for sub in variants(v[i]):
                            c = dict(j); c[key_] = v[:i] + [sub] + v[i + 1:]
                            yield c
                elif isinstance(v, dict) and 'k' in v:
                    for sub in variants(v):
                        c = dict(j); c[key_] = sub
                        yield c
        elif isinstance(j, list):
            for i in range(len(j)):
                for sub in variants(j[i]):
                    yield j[:i] + [sub] + j[i + 1:]

    for v in variants(spec):
        c = dict(base); c['spec'] = v
        yield c
