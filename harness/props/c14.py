"""C14 — wildcards: generators, implementation runner, shrinker."""
import json
import os
import random
import signal
from collections import OrderedDict

from harness import pyobjs

PROP = 'C14'
LEAN_MODULES = ['Glom.Props.C14']
FACT_FILES = ['C14Facts']
READY = True
MANIFEST = dict(
    text="Lean 4 theorems about a literal model of the wildcard code on the shared heap kernel (identity = "
         "address, sharing and cycles representable): `_extend_children` yields exactly the children "
         "(mapping values, sequence / set items, attribute values; raising accesses tolerated; user-registered "
         "`iterate` handlers) [c14_star]; the `'X'` loop — a growing list walked by index with an id()-visited set "
         "seeded with the root — is a total function by well-founded recursion on (unexpanded addresses, unwalked "
         "items) for EVERY object graph and EVERY registry (the enumeration of children is a parameter), computes "
         "the queue breadth-first traversal [c14_starstar_bfs_any_registry, c14_starstar_bfs], expands every "
         "container at most once and at most n+1 containers [c14_expand_once_any_registry, c14_expand_once, "
         "c14_terminates]; the evaluation of any path with any number of wildcards at any position equals 'map the "
         "remaining steps over the entries, keep the successes' and never fails after a wildcard "
         "[c14_tail_independent, c14_fails_only_before_first_wildcard]; WITH EFFECTS (method calls pop / append / "
         "__next__ after wildcards, state = heap + list-allocation counter + call log) the model's loop is the "
         "reference 'once per matched position, in order, on the evolving state' and keeps the heap well-formed "
         "[c14_stateful_refines], every list of a result is a new object — no two positions share a list cell "
         "[c14_fresh_lists], one object at n positions is n evaluations [c14_same_object_n_appends, "
         "c14_same_object_n_pops], the pure evaluation is the call-free special case [c14_pure_conservative]; k "
         "wildcards give k list levels [c14_nesting], `__stars__` is additive over Path parts incl. nested Paths "
         "[c14_stars_append, c14_stars_path], `layers-1` flattenings are exactly right for every k "
         "[c14_flatten_depth, c14_flatten_too_deep]; `_apply_for_each` applies Assign/Delete to exactly the "
         "entries, in order [c14_broadcast]; ignore_missing / missing= per entry [c14_ignore_*, "
         "c14_ignore_total, c14_missing_only_before_first_wildcard]; Coalesce / default= over wildcard paths: first alternative whose part in front "
         "of the first wildcard can be walked, an empty list is a value [c14_coalesce, "
         "c14_default_iff_unreachable]; the switch PATH_STAR: off = plain `P` steps, no list, on = wildcards, "
         "irrelevant for texts without `*` segments [c14_path_star_off_plain, c14_path_star_off_value, "
         "c14_path_star_on_counts, c14_path_star_irrelevant]; checker theorems c14_model_checks, c14_model_checks_read; "
         "per-run facts obligation by `decide` on the decision shapes regenerated from /repo's AST (canonical-form "
         "comparison: invariant under renaming, module-level constants, or-chains of isinstance, list/tuple "
         "temporaries, for/while, early returns); model tied to the code by differential execution of real glom / "
         "assign / delete / Coalesce / Glommer calls against the compiled Lean driver (entries compared by "
         "address, result lists by identity, heap snapshots and call logs after every read, time budget against "
         "hangs).",
    note="trusted: Lean kernel + {propext, Classical.choice, Quot.sound}; extractor (extract/facts/c14.py); "
         "harness/driver; CPython's dict / list / attribute access as modelled in Glom/Py/Access.lean and the "
         "methods list.pop / list.append / dict.pop / It.__next__ as modelled in Glom/Model/C14S.lean; which "
         "handler the registry picks per class (C13's subject) enters as the functions keysH / getH / iterH / "
         "assignH of the class's MRO, two interpreter facts per class and the user registration recorded per class, "
         "validated on every case; set iteration order is observed by the harness and given to the model; assigned "
         "values are immediate values; an Assign(missing=) whose path fails before its first wildcard is C11's "
         "subject; Assign / Delete on user-registered types and set.pop() are skipped.",
    technique='Lean 4 well-founded definition (termination for every graph and registry) + refinement to a '
              'breadth-first / once-per-position reference with state + facts obligation by decide + differential '
              'correspondence',
    ref='DESIGN.md §3 C14')
RULE = ('type-directed: a target is generated as a heap graph of dict / OrderedDict / list / tuple / set / '
        'frozenset / attribute objects and their subclasses (with and without __dict__), containers whose '
        'element access raises (RDict.__getitem__, RList.__iter__, RObj.__getattribute__), shared iterators (It), '
        'user container types registered on a Glommer (reversed iterate / iterate=False), objects with `__slots__` only, '
        'mappingproxy, UserDict, strings and other '
        'immediate values, with shared sub-objects (DAG) and back edges (cycles, also through the root); a '
        'path with 0-3 wildcards (`*` / `**`) at every position among 0-3 plain segments is derived by walking '
        'the graph (mostly valid; absent keys, non-numeric indexes, `bad` names planted), spelled as dotted '
        'text, Path(...) with T.__star__() / T.__starstar__() parts, a mixture with T steps, nested Path '
        'arguments, or one T chain; method calls with an effect (pop / append / __next__ / a raising callee) and arithmetic '
        'steps (T + n: a PathAccessError on every entry that is no number) at '
        'random positions of reads; 15% of all cases spell the same path from S with the data as a scope variable '
        'and are held against the T-rooted evaluation of the same data; 22% of the cases are Assign / Delete '
        'through the wildcards (final step as plain segment, T[..] or T.attr; ignore_missing / missing= set or '
        'not), plus regular one- and two-level targets whose entries have or LACK the final key in random '
        'positions; targets in which THE SAME OBJECT occurs at several positions directly under `*` / `**` (list '
        'slots, dict values, attributes, DAG levels) with remainders that are further wildcards (identity of '
        'every result list observed) or calls with an effect (final heap, returned values, call log); the switch '
        'PATH_STAR off / on over targets with keys named `*` / `**` (read, assign, delete); Coalesce of 1-3 '
        'wildcard paths and glom(default=) with unreachable / empty alternatives; fixed cases cover the '
        'self-containing list, shared children, strings, sets, user types; thorough tier: exhaustively all 4096 '
        'object graphs on three two-slot lists x 10 paths (wildcards alone, nested, with calls). entries are compared by address, '
        'scalars by value, result lists by identity; a 3 s alarm turns a hang into a reported case. non-trivial = '
        'the path has a wildcard and does not fail before it, or the switch is off, or a Coalesce / default case; 12% of the '
        'cases run after a history of non-raising registry lookups (get_handler(op, obj, raise_exc=False)) for objects '
        'of the target; cases outside the model are counted per reason (branch outside:<reason>), never non-trivial; '
        'distinct = distinct (heap, target, spelling, mutation, switch, alternatives)')
TRUSTED = ['handler choice of the registry per class is an environment function validated on every case '
           '(C13 proves the registry)', 'set iteration order is observed, not modelled',
           'list.pop / list.append / dict.pop / It.__next__ as modelled (validated on every case)']
ASSUMPTIONS = ['READING (entries for which the steps fail are dropped): "fail" = the step raises PathAccessError — '
               'attribute / item / plain-segment access and arithmetic failures are PathAccessErrors and drop the entry; '
               'an exception raised BY a called function keeps its class (a PathAccessError of the callee\'s own drops '
               'the entry, anything else — other GlomErrors included — ends the evaluation)',
               'READING (always terminates): the quantifier is over finite object graphs whose accessors create no '
               'objects; a target with a fresh-child accessor (class Inf) is run with a short budget and counted '
               'under outside:fresh-child-accessor:*, never judged',
               'READING (one entry per child): mapping = dict / OrderedDict (and subclasses) and registered types — '
               'their values; attribute values = those of the `__dict__`; any other iterable — its items. So an object '
               'with `__slots__` only has no children, a mappingproxy yields its KEYS, a UserDict its attribute `data`; '
               'bytes / str have none (the model states what glom does for these)',
               'the per-entry effect of Assign / Delete (assignOp / delOp) and of method calls (callStep) is the '
               'model\'s own copy of Python\'s part — the primitives C11 / C12 model and prove; C14 validates its copy '
               'on every case and proves the broadcast over the entries',
               'default registry + three user registrations on a Glommer (iterate handlers)',
               'assigned values and call arguments are immediate values',
               'Assign(missing=) whose path fails BEFORE its first wildcard is skipped (the backfill is C11)',
               'set.pop(), UserDict.pop() and Assign / Delete on user-registered / catalogue types (Slot, mappingproxy, '
               'UserDict) are outside the model: counted in the histogram under outside:<reason>',
               'Coalesce with the default skip / skip_exc, over call-free paths']


# ---------------------------------------------------------------- extra target classes
class RDict(dict):
    """dict whose element access raises for keys starting with 'bad'"""
    def __getitem__(self, k):
        if isinstance(k, str) and k.startswith('bad'):
            raise KeyError(k)
        return dict.__getitem__(self, k)


class RList(list):
    """list whose iteration raises when it reaches the string 'boom'"""
    __slots__ = ()

    def __iter__(self):
        for x in list.__iter__(self):
            if x == 'boom' and isinstance(x, str):
                raise RuntimeError('boom')
            yield x


class RObj:
    """attribute object whose attribute access raises for names starting with 'bad'"""
    def __getattribute__(self, name):
        if name.startswith('bad'):
            raise AttributeError(name)
        return object.__getattribute__(self, name)


class LSub(list):
    """list subclass with a __dict__ (no __slots__)"""


class SList(list):
    __slots__ = ()


class DSub(dict):
    """dict subclass with a __dict__"""


class TSub(tuple):
    __slots__ = ()


class TDict(tuple):
    """tuple subclass with a __dict__"""


class SSub(set):
    """set subclass with a __dict__"""


class RevList(list):
    """a user container type: registered (on the Glommer the case runs with) with an `iterate` handler that
    yields the items in REVERSE order"""


class RevTuple(tuple):
    """the same for a tuple subclass (no __dict__)"""
    __slots__ = ()


class NoIterList(list):
    """a user container type registered with `iterate=False`: not iterable for glom"""
    __slots__ = ()


def _rev_iter(x):
    return reversed(list(list.__iter__(x) if isinstance(x, list) else tuple.__iter__(x)))


USER_REG = {'RevList': 'rev', 'RevTuple': 'rev', 'NoIterList': 'off'}


def user_glommer():
    """a Glommer whose registry has the default types and the user container types"""
    import glom
    g = glom.Glommer()
    g.register(RevList, iterate=_rev_iter)
    g.register(RevTuple, iterate=_rev_iter)
    g.register(NoIterList, iterate=False)
    return g


class Slot:
    """an object with `__slots__` only: attributes, but no `__dict__` (and not iterable)"""
    __slots__ = ('a', 'b', 'k', 'bad1')


class Inf(dict):
    """OUTSIDE the reading of "always terminates": a mapping whose element access CREATES an object — every
    `d[k]` is a new Inf with the same keys, so the object graph below it is infinite"""
    def __getitem__(self, k):
        dict.__getitem__(self, k)
        return Inf(self)


import collections as _collections
import types as _types
UserDict = _collections.UserDict
MappingProxy = _types.MappingProxyType      # __name__ == 'mappingproxy'
SLOT_NAMES = list(Slot.__slots__)


class Unmodelled(BaseException):
    """raised by a harness class when it is used outside the behaviour the model describes (the case is
    skipped); a BaseException so that no `except Exception` of glom can swallow it"""


CALL_LOG = []     # (receiver, method name): every call of an instrumented method, in order


class It:
    """a shared iterator: `elems` (a list or tuple of the target) and `pos`; `__next__` steps it
    (the attribute names are no attributes of any builtin type: `T.elems` on a dict is an AttributeError)"""
    def __iter__(self):
        return self

    def __next__(self, *a):
        CALL_LOG.append((self, '__next__'))
        if a:
            raise TypeError('__next__() takes no arguments')
        d = object.__getattribute__(self, '__dict__')
        items, pos = d.get('elems'), d.get('pos')
        if type(pos) is not int or pos < 0 or not isinstance(items, (list, tuple)):
            raise Unmodelled()
        if pos >= len(items):
            raise StopIteration
        d['pos'] = pos + 1
        return items[pos]


FAIL_CLASSES = ['BadSpec', 'GlomError', 'PathAssignError', 'PathAccessError', 'KeyError', 'AttributeError',
                'IndexError', 'ValueError', 'RuntimeError']


def _fail(self, *a):
    """raise an exception of the named class: GlomErrors that are no PathAccessError, a PathAccessError of
    the callee's own, the builtin classes PathAccessError inherits from, others"""
    CALL_LOG.append((self, 'fail'))
    if len(a) != 1 or not isinstance(a[0], str):
        raise TypeError('fail() takes the name of an exception class')
    import glom
    from glom import mutation
    name = a[0]
    if name == 'PathAccessError':
        raise glom.PathAccessError(KeyError('k'), glom.Path('k'), 0)
    if name == 'PathAssignError':
        raise mutation.PathAssignError(KeyError('k'), glom.Path('k'), 'k')
    if name in ('BadSpec', 'GlomError'):
        raise getattr(glom, name)('raised by the callee')
    if name in FAIL_CLASSES:
        import builtins
        raise getattr(builtins, name)('raised by the callee')
    raise Unmodelled()


def _logged(base, name):
    def method(self, *a):
        CALL_LOG.append((self, name))
        return getattr(base, name)(self, *a)
    method.__name__ = name
    return method


# the methods with an effect that paths call after a wildcard are instrumented on every class of the
# harness (the builtin list / dict cannot be: their calls are seen through the state they leave)
for _c in (LSub, SList, RList, RevList, NoIterList):
    _c.pop = _logged(list, 'pop')
    _c.append = _logged(list, 'append')
for _c in (DSub, RDict):
    _c.pop = _logged(dict, 'pop')
# one class per layout has a method that raises what it is told to
for _c in (It, LSub, DSub):
    _c.fail = _fail

EXTRA = [RDict, RList, RObj, LSub, SList, DSub, TSub, TDict, SSub, It, RevList, RevTuple, NoIterList, Slot, Inf,
         UserDict]
for _c in EXTRA:
    pyobjs.CLASSES.setdefault(_c.__name__, _c)
    if issubclass(_c, dict):
        pyobjs.LAYOUT.setdefault(_c.__name__, 'dict')
    elif issubclass(_c, list):
        pyobjs.LAYOUT.setdefault(_c.__name__, 'list')
    elif issubclass(_c, tuple):
        pyobjs.LAYOUT.setdefault(_c.__name__, 'tuple')
    elif issubclass(_c, (set, frozenset)):
        pyobjs.LAYOUT.setdefault(_c.__name__, 'set')
    else:
        pyobjs.LAYOUT.setdefault(_c.__name__, 'inst')

# a mapping type that is neither a dict nor registered as a mapping: the cell layout of a dict
pyobjs.CLASSES.setdefault('mappingproxy', MappingProxy)
pyobjs.LAYOUT.setdefault('mappingproxy', 'dict')
pyobjs.LAYOUT['UserDict'] = 'inst'          # an attribute object: its entries are in the attribute `data`

USED = ['dict', 'OrderedDict', 'list', 'tuple', 'set', 'frozenset', 'Obj', 'Obj2',
        'RDict', 'RList', 'RObj', 'LSub', 'SList', 'DSub', 'TSub', 'TDict', 'SSub', 'It', 'RevList', 'RevTuple', 'NoIterList',
        'Slot', 'UserDict', 'mappingproxy']
CATALOGUE = ('Slot', 'UserDict', 'mappingproxy')      # no Assign / Delete cases on these (C11 / C12)


def class_info():
    out = []
    for n in USED:
        c = pyobjs.CLASSES[n]
        if issubclass(c, tuple):
            x = c(())
        elif c is MappingProxy:
            x = c({})
        else:
            x = c.__new__(c)
        out.append([n, {'mro': [k.__name__ for k in c.__mro__],
                        'dict': hasattr(x, '__dict__'),
                        'iter': callable(getattr(c, '__iter__', None)) and c not in (str, bytes),
                        'reg': USER_REG.get(n, '')}])
    return out


NAMES = ['a', 'b', 'k', 'bad1']
SCALARS = [None, True, 0, 1, 7, 'x', 'abc', '', 'boom']


def jval(v):
    if v is None:
        return None
    if isinstance(v, bool):
        return {'b': v}
    if isinstance(v, int):
        return {'i': v}
    return {'s': v}


class HeapGen:
    def __init__(self, rng, maxdepth, quirky, user=False):
        self.rng, self.maxdepth, self.quirky = rng, maxdepth, quirky
        self.user = user          # may the target contain user-registered container types?
        self.heap = []
        self.open_mut = []
        self.closed = []

    def cls(self, lay):
        r = self.rng
        q = self.quirky
        if lay == 'dict':
            return r.choice(['dict', 'dict', 'dict', 'OrderedDict', 'DSub', 'RDict'])
        if lay == 'list':
            return r.choice(['list', 'list', 'list', 'SList', 'RList', 'LSub']
                            + (['RevList', 'RevList', 'NoIterList'] if self.user else []))
        if lay == 'tuple':
            return r.choice(['tuple', 'tuple', 'TSub', 'TDict'] + (['RevTuple', 'RevTuple'] if self.user else []))
        if lay == 'set':
            return r.choice(['set', 'frozenset', 'SSub'])
        return r.choice(['Obj', 'Obj', 'Obj2', 'RObj'])

    def node(self, depth):
        r = self.rng
        p = r.random()
        if depth >= self.maxdepth or p < 0.2:
            return jval(r.choice(SCALARS))
        if p < 0.32 and self.closed:
            return {'r': r.choice(self.closed)}          # shared sub-object (DAG)
        if p < 0.40 and self.open_mut:
            return {'r': r.choice(self.open_mut)}        # back edge (cycle)
        if p < 0.46 and self.closed:
            # a TWIN: a second object equal (==) to an existing one but not the same object
            src = self.heap[r.choice(self.closed)]
            if src['v'] and src['k'] != 'set':
                self.heap.append(json.loads(json.dumps(src)))
                self.closed.append(len(self.heap) - 1)
                return {'r': len(self.heap) - 1}
        lay = r.choice(['dict', 'dict', 'list', 'list', 'tuple', 'inst', 'set'])
        if lay == 'inst' and r.random() < 0.25:
            return self.iterator(depth)
        if self.user and r.random() < 0.3:
            return self.catalogue(depth)
        a = len(self.heap)
        cell = {'k': lay, 'c': self.cls(lay), 'v': []}
        self.heap.append(cell)
        mutable = lay in ('dict', 'list', 'inst')
        if mutable:
            self.open_mut.append(a)
        n = r.choice([0, 1, 2, 2, 3])
        if cell['c'] in ('tuple', 'frozenset') and n == 0:
            n = 1          # () and frozenset() are interned singletons: no identity of their own
        if lay == 'dict':
            keys = r.sample(NAMES + [0, 1, 'z'], n)
            cell['v'] = [[jval(k), self.node(depth + 1)] for k in keys]
        elif lay == 'inst':
            keys = r.sample(NAMES, min(n, len(NAMES)))
            cell['v'] = [[k, self.node(depth + 1)] for k in keys]
        elif lay == 'set':
            items = r.sample([0, 1, 7, 'x', 'abc', None], n)
            cell['v'] = [jval(x) for x in items]
        else:
            cell['v'] = [self.node(depth + 1) for _ in range(n)]
        if mutable:
            self.open_mut.pop()
        self.closed.append(a)
        return {'r': a}


def _iterator(self, depth):
    """a shared iterator `It` over a list / tuple of the target (an existing one now and then)"""
    r = self.rng
    a = len(self.heap)
    cell = {'k': 'inst', 'c': 'It', 'v': []}
    self.heap.append(cell)
    self.open_mut.append(a)
    seqs = [b for b in self.closed if self.heap[b]['k'] in ('list', 'tuple')]
    if seqs and r.random() < 0.4:
        items = {'r': r.choice(seqs)}
    else:
        b = len(self.heap)
        lay = r.choice(['list', 'list', 'tuple'])
        n = r.choice([1, 2, 3])
        sub = {'k': lay, 'c': self.cls(lay), 'v': []}
        self.heap.append(sub)
        sub['v'] = [self.node(depth + 2) for _ in range(n)]
        self.closed.append(b)
        items = {'r': b}
    cell['v'] = [['elems', items], ['pos', {'i': r.choice([0, 0, 1, 2])}]]
    self.open_mut.pop()
    self.closed.append(a)
    return {'r': a}


HeapGen.iterator = _iterator


def _catalogue(self, depth):
    """what glom does with kinds of objects the property text does not name: an object with `__slots__` only
    (no `__dict__`: no children), a mappingproxy (a mapping that is not registered as one: iterated, it yields its
    KEYS), a UserDict (an attribute object: its one child is the dict `data`)"""
    r = self.rng
    kind = r.choice(['Slot', 'mappingproxy', 'UserDict'])
    a = len(self.heap)
    if kind == 'Slot':
        cell = {'k': 'inst', 'c': 'Slot', 'v': []}
        self.heap.append(cell)
        self.open_mut.append(a)
        names = [n for n in SLOT_NAMES if r.random() < 0.5]        # in the order of __slots__
        cell['v'] = [[n, self.node(depth + 1)] for n in names]
        self.open_mut.pop()
    elif kind == 'mappingproxy':
        cell = {'k': 'dict', 'c': 'mappingproxy', 'v': []}
        self.heap.append(cell)
        keys = r.sample(NAMES + [0, 1, 'z'], r.choice([0, 1, 2, 3]))
        cell['v'] = [[jval(k), self.node(depth + 1)] for k in keys]
    else:
        cell = {'k': 'inst', 'c': 'UserDict', 'v': []}
        self.heap.append(cell)
        b = len(self.heap)
        data = {'k': 'dict', 'c': r.choice(['dict', 'dict', 'OrderedDict', 'DSub']), 'v': []}
        self.heap.append(data)
        self.open_mut.append(b)
        keys = r.sample(NAMES + [0, 'z'], r.choice([0, 1, 2]))
        data['v'] = [[jval(k), self.node(depth + 1)] for k in keys]
        self.open_mut.pop()
        self.closed.append(b)
        cell['v'] = [['data', {'r': b}]]
    self.closed.append(a)
    return {'r': a}


HeapGen.catalogue = _catalogue


def gen_target(rng, quirky, user=False):
    for _ in range(20):
        g = HeapGen(rng, rng.choice([2, 3, 4, 5]), quirky, user)
        root = g.node(0)
        if g.heap or rng.random() < 0.1:
            return g.heap, root
    return [], jval(1)


def kids(heap, val):
    """[(kind, key_json, child)] natural children of a value (generator's view; no raising logic)"""
    if not isinstance(val, dict) or 'r' not in val:
        return []
    cell = heap[val['r']]
    if cell['k'] == 'dict':
        return [('key', k, v) for k, v in cell['v']]
    if cell['k'] in ('list', 'tuple'):
        return [('idx', {'i': i}, v) for i, v in enumerate(cell['v'])]
    if cell['k'] == 'inst':
        return [('attr', {'s': k}, v) for k, v in cell['v']]
    if cell['k'] == 'set':
        return [('item', None, v) for v in cell['v']]
    return []


def descendants(heap, val, limit=40):
    out, seen, queue = [], set(), [val]
    while queue and len(out) < limit:
        v = queue.pop(0)
        out.append(v)
        if isinstance(v, dict) and 'r' in v and v['r'] not in seen:
            seen.add(v['r'])
            queue += [c for _, _, c in kids(heap, v)]
    return out


def gen_steps(rng, heap, root, nseg, nwild):
    """a type-directed list of steps: ('seg', key) / ('x',) / ('X',), mostly valid"""
    plan = ['w'] * nwild + ['s'] * nseg
    rng.shuffle(plan)
    cur = root
    steps = []
    for p in plan:
        ch = kids(heap, cur)
        if p == 'w':
            if rng.random() < 0.6:
                steps.append(('x',))
                cur = rng.choice(ch)[2] if ch else cur
            else:
                steps.append(('X',))
                cur = rng.choice(descendants(heap, cur))
        else:
            named = [(k, key, c) for k, key, c in ch if key is not None]
            if named and rng.random() < 0.85:
                kind, key, nxt = rng.choice(named)
                steps.append(('seg', kind, key))
                cur = nxt
            else:
                steps.append(('seg', 'key', rng.choice([{'s': 'a'}, {'s': 'zz'}, {'i': 0}, {'s': '0'},
                                                        {'s': 'bad1'}, {'s': 'k'}])))
    return steps


def text_ok(key):
    if 'i' in key:
        return True
    s = key.get('s')
    return isinstance(s, str) and '.' not in s and s not in ('*', '**') and s != ''


def spell(rng, steps, style):
    if style == 'text':
        segs = []
        for st in steps:
            if st[0] == 'x':
                segs.append('*')
            elif st[0] == 'X':
                segs.append('**')
            else:
                key = st[2]
                segs.append(str(key['i']) if 'i' in key else key['s'])
        return {'text': '.'.join(segs)}
    parts = []
    for st in steps:
        if st[0] == 'x':
            parts.append({'t': [['x', None]]})
        elif st[0] == 'X':
            parts.append({'t': [['X', None]]})
        elif st[0] == 'call':
            # a method call: the ops `.` name, `(` arguments of one T expression
            parts.append({'t': [['.', {'s': st[1]}], ['(', list(st[2])]]})
        elif st[0] == 'arith':
            # an arithmetic step: T + n (a failing one — a string, a container + n — is a PathAccessError)
            parts.append({'t': [['+', {'i': st[1]}]]})
        else:
            kind, key = st[1], st[2]
            if style == 'path' or rng.random() < 0.5:
                parts.append({'seg': key})
            elif kind == 'attr' and 's' in key:
                parts.append({'t': [['.', key]]})
            else:
                parts.append({'t': [['[', key]]})
    if style == 'nested' and len(parts) >= 2:
        # some of the arguments of Path(...) are Path objects themselves (any nesting)
        def nest(ps, depth):
            if len(ps) < 2 or depth > 2:
                return ps
            i = rng.randrange(len(ps))
            j = rng.randrange(i + 1, len(ps) + 1)
            return ps[:i] + [{'path': nest(ps[i:j], depth + 1)}] + nest(ps[j:], depth + 1)
        return {'parts': nest(parts, 0)}
    if style == 'tchain':
        # one T expression: T.a.__star__()['b']…  (plain segments become [...] / .attr)
        chain = []
        for p in parts:
            if 'seg' in p:
                chain.append(['[', p['seg']])
            else:
                chain += p['t']
        return {'parts': [{'t': chain}]} if chain else {'parts': []}
    return {'parts': parts}


def gen_case(rng, quirk_rate):
    quirky = rng.random() < quirk_rate
    m = rng.random()
    # (reads only: Assign / Delete on user-registered types is the registry's subject)
    heap, root = gen_target(rng, quirky, user=(m >= 0.22 and rng.random() < 0.3))
    nwild = rng.choice([0, 1, 1, 1, 2, 2, 3])
    nseg = rng.choice([0, 0, 1, 1, 2, 3])
    steps = gen_steps(rng, heap, root, nseg, nwild)
    mut = None
    if m >= 0.22 and rng.random() < 0.22:
        # a step with an effect (a method call) at a random position of a read
        for _ in range(rng.choice([1, 1, 2])):
            steps.insert(rng.randrange(len(steps) + 1), rng.choice(CALLS))
    if m >= 0.22 and rng.random() < 0.15:
        # an arithmetic step (mostly behind the wildcards: it fails on every entry that is no number)
        steps.insert(rng.choice([len(steps), len(steps), rng.randrange(len(steps) + 1)]), ('arith', rng.choice([1, 1, 10, -1])))
    if m < 0.22:
        # Assign / Delete through the wildcards: the path ends in a plain segment
        key = rng.choice([{'s': 'k'}, {'s': 'a'}, {'s': '0'}, {'i': 0}, {'s': 'zz'}])
        steps = steps + [('seg', 'key', key)]
        if rng.random() < 0.6:
            val = rng.choice([jval(9), jval('v'), None, jval(True)])
            mut = {'kind': 'assign', 'val': val, 'missing': rng.choice([None, None, 'dict', 'list'])}
        else:
            mut = {'kind': 'delete', 'ignore': rng.random() < 0.5}
    can_text = all(st[0] not in ('call', 'arith') and (st[0] != 'seg' or text_ok(st[2])) for st in steps) and steps
    styles = ['path', 'mixed', 'tchain', 'nested'] + (['text', 'text', 'text'] if can_text else [])
    style = rng.choice(styles)
    # (the final step of a mutation path is spelled like any other: plain segment, T[...] or T.attr)
    sp = spell(rng, steps, style)
    return {'heap': heap, 'target': root, 'spelling': sp, 'mut': mut}


# method calls with an effect (and their failing variants): ('call', name, [argument values])
CALLS = [('call', 'pop', []), ('call', 'pop', []), ('call', 'pop', [{'i': 0}]), ('call', 'pop', [{'i': -1}]),
         ('call', 'pop', [{'s': 'k'}]), ('call', 'pop', [{'s': 'k'}, None]), ('call', 'pop', [{'i': 1}]),
         ('call', 'append', [{'i': 9}]), ('call', 'append', [{'s': 'v'}]), ('call', '__next__', []),
         ('call', '__next__', []), ('call', 'pop', [{'i': 1}, {'i': 2}, {'i': 3}]), ('call', 'append', []),
         ('call', 'pop', [{'b': True}])] + [('call', 'fail', [{'s': c}]) for c in
                                            ['BadSpec', 'GlomError', 'PathAssignError', 'PathAccessError',
                                             'KeyError', 'AttributeError', 'IndexError', 'RuntimeError']]


def shared_cases(rng, n):
    """targets in which THE SAME OBJECT occurs at several positions directly under a wildcard — in a
    list, as several values of a dict / attributes of an object, at several places of a DAG below `**` —
    and remainders that tell one evaluation per position from one per object:
      (a) further wildcards: every position of the result must be a list of its own;
      (b) calls with an effect (`pop()`, `pop(i)`, `pop(k)`, `append(v)`, `__next__()` on lists, dicts and
          shared iterators, also behind further segments and followed by further steps): the state the
          target is left in, the values returned position by position and the calls made"""
    for _ in range(n):
        heap = []

        def new(cell):
            heap.append(cell)
            return {'r': len(heap) - 1}

        def scalar():
            return jval(rng.choice([None, True, 0, 1, 7, 'x', 'abc']))

        pool = []

        def pooled(kinds=None):
            kind = rng.choice(kinds or ['list', 'list', 'list', 'dict', 'it', 'inst', 'tuple', 'nested'])
            def item():
                return rng.choice(pool) if pool and rng.random() < 0.3 else scalar()
            if kind == 'list':
                return new({'k': 'list', 'c': rng.choice(['list', 'list', 'list', 'LSub', 'SList', 'RList']),
                            'v': [item() for _ in range(rng.choice([0, 1, 2, 3, 3, 4]))]})
            if kind == 'tuple':
                return new({'k': 'tuple', 'c': rng.choice(['tuple', 'TSub']),
                            'v': [item() for _ in range(rng.choice([1, 2, 3]))]})
            if kind == 'dict':
                keys = rng.sample(['k', 'a', 0, 1, 'z'], rng.choice([0, 1, 2, 3]))
                return new({'k': 'dict', 'c': rng.choice(['dict', 'dict', 'OrderedDict', 'DSub', 'RDict']),
                            'v': [[jval(k), item()] for k in keys]})
            if kind == 'inst':
                keys = rng.sample(['k', 'a', 'b'], rng.choice([0, 1, 2]))
                return new({'k': 'inst', 'c': rng.choice(['Obj', 'Obj2']), 'v': [[k, item()] for k in keys]})
            if kind == 'it':
                seqs = [p for p in pool if heap[p['r']]['k'] in ('list', 'tuple')]
                items = rng.choice(seqs) if seqs and rng.random() < 0.5 else pooled(['list', 'list', 'tuple'])
                return new({'k': 'inst', 'c': 'It', 'v': [['elems', items], ['pos', {'i': rng.choice([0, 0, 0, 1, 2])}]]})
            # nested: a list of (shared) lists
            inner = [pooled(['list']) for _ in range(rng.choice([1, 2]))]
            return new({'k': 'list', 'c': 'list', 'v': [rng.choice(inner) for _ in range(rng.choice([2, 3]))]})

        for _ in range(rng.choice([1, 1, 2, 3])):
            pool.append(pooled())

        def container(slots):
            kind = rng.choice(['list', 'list', 'dict', 'inst', 'tuple'])
            if kind == 'dict':
                return new({'k': 'dict', 'c': rng.choice(['dict', 'OrderedDict']),
                            'v': [[{'s': 'g%d' % i}, x] for i, x in enumerate(slots)]})
            if kind == 'inst':
                return new({'k': 'inst', 'c': 'Obj', 'v': [['g%d' % i, x] for i, x in enumerate(slots)]})
            return new({'k': kind, 'c': {'list': rng.choice(['list', 'LSub']), 'tuple': 'tuple'}[kind], 'v': slots})

        def twin(ref):
            # an object equal to a pooled one but not the same object
            return new(json.loads(json.dumps(heap[ref['r']])))

        def slots(nmin, nmax):
            out = []
            for _ in range(rng.randint(nmin, nmax)):
                p = rng.random()
                out.append(rng.choice(pool) if p < 0.65 else twin(rng.choice(pool)) if p < 0.78
                           else scalar() if p < 0.9 else pooled())
            if len(out) >= 2 and rng.random() < 0.8:
                # the same object at two positions, for sure
                i, j = rng.sample(range(len(out)), 2)
                out[i] = out[j] = rng.choice(pool)
            return out

        depth = rng.choice([1, 1, 1, 2])
        if depth == 1:
            root = container(slots(2, 5))
        else:
            # a DAG: intermediate containers whose slots are the shared objects
            mids = [container(slots(1, 3)) for _ in range(rng.randint(2, 3))]
            if rng.random() < 0.4:
                mids.append(rng.choice(mids))
            root = container(mids)
        steps = []
        if rng.random() < 0.25:
            root = new({'k': 'dict', 'c': 'dict', 'v': [[{'s': 'rows'}, root], [{'s': 'n'}, {'i': 0}]]})
            steps.append(('seg', 'key', {'s': 'rows'}))
        if depth == 1:
            wild = rng.choice([[('x',)], [('x',)], [('x',)], [('X',)], [('X',)]])
        else:
            wild = rng.choice([[('x',), ('x',)], [('X',)], [('X',)], [('x',), ('X',)], [('X',), ('x',)]])
        steps += wild
        r = rng.random()
        if r < 0.3:
            # (a) further wildcards only: identity of the result's lists
            steps += rng.choice([[('x',)], [('X',)], [('x',), ('x',)], []])
        elif r < 0.75:
            # (b) a call with an effect, maybe behind a segment, maybe followed by more steps
            if rng.random() < 0.25:
                steps.append(('seg', 'key', rng.choice([{'s': 'elems'}, {'s': 'k'}, {'i': 0}, {'s': 'a'}])))
            steps.append(rng.choice(CALLS + [('arith', 1), ('arith', 1), ('arith', 5)]))
            f = rng.random()
            if f < 0.15:
                steps.append(rng.choice([('x',), ('X',)]))
            elif f < 0.3:
                steps.append(('seg', 'key', rng.choice([{'s': 'k'}, {'i': 0}])))
            elif f < 0.4:
                steps.append(rng.choice(CALLS))
        else:
            # a call in front of the wildcard and one behind it
            steps.insert(rng.randrange(len(steps)), rng.choice(CALLS))
            steps.append(rng.choice(CALLS + [('x',)]))
        style = rng.choice(['path', 'mixed', 'mixed', 'tchain', 'tchain'])
        if all(st[0] not in ('call', 'arith') and (st[0] != 'seg' or text_ok(st[2])) for st in steps) and rng.random() < 0.4:
            style = 'text'
        yield {'heap': heap, 'target': root, 'spelling': spell(rng, steps, style), 'mut': None}


def mode_cases(rng, n):
    """the module switch PATH_STAR: targets whose dicts / objects have keys / attributes NAMED `*` and `**`
    next to ordinary ones, dotted texts over the segments `*`, `**`, a, k, 0, zz — read, assigned to and
    deleted — with the switch off (the segments are plain keys) and on (they are wildcards), and the same
    paths spelled with Path(...) parts, which the switch does not touch"""
    for _ in range(n):
        heap = []

        def node(depth):
            p = rng.random()
            if depth >= 3 or p < 0.25:
                return jval(rng.choice([None, 0, 1, 7, 'x', '*']))
            a = len(heap)
            lay = rng.choice(['dict', 'dict', 'dict', 'inst', 'list'])
            cell = {'k': lay, 'c': {'dict': rng.choice(['dict', 'dict', 'OrderedDict', 'DSub']),
                                    'inst': rng.choice(['Obj', 'Obj2']), 'list': 'list'}[lay], 'v': []}
            heap.append(cell)
            if lay == 'dict':
                keys = rng.sample(['*', '*', '**', '**', 'a', 'k', 0], rng.choice([1, 2, 3, 4]))
                keys = list(dict.fromkeys(keys))
                cell['v'] = [[jval(k), node(depth + 1)] for k in keys]
            elif lay == 'inst':
                keys = list(dict.fromkeys(rng.sample(['*', '**', 'a', 'k'], rng.choice([1, 2, 3]))))
                cell['v'] = [[k, node(depth + 1)] for k in keys]
            else:
                cell['v'] = [node(depth + 1) for _ in range(rng.choice([1, 2, 3]))]
            return {'r': a}

        root = node(0)
        if not heap:
            continue
        # walk the graph along existing keys (those named `*` / `**` preferred); a missing key now and then
        segs = []
        for _attempt in range(12):
            cur, segs = root, []
            for _ in range(rng.choice([1, 1, 2, 2, 3])):
                ch = [(key, c) for _, key, c in kids(heap, cur) if key is not None]
                starred = [(key, c) for key, c in ch if key.get('s') in ('*', '**')]
                if starred and rng.random() < 0.7:
                    ch = starred
                if not ch:
                    break
                key, cur = rng.choice(ch)
                segs.append(str(key['i']) if 'i' in key else key['s'])
            if any(x in ('*', '**') for x in segs):
                break
        if not any(x in ('*', '**') for x in segs):
            segs.append(rng.choice(['*', '**']))
        if rng.random() < 0.2:
            segs.insert(rng.randrange(len(segs) + 1), rng.choice(['zz', '*', '**', '0']))
        star = rng.random() < 0.3
        mut = None
        r = rng.random()
        if r < 0.2:
            mut = {'kind': 'assign', 'val': jval(rng.choice([9, 'v'])), 'missing': None}
        elif r < 0.4:
            mut = {'kind': 'delete', 'ignore': rng.random() < 0.5}
        if mut and star and segs[-1] in ('*', '**'):
            segs.append(rng.choice(['k', 'a']))              # with the switch on a mutation path ends in a key
        if rng.random() < 0.25:
            # the same segments as arguments of Path(...): plain segments whatever the switch says
            sp = {'parts': [{'seg': {'s': x}} for x in segs]}
        else:
            sp = {'text': '.'.join(segs)}
        yield {'heap': heap, 'target': root, 'spelling': sp, 'mut': mut, 'path_star': star}


def coalesce_cases(rng, n):
    """wildcard paths as alternatives of a Coalesce (1-3 paths; with and without a default) and under
    glom(…, default=): alternatives whose part in front of the first wildcard is missing, alternatives whose
    wildcard matches nothing (an empty list is a value: it is taken), alternatives failing behind a wildcard"""
    done = 0
    while done < n:
        heap, root = gen_target(rng, False, user=rng.random() < 0.2)
        if not heap:
            continue
        alts = []
        for _ in range(rng.choice([1, 2, 2, 3])):
            steps = gen_steps(rng, heap, root, rng.choice([0, 1, 1, 2]), rng.choice([0, 1, 1, 2]))
            if rng.random() < 0.45:
                # a missing key in front (the alternative is not reachable)
                steps.insert(0, ('seg', 'key', rng.choice([{'s': 'zz'}, {'s': 'nope'}, {'i': 99}])))
            if not steps:
                steps = [('x',)]
            can_text = all(st[0] != 'seg' or text_ok(st[2]) for st in steps)
            style = rng.choice(['path', 'mixed', 'tchain', 'nested'] + (['text', 'text'] if can_text else []))
            alts.append(spell(rng, steps, style))
        via = 'glom' if len(alts) == 1 and rng.random() < 0.6 else 'coalesce'
        default = True if via == 'glom' else rng.random() < 0.6
        done += 1
        yield {'heap': heap, 'target': root, 'mut': None,
               'co': {'alts': alts, 'default': default, 'via': via}}


def exhaustive_cases():
    """small scope, exhaustively (thorough tier): ALL object graphs on three two-slot lists — every slot is
    one of the three lists or a number, so every pattern of sharing, self-reference and mutual reference
    occurs, 4096 graphs — under ten paths: wildcards alone, nested, followed by an index, by calls with an effect"""
    import itertools
    slot_vals = [{'r': 0}, {'r': 1}, {'r': 2}, {'i': 7}]
    call = lambda name, args: [['.', {'s': name}], ['(', args]]
    paths = [{'text': '*'}, {'text': '**'}, {'text': '*.*'}, {'text': '**.*'}, {'text': '*.**'}, {'text': '**.0'},
             {'parts': [{'t': [['x', None]] + call('pop', [])}]},
             {'parts': [{'t': [['X', None]] + call('pop', [])}]},
             {'parts': [{'t': [['x', None]] + call('append', [{'i': 9}])}]},
             {'parts': [{'t': [['X', None]] + call('pop', [{'i': 0}]) + [['x', None]]}]}]
    for slots in itertools.product(range(4), repeat=6):
        heap = [{'k': 'list', 'c': 'list', 'v': [slot_vals[slots[2 * a]], slot_vals[slots[2 * a + 1]]]}
                for a in range(3)]
        for sp in paths:
            yield {'heap': heap, 'target': {'r': 0}, 'spelling': sp, 'mut': None}


def with_pre(rng, case):
    """the same case after a history of registry lookups that do not raise (`get_handler(op, obj,
    raise_exc=False)`) for some objects of the target"""
    if not case['heap']:
        return case
    c = dict(case)
    ops = ['keys', 'get', 'iterate'] + (['assign', 'delete'] if case.get('mut') else [])
    c['pre'] = [[rng.choice(ops), rng.randrange(len(case['heap']))] for _ in range(rng.choice([1, 2, 3, 5]))]
    return c


def fresh_child_cases(rng, n):
    """OUTSIDE the reading of "always terminates" (finite object graphs whose accessors create no objects): a
    mapping whose `__getitem__` returns a NEW mapping each time.  Run with a short budget; the outcome (returned /
    no return within the budget) is counted, never judged"""
    for _ in range(n):
        heap = [{'k': 'dict', 'c': 'Inf', 'v': [[{'s': 'a'}, {'i': 1}]] + ([[{'s': 'b'}, {'i': 2}]] if rng.random() < 0.5 else [])}]
        root = {'r': 0}
        if rng.random() < 0.5:
            heap.append({'k': 'list', 'c': 'list', 'v': [{'r': 0}, {'i': 7}]})
            root = {'r': 1}
        yield {'heap': heap, 'target': root, 'spelling': {'text': rng.choice(['**', '**', '*', '*.*', '**.a'])}, 'mut': None}


def fixed_cases():
    """shapes named in the property: cyclic roots, shared children, strings, sets"""
    out = []
    cyc = [{'k': 'list', 'c': 'list', 'v': [{'r': 0}]}]
    for t in ('**', '*', '**.*', '*.**', '**.**', '**.0'):
        out.append({'heap': cyc, 'target': {'r': 0}, 'spelling': {'text': t}, 'mut': None})
    two = [{'k': 'dict', 'c': 'dict', 'v': [[{'s': 'a'}, {'r': 1}], [{'s': 'b'}, {'r': 1}]]},
           {'k': 'list', 'c': 'list', 'v': [{'r': 0}, {'i': 1}]}]
    for t in ('**', '*.*', '**.a', '*.0.a', '**.**'):
        out.append({'heap': two, 'target': {'r': 0}, 'spelling': {'text': t}, 'mut': None})
    for t in ('*', '**', '**.*'):
        out.append({'heap': [], 'target': {'s': 'abc'}, 'spelling': {'text': t}, 'mut': None})
    st = [{'k': 'set', 'c': 'set', 'v': [{'i': 1}, {'s': 'x'}, None]},
          {'k': 'dict', 'c': 'dict', 'v': [[{'s': 's'}, {'r': 0}], [{'s': 't'}, {'s': 'boom'}]]}]
    for t in ('*', '**', 's.*', '*.*'):
        out.append({'heap': st, 'target': {'r': 1}, 'spelling': {'text': t}, 'mut': None})
    nested = [{'k': 'dict', 'c': 'dict', 'v': [[{'s': 'a'}, {'r': 1}], [{'s': 'b'}, {'r': 2}]]},
              {'k': 'list', 'c': 'list', 'v': [{'r': 3}, {'r': 4}]},
              {'k': 'list', 'c': 'list', 'v': [{'r': 5}]},
              {'k': 'dict', 'c': 'dict', 'v': [[{'s': 'k'}, {'i': 1}]]},
              {'k': 'dict', 'c': 'dict', 'v': [[{'s': 'k'}, {'i': 2}]]},
              {'k': 'dict', 'c': 'dict', 'v': [[{'s': 'k'}, {'i': 3}]]}]
    # one object at two positions under a wildcard: one evaluation (one list, one call) per position
    twice = [{'k': 'list', 'c': 'list', 'v': [{'r': 1}, {'r': 1}]},
             {'k': 'list', 'c': 'list', 'v': [{'i': 1}, {'i': 2}, {'i': 3}]}]
    for t in ('*.*', '**.*', '*.**', '**'):
        out.append({'heap': twice, 'target': {'r': 0}, 'spelling': {'text': t}, 'mut': None})
    for name, args in (('pop', []), ('append', [{'i': 9}]), ('pop', [{'i': 0}])):
        for w in ('x', 'X'):
            out.append({'heap': twice, 'target': {'r': 0}, 'mut': None,
                        'spelling': {'parts': [{'t': [[w, None], ['.', {'s': name}], ['(', args]]}]}})
    shared_it = [{'k': 'dict', 'c': 'dict', 'v': [[{'s': 'x'}, {'r': 1}], [{'s': 'y'}, {'r': 1}]]},
                 {'k': 'inst', 'c': 'It', 'v': [['elems', {'r': 2}], ['pos', {'i': 0}]]},
                 {'k': 'tuple', 'c': 'tuple', 'v': [{'s': 'a'}, {'s': 'b'}, {'s': 'c'}]}]
    out.append({'heap': shared_it, 'target': {'r': 0}, 'mut': None,
                'spelling': {'parts': [{'t': [['x', None]]}, {'t': [['.', {'s': '__next__'}], ['(', []]]}]}})
    # user-registered container types (on a Glommer): items in the order of the user's `iterate` handler,
    # none for `iterate=False`; `get` of such a class is the auto default getattr
    user = [{'k': 'list', 'c': 'list', 'v': [{'r': 1}, {'r': 2}, {'r': 3}]},
            {'k': 'list', 'c': 'RevList', 'v': [{'i': 1}, {'r': 3}, {'i': 3}]},
            {'k': 'list', 'c': 'NoIterList', 'v': [{'i': 5}]},
            {'k': 'tuple', 'c': 'RevTuple', 'v': [{'s': 'a'}, {'s': 'b'}]}]
    for t in ('*', '**', '*.*', '*.0', '**.*', '1.*', '1.**'):
        out.append({'heap': user, 'target': {'r': 0}, 'spelling': {'text': t}, 'mut': None})
    # kinds of objects the property text does not name — what glom does with them (reading, DESIGN §6):
    # `__slots__` only: no children; mappingproxy: its KEYS; UserDict: its one attribute `data`
    cat = [{'k': 'list', 'c': 'list', 'v': [{'r': 1}, {'r': 2}, {'r': 3}, {'s': 'x'}, {'i': 4}]},
           {'k': 'inst', 'c': 'Slot', 'v': [['a', {'i': 1}], ['k', {'i': 2}]]},
           {'k': 'dict', 'c': 'mappingproxy', 'v': [[{'s': 'a'}, {'i': 5}], [{'s': 'k'}, {'r': 1}]]},
           {'k': 'inst', 'c': 'UserDict', 'v': [['data', {'r': 4}]]},
           {'k': 'dict', 'c': 'dict', 'v': [[{'s': 'a'}, {'i': 9}], [{'s': 'k'}, {'i': 8}]]}]
    for t in ('*', '**', '*.*', '*.a', '*.data.a', '**.k'):
        out.append({'heap': cat, 'target': {'r': 0}, 'spelling': {'text': t}, 'mut': None})
    for ops in ([['x', None], ['[', {'s': 'a'}]], [['x', None], ['.', {'s': 'a'}]], [['x', None], ['+', {'i': 1}]],
                [['X', None], ['+', {'i': 1}]]):
        out.append({'heap': cat, 'target': {'r': 0}, 'spelling': {'parts': [{'t': ops}]}, 'mut': None})
    out.append({'heap': nested, 'target': {'r': 0}, 'spelling': {'text': '*.*.k'}, 'mut': None})
    out.append({'heap': nested, 'target': {'r': 0}, 'spelling': {'text': '*.*.k'},
                'mut': {'kind': 'assign', 'val': {'i': 9}}})
    out.append({'heap': nested, 'target': {'r': 0}, 'spelling': {'text': '*.*.k'}, 'mut': {'kind': 'delete'}})
    out.append({'heap': nested, 'target': {'r': 0}, 'spelling': {'text': '**.k'}, 'mut': {'kind': 'delete'}})
    out.append({'heap': nested, 'target': {'r': 0}, 'spelling': {'text': '**.k'},
                'mut': {'kind': 'delete', 'ignore': True}})
    out.append({'heap': nested, 'target': {'r': 0}, 'spelling': {'text': '*.*.k'},
                'mut': {'kind': 'assign', 'val': {'i': 9}, 'missing': 'dict'}})
    return out


def wide_cases(rng, n):
    """many entries under one wildcard (broadcast over long lists, wide `**`)"""
    for _ in range(n):
        m = rng.randint(9, 24)
        heap = [{'k': 'list', 'c': rng.choice(['list', 'LSub', 'SList']), 'v': [{'r': i + 1} for i in range(m)]}]
        for i in range(m):
            lay = rng.choice(['dict', 'dict', 'inst', 'list'])
            if lay == 'dict':
                heap.append({'k': 'dict', 'c': 'dict', 'v': [[{'s': 'k'}, {'i': i}]] if rng.random() < 0.8 else []})
            elif lay == 'inst':
                heap.append({'k': 'inst', 'c': 'Obj', 'v': [['k', {'i': i}]] if rng.random() < 0.8 else []})
            else:
                heap.append({'k': 'list', 'c': 'list', 'v': [{'i': i}]})
        path = rng.choice(['*.k', '**.k', '*.0', '*', '**'])
        mut = None
        r = rng.random()
        if path.endswith(('k', '0')) and r < 0.7:
            mut = ({'kind': 'assign', 'val': jval(rng.choice([9, 'v'])), 'missing': rng.choice([None, 'dict'])}
                   if r < 0.4 else {'kind': 'delete', 'ignore': rng.random() < 0.5})
        yield {'heap': heap, 'target': {'r': 0}, 'spelling': {'text': path}, 'mut': mut}


def ragged_cases(rng, n):
    """Assign / Delete through one or two wildcard levels (`*` / `**`) over entries of one kind (dicts,
    attribute objects, lists) of which a random subset LACKS the final key / attribute / index — lacking
    entries also in front of entries that have it —, now and then an entry of another kind (a tuple, a
    scalar, a shared entry), with `ignore_missing` / `missing=` set or not, the final step spelled as a
    plain segment, T[...] or T.attr, the whole path as text, Path(...), a mixture or one T chain"""
    for _ in range(n):
        heap = []
        leaf_kind = rng.choice(['dict', 'dict', 'inst', 'list'])
        levels = rng.choice([1, 1, 2])
        made = []

        def leaf(has):
            a = len(heap)
            extra = rng.choice([[], [('a', 1)], [('a', 1), ('b', 2)]])
            if leaf_kind == 'dict':
                ents = [[{'s': k}, {'i': v}] for k, v in extra] + ([[{'s': 'k'}, {'i': a}]] if has else [])
                rng.shuffle(ents)
                heap.append({'k': 'dict', 'c': rng.choice(['dict', 'dict', 'OrderedDict', 'DSub']), 'v': ents})
            elif leaf_kind == 'inst':
                ents = [[k, {'i': v}] for k, v in extra] + ([['k', {'i': a}]] if has else [])
                rng.shuffle(ents)
                heap.append({'k': 'inst', 'c': rng.choice(['Obj', 'Obj', 'Obj2']), 'v': ents})
            else:
                heap.append({'k': 'list', 'c': rng.choice(['list', 'list', 'SList', 'LSub']),
                             'v': [{'i': a}] + ([{'i': a + 100}] if has else [])})
            made.append(a)
            return {'r': a}

        def odd():
            p = rng.random()
            if p < 0.4:
                return jval(rng.choice(SCALARS))
            if p < 0.6 and made:
                return {'r': rng.choice(made)}          # an entry shared with an earlier position
            a = len(heap)
            heap.append({'k': 'tuple', 'c': 'tuple', 'v': [{'i': 1}, {'i': 2}]})
            return {'r': a}

        def group(depth):
            a = len(heap)
            kind = rng.choice(['list', 'list', 'dict', 'tuple', 'list'])
            cell = {'k': kind, 'c': {'list': rng.choice(['list', 'list', 'LSub']), 'dict': 'dict',
                                     'tuple': 'tuple'}[kind], 'v': []}
            heap.append(cell)
            n_kids = rng.randint(2, 5) if depth == 1 else rng.randint(1, 3)
            if depth == 1:
                has = [rng.random() < 0.55 for _ in range(n_kids)]
                if rng.random() < 0.7 and n_kids >= 2:
                    # a lacking entry in front of one that has it
                    i = rng.randrange(n_kids - 1)
                    has[i] = False
                    has[rng.randrange(i + 1, n_kids)] = True
                kids_ = [leaf(x) for x in has]
                if rng.random() < 0.2:
                    kids_.insert(rng.randrange(len(kids_) + 1), odd())
            else:
                kids_ = [group(depth - 1) for _ in range(n_kids)]
            if kind == 'dict':
                cell['v'] = [[{'s': 'g%d' % i}, k] for i, k in enumerate(kids_)]
            else:
                cell['v'] = kids_
            return {'r': a}

        root = group(levels)
        steps = []
        if rng.random() < 0.3:
            a = len(heap)
            heap.append({'k': 'dict', 'c': 'dict', 'v': [[{'s': 'rows'}, root], [{'s': 'n'}, {'i': 0}]]})
            root = {'r': a}
            steps.append(('seg', 'key', {'s': 'rows'}))
        wild = [('x',)] * levels
        if rng.random() < 0.3:
            # `**` in place of the wildcard levels (the containers on the way are entries too), or of one
            wild = [('X',)] if rng.random() < 0.6 else [rng.choice([('x',), ('X',)]) for _ in range(levels)]
        steps += wild
        if leaf_kind == 'list':
            steps.append(('seg', 'idx', rng.choice([{'i': 1}, {'i': 1}, {'i': -2}, {'s': '1'}])))
        elif leaf_kind == 'inst':
            steps.append(('seg', 'attr', {'s': 'k'}))
        else:
            steps.append(('seg', 'key', {'s': 'k'}))
        if rng.random() < 0.55:
            mut = {'kind': 'delete', 'ignore': rng.random() < 0.7}
        else:
            mut = {'kind': 'assign', 'val': jval(rng.choice([9, 'v', None])),
                   'missing': rng.choice([None, 'dict', 'dict', 'list'])}
        can_text = all(st[0] != 'seg' or text_ok(st[2]) for st in steps)
        style = rng.choice(['path', 'mixed', 'mixed', 'tchain', 'tchain'] + (['text', 'text'] if can_text else []))
        yield {'heap': heap, 'target': root, 'spelling': spell(rng, steps, style), 'mut': mut}


S_ROOT_P = 0.15


def with_sroot(rng, case):
    """the same data and the same path, spelled from S with the data as a scope variable:
    S[name]… / S.name… / Path(S, name, …); as one expression when the path is one T chain"""
    c = dict(case)
    c['sroot'] = {'var': rng.choice(['e', 'data', 'x']), 'first': rng.choice(['[', '[', '.', 'P']),
                  'chain': rng.random() < 0.7}
    return c


def generate(rng, tier, scale, **focus):
    n = (1400 if tier == 'quick' else 50000) * scale
    sp = focus.get('s_root_p', S_ROOT_P)

    def maybe_s(c):
        # (a wildcard-free, empty path spelled from S would be the bare scope: never generated)
        has_steps = bool(c.get('spelling') and (c['spelling'].get('text') or c['spelling'].get('parts')))
        return with_sroot(rng, c) if has_steps and rng.random() < sp else c

    pre_p = focus.get('pre_p', 0.12)

    def maybe_pre(c):
        return with_pre(rng, c) if rng.random() < pre_p else c

    for c in fixed_cases():
        yield c
        if c['spelling'].get('text'):
            yield with_sroot(rng, c)
            yield with_pre(rng, c)
    for c in fresh_child_cases(rng, 6 if tier == 'quick' else 12):
        yield c
    for _ in range(n):
        yield maybe_pre(maybe_s(gen_case(rng, focus.get('quirk_rate', 0.0))))
    for c in wide_cases(rng, (60 if tier == 'quick' else 1500) * scale):
        yield maybe_s(c)
    for c in ragged_cases(rng, (260 if tier == 'quick' else 6000) * scale):
        yield maybe_pre(maybe_s(c))
    for c in shared_cases(rng, (420 if tier == 'quick' else 9000) * scale):
        yield maybe_pre(maybe_s(c))
    if tier != 'quick' and not focus:
        for c in exhaustive_cases():
            yield c
    for c in mode_cases(rng, (160 if tier == 'quick' else 4000) * scale):
        yield c
    for c in coalesce_cases(rng, (160 if tier == 'quick' else 4000) * scale):
        yield c


def corpus():
    out = []
    # list / tuple / set subclasses that have a __dict__ are walked by their items (repaired by 6678f8c)
    for c, k in (('LSub', 'list'), ('TDict', 'tuple'), ('SSub', 'set')):
        for t in ('*', '**'):
            out.append({'heap': [{'k': k, 'c': c, 'v': [{'i': 1}, {'i': 2}]}], 'target': {'r': 0},
                        'spelling': {'text': t}, 'mut': None})
    # ignore_missing / missing= are per entry: an entry lacking the key in front of entries that have it
    # (minimised witness of seeded change C14-s7: one try around the whole loop)
    ragged = [{'k': 'list', 'c': 'list', 'v': [{'r': 1}, {'r': 2}, {'r': 3}]},
              {'k': 'dict', 'c': 'dict', 'v': []},
              {'k': 'dict', 'c': 'dict', 'v': [[{'s': 'k'}, {'i': 1}]]},
              {'k': 'dict', 'c': 'dict', 'v': [[{'s': 'k'}, {'i': 2}], [{'s': 'a'}, {'i': 0}]]}]
    for sp in ({'text': '*.k'}, {'text': '**.k'}, {'parts': [{'t': [['x', None], ['[', {'s': 'k'}]]}]}):
        out.append({'heap': ragged, 'target': {'r': 0}, 'spelling': sp, 'mut': {'kind': 'delete', 'ignore': True}})
        out.append({'heap': ragged, 'target': {'r': 0}, 'spelling': sp,
                    'mut': {'kind': 'assign', 'val': {'i': 9}, 'missing': 'dict'}})
    # the same path spelled from S continues from every entry after a wildcard (repaired defect 62e884e:
    # `glom({}, S['e'].__star__()['k'], scope={'e': [{'k': 1}]})` was [])
    for first, chain in (('[', True), ('.', True), ('P', False)):
        for t in ('*.k', '**.k', '*'):
            out.append({'heap': ragged, 'target': {'r': 0}, 'spelling': {'text': t}, 'mut': None,
                        'sroot': {'var': 'e', 'first': first, 'chain': chain}})
    p = os.path.join(os.path.dirname(os.path.dirname(os.path.dirname(os.path.abspath(__file__)))),
                     'corpus', 'C14.jsonl')
    if os.path.exists(p):
        for line in open(p):
            if line.strip():
                out.append(json.loads(line))
    return out


# ---------------------------------------------------------------- implementation runner
class Timeout(BaseException):
    # a BaseException: glom's `except Exception` clauses (around every child access of a wildcard)
    # must not be able to swallow the alarm, and the timer repeats in case something does
    pass


def _alarm(signum, frame):
    raise Timeout()


def exc_name(e):
    for c in type(e).__mro__:
        if not c.__name__.startswith('GlomError.wrap'):
            return c.__name__
    return type(e).__name__


def parts_of_text(text):
    """the parts `Path.from_text` makes of a dotted string"""
    return [{'t': [['x', None]]} if s == '*' else {'t': [['X', None]]} if s == '**' else {'seg': {'s': s}}
            for s in text.split('.')]


def build_spec(sp, dv, sroot=None):
    """the spec object and its number of wildcards.  `sroot` = {'var': name, 'first': '[' | '.' | 'P'}: the
    same path spelled from S, the data being the scope variable `name`: S[name]… / S.name… /
    Path(S, name, …)"""
    from glom import Path, T, S

    def apply(t, op, arg):
        if op == 'x':
            return t.__star__()
        if op == 'X':
            return t.__starstar__()
        if op == '.':
            name = dv(arg)
            # T reserves dunder attributes: T.__('next__') spells `.__next__`
            return t.__(name[2:]) if name.startswith('__') else getattr(t, name)
        if op == '(':
            return t(*[dv(a) for a in arg])
        if op == '+':
            return t + dv(arg)
        return t[dv(arg)]

    if 'text' in sp and not sroot:
        return sp['text'], len([s for s in sp['text'].split('.') if s in ('*', '**')])
    src_parts = parts_of_text(sp['text']) if 'text' in sp else sp['parts']
    if sroot:
        head = {'[': lambda: S[sroot['var']], '.': lambda: getattr(S, sroot['var'])}.get(sroot['first'])
        if len(src_parts) == 1 and 't' in src_parts[0] and sroot.get('chain') and head is not None:
            # one expression: S['e'].__star__()['k'] …
            t = head()
            nw = 0
            for op, arg in src_parts[0]['t']:
                nw += op in ('x', 'X')
                t = apply(t, op, arg)
            return t, nw
    parts = []
    nw = 0
    if sroot:
        parts = [head()] if head is not None else [S, sroot['var']]
    for p in src_parts:
        if 'seg' in p:
            parts.append(dv(p['seg']))
        elif 'path' in p:
            # a Path object among the arguments of Path(...)
            sub, k = build_spec({'parts': p['path']}, dv)
            parts.append(sub)
            nw += k
        else:
            t = T
            for op, arg in p['t']:
                nw += op in ('x', 'X')
                t = apply(t, op, arg)
            parts.append(t)
    return Path(*parts), nw


def decode2(heap):
    """pyobjs.decode plus the catalogue classes: objects with `__slots__` (attributes set with setattr),
    mappingproxy (a view of a hidden dict that is filled like a dict cell)"""
    if not any(cell['c'] in ('Slot', 'mappingproxy') for cell in heap):
        return pyobjs.decode(heap)
    return _decode_all(heap)


def _decode_all(heap):
    objs = [None] * len(heap)
    hidden = {}
    pending = []
    for a, cell in enumerate(heap):
        cls, lay = pyobjs.CLASSES[cell['c']], cell['k']
        if cell['c'] == 'mappingproxy':
            hidden[a] = {}
            objs[a] = MappingProxy(hidden[a])
        elif cell['c'] == 'Slot':
            objs[a] = Slot()
        elif lay in ('dict', 'list', 'inst') or (lay == 'set' and cls is set):
            objs[a] = OrderedDict() if cls is OrderedDict else cls.__new__(cls)
        else:
            pending.append(a)
    building = set()

    def dv(j):
        if j is None:
            return None
        for k in ('b', 'i', 's'):
            if k in j:
                return j[k]
        if 'f' in j:
            return float.fromhex(j['f'])
        if 'r' in j:
            a = j['r']
            if objs[a] is None:
                build(a)
            return objs[a]
        raise ValueError('cannot decode %r' % (j,))

    def build(a):
        if a in building:
            raise ValueError('cycle through immutable container at %d' % a)
        building.add(a)
        cell = heap[a]
        objs[a] = pyobjs.CLASSES[cell['c']]([dv(x) for x in cell['v']])
        building.discard(a)

    for a in pending:
        if objs[a] is None:
            build(a)
    for a, cell in enumerate(heap):
        lay, o = cell['k'], objs[a]
        if cell['c'] == 'mappingproxy':
            for k, v in cell['v']:
                hidden[a][dv(k)] = dv(v)
        elif cell['c'] == 'Slot':
            for k, v in cell['v']:
                object.__setattr__(o, k, dv(v))
        elif lay == 'dict':
            setitem = OrderedDict.__setitem__ if isinstance(o, OrderedDict) else dict.__setitem__
            for k, v in cell['v']:
                setitem(o, dv(k), dv(v))
        elif lay == 'list':
            list.extend(o, [dv(x) for x in cell['v']])
        elif lay == 'set' and isinstance(o, set):
            for x in cell['v']:
                o.add(dv(x))
        elif lay == 'inst':
            d = object.__getattribute__(o, '__dict__')
            for k, v in cell['v']:
                d[k] = dv(v)
    return objs, dv


def normalise(case):
    """every field the driver reads, spelled out (the driver decodes strictly: a missing field is an error)"""
    c = dict(case)
    c.setdefault('sroot', None)
    c.setdefault('co', None)
    c.setdefault('path_star', True)
    c.setdefault('pre', [])
    mut = c.get('mut')
    if mut:
        mut = dict(mut)
        if mut['kind'] == 'assign':
            mut.setdefault('missing', None)
        else:
            mut['ignore'] = bool(mut.get('ignore', False))
        c['mut'] = mut
    else:
        c['mut'] = None
    return c


def run_impl(case):
    case = normalise(case)
    import glom
    from glom import PathAccessError
    heap = json.loads(json.dumps(case['heap']))
    objs, dv = decode2(heap)
    # sets iterate in an order of their own: record it in the heap the model sees
    for a, cell in enumerate(heap):
        if cell['k'] == 'set':
            order = [pyobjs.enc_val(x, lambda v: None) for x in objs[a]]
            cell['v'] = order
    ids = {id(o): a for a, o in enumerate(objs)}
    if len(ids) < len(objs):
        # two cells decoded to one object (interned empty tuple / frozenset): not a heap the kernel
        # can describe; the driver skips it
        out = dict(case)
        out['heap'] = heap
        out['classes'] = class_info()
        out['impl'] = {'outside': 'interned-empty-containers'}
        return out
    target = dv(case['target'])
    sroot = case.get('sroot')
    import glom.core as gcore
    import warnings
    star_before = gcore.PATH_STAR
    gcore.PATH_STAR = bool(case.get('path_star', True))
    try:
        with warnings.catch_warnings():
            warnings.simplefilter('ignore')
            return _run(case, heap, objs, dv, ids, target, sroot)
    finally:
        gcore.PATH_STAR = star_before


DEFAULT = pyobjs.Sentinel('DEFAULT')


def _run(case, heap, objs, dv, ids, target, sroot):
    import glom
    from glom import PathAccessError
    co = case.get('co')
    if co:
        built = [build_spec(a, dv) for a in co['alts']]
        nw = max(k for _, k in built)
        kw = {'default': DEFAULT} if co['default'] else {}
        if co['via'] == 'glom':
            spec, gkw_extra = built[0][0], kw
        else:
            spec, gkw_extra = glom.Coalesce(*[b for b, _ in built], **kw), {}
    else:
        spec, nw = build_spec(case['spelling'], dv, sroot)
        gkw_extra = {}
    if sroot:
        # the data is a scope variable; the target of the call is something else
        gtarget, gkw = {'unrelated': True}, {'scope': {sroot['var']: target}}
    else:
        gtarget, gkw = target, dict(gkw_extra)
    if any(cell['c'] in USER_REG for cell in heap):
        # user container types: the call goes through a Glommer whose registry knows them
        # (glommer.glom(t, s, **kw) is glom(t, s, scope=glommer.scope, **kw))
        sc = dict(user_glommer().scope)
        sc.update(gkw.get('scope', {}))
        gkw['scope'] = sc

    def addr_of(v):
        return ids.get(id(v))

    labels = {}

    def enc_res(x, depth):
        # a list of the result that is not an object of the target is a list cell of the result: it
        # carries its identity (first-visit number), so that one list object at two positions shows
        if depth > 0 and type(x) is list and id(x) not in ids:
            lab = labels.setdefault(id(x), len(labels))
            return {'l': [enc_res(y, depth - 1) for y in x], 'id': lab}
        return {'v': pyobjs.enc_val(x, addr_of)}

    def calls():
        return [[ids[id(o)], name] for o, name in CALL_LOG if id(o) in ids]

    def snapshot():
        out = []
        for a, o in enumerate(objs):
            cn = type(o).__name__
            lay = heap[a]['k']
            ev = lambda x: pyobjs.enc_val(x, addr_of)
            if cn == 'mappingproxy':
                out.append({'k': 'dict', 'c': cn, 'v': [[ev(k), ev(x)] for k, x in o.items()]})
            elif cn == 'Slot':
                out.append({'k': 'inst', 'c': cn, 'v': [[k, ev(object.__getattribute__(o, k))] for k in SLOT_NAMES
                                                        if hasattr(o, k)]})
            elif lay == 'dict':
                out.append({'k': 'dict', 'c': cn, 'v': [[ev(k), ev(x)] for k, x in dict.items(o)]})
            elif lay == 'list':
                out.append({'k': 'list', 'c': cn, 'v': [ev(x) for x in list.__iter__(o)]})
            elif lay == 'tuple':
                out.append({'k': 'tuple', 'c': cn, 'v': [ev(x) for x in tuple.__iter__(o)]})
            elif lay == 'set':
                out.append({'k': 'set', 'c': cn, 'v': [ev(x) for x in o]})
            else:
                d = object.__getattribute__(o, '__dict__')
                out.append({'k': 'inst', 'c': cn, 'v': [[k, ev(x)] for k, x in d.items()]})
        return out

    out = dict(case)
    out['heap'] = heap
    out['classes'] = class_info()
    mut = case.get('mut')
    # the history of the registry: lookups that do not raise (`raise_exc=False`) of some (op, object) before
    # the call — which handler a lookup finds must not depend on the lookups made before (C13)
    if case.get('pre'):
        from glom.core import TargetRegistry, _DEFAULT_SCOPE
        registry = gkw['scope'][TargetRegistry] if TargetRegistry in gkw.get('scope', {}) else _DEFAULT_SCOPE[TargetRegistry]
        for op, a in case['pre']:
            if op in registry._op_type_map:
                registry.get_handler(op, objs[a], raise_exc=False)
    fresh = any(cell['c'] == 'Inf' for cell in heap)
    del CALL_LOG[:]
    old = signal.signal(signal.SIGALRM, _alarm)
    # (a target with a fresh-child accessor is outside the reading: a short budget shows whether glom returns)
    signal.setitimer(signal.ITIMER_REAL, 0.4 if fresh else 3.0, 1.0)
    if fresh:
        try:
            try:
                glom.glom(gtarget, spec, **gkw)
                out['impl'] = {'outside': 'fresh-child-accessor:returned'}
            except Timeout:
                out['impl'] = {'outside': 'fresh-child-accessor:no-return-within-budget'}
            except RecursionError:
                out['impl'] = {'outside': 'fresh-child-accessor:no-return-within-budget'}
            except Exception:
                out['impl'] = {'outside': 'fresh-child-accessor:raised'}
        finally:
            signal.setitimer(signal.ITIMER_REAL, 0)
            signal.signal(signal.SIGALRM, old)
        return out
    try:
        try:
            if co:
                try:
                    res = glom.glom(gtarget, spec, **gkw)
                    o = 'dflt' if res is DEFAULT else {'ok': enc_res(res, nw)}
                except (RecursionError, Timeout, Unmodelled):
                    raise
                except Exception as e:
                    o = {'other': exc_name(e)}
                out['impl'] = {'co': o}
            elif mut is None:
                # a read: the outcome, the target afterwards, the calls made
                try:
                    res = glom.glom(gtarget, spec, **gkw)
                    o = {'ok': enc_res(res, nw)}
                except PathAccessError:
                    o = 'pae'
                except (RecursionError, Timeout, Unmodelled):
                    raise
                except Exception as e:
                    o = {'other': exc_name(e)}
                out['impl'] = {'read': {'out': o, 'heap': snapshot(), 'calls': calls()}}
            else:
                err = None
                ret = None
                try:
                    if mut['kind'] == 'assign':
                        fac = {'dict': dict, 'list': list}.get(mut.get('missing'))
                        if sroot:
                            ret = glom.glom(gtarget, glom.Assign(spec, dv(mut['val']), missing=fac), **gkw)
                        else:
                            ret = glom.assign(target, spec, dv(mut['val']), missing=fac)
                    elif sroot:
                        ret = glom.glom(gtarget, glom.Delete(spec, ignore_missing=bool(mut.get('ignore'))), **gkw)
                    else:
                        ret = glom.delete(target, spec, ignore_missing=bool(mut.get('ignore')))
                except RecursionError:
                    raise
                except PathAccessError:
                    # the parent path could not be walked: the target afterwards is part of the observation
                    out['impl'] = {'pae': snapshot()}
                    return out
                except Exception as e:
                    # PathAssignError / PathDeleteError / UnregisteredTarget, or what `dest[k] = v`,
                    # `setattr`, `del dest[k]` raised outside every `except` clause of glom
                    err = exc_name(e)
                # Assign / Delete return the target they were given (an S-rooted one: the target of the call)
                out['impl'] = {'mutated': snapshot(), 'err': err, 'same': ret is gtarget}
        except Timeout:
            out['impl'] = 'timeout'
        except Unmodelled:
            out['impl'] = {'outside': 'harness-class-outside-its-modelled-use'}
        except RecursionError:
            out['impl'] = 'timeout'
        except Exception as e:
            out['impl'] = {'other': exc_name(e)}
    finally:
        signal.setitimer(signal.ITIMER_REAL, 0)
        signal.signal(signal.SIGALRM, old)
    return out


def key(case):
    case = normalise(case)
    return {'heap': case['heap'], 'target': case['target'], 'spelling': case.get('spelling'),
            'mut': case['mut'], 'sroot': case['sroot'], 'path_star': case['path_star'],
            'co': case['co'], 'pre': case['pre']}


def nontrivial(case, verdict):
    b = verdict.get('branch', '')
    if b.startswith('outside:'):
        return False
    if b.startswith('co-'):
        return True
    if 'staroff:' in b:
        # the switch is off: the case is about `*` / `**` segments being plain keys
        return True
    return '-x0-X0-' not in b and not b.endswith('-pae')


def mut_final_ok(parts):
    """a mutation path ends in a plain segment, T[...] or T.attr"""
    if not parts:
        return False
    last = parts[-1]
    return 'seg' in last or (bool(last.get('t')) and last['t'][-1][0] in ('[', '.'))


def shrink(case):
    base = {k: v for k, v in case.items() if not k.startswith('impl') and k != 'classes'}
    for i in range(len(case.get('pre') or [])):
        c = dict(base)
        c['pre'] = case['pre'][:i] + case['pre'][i + 1:]
        yield c
    if case.get('co'):
        co = case['co']
        for i in range(len(co['alts'])):
            if len(co['alts']) > 1:
                c = dict(base)
                c['co'] = dict(co, alts=co['alts'][:i] + co['alts'][i + 1:])
                yield c
            # the alternative itself, shrunk like a spelling
            sub = dict(base, spelling=co['alts'][i], co=None)
            for c2 in shrink(dict(sub, heap=case['heap'])):
                if c2.get('heap') == case['heap'] and c2.get('spelling'):
                    c = dict(base)
                    c['co'] = dict(co, alts=co['alts'][:i] + [c2['spelling']] + co['alts'][i + 1:])
                    yield c
        for c in _shrink_heap(case, base):
            yield c
        return
    sp = case['spelling']
    if 'parts' in sp:
        ps = sp['parts']
        for i in range(len(ps)):
            c = dict(base)
            c['spelling'] = {'parts': ps[:i] + ps[i + 1:]}
            if case.get('mut') and not mut_final_ok(c['spelling']['parts']):
                continue
            yield c
        # a nested Path argument replaced by its own parts
        for i, part in enumerate(ps):
            if 'path' in part:
                c = dict(base)
                c['spelling'] = {'parts': ps[:i] + list(part['path']) + ps[i + 1:]}
                yield c
        # single ops of a T part (a call goes with its attribute step)
        for i, part in enumerate(ps):
            ops = part.get('t') or []
            j = 0
            while j < len(ops) and len(ops) > 1:
                if ops[j][0] == '(':
                    j += 1
                    continue
                width = 2 if j + 1 < len(ops) and ops[j + 1][0] == '(' else 1
                rest = ops[:j] + ops[j + width:]
                if rest:
                    c = dict(base)
                    c['spelling'] = {'parts': ps[:i] + [{'t': rest}] + ps[i + 1:]}
                    if not (case.get('mut') and not mut_final_ok(c['spelling']['parts'])):
                        yield c
                j += width
    else:
        segs = sp['text'].split('.')
        for i in range(len(segs)):
            if len(segs) > 1:
                c = dict(base)
                rest = segs[:i] + segs[i + 1:]
                if case.get('mut') and rest[-1] in ('*', '**'):
                    continue
                c['spelling'] = {'text': '.'.join(rest)}
                yield c
    for c in _shrink_heap(case, base):
        yield c


def _refs_in(j, out):
    if isinstance(j, dict):
        if set(j) == {'r'}:
            out.append(j)
        else:
            for v in j.values():
                _refs_in(v, out)
    elif isinstance(j, list):
        for v in j:
            _refs_in(v, out)


def _gc(case, base):
    """the case without the heap cells nothing refers to (addresses renumbered)"""
    heap = case['heap']
    if case.get('pre'):
        return None          # (the history names objects by address)
    seen, todo = set(), []
    _refs_in(case['target'], todo)
    while todo:
        a = todo.pop()['r']
        if a not in seen and a < len(heap):
            seen.add(a)
            _refs_in(heap[a]['v'], todo)
    if len(seen) == len(heap):
        return None
    c = json.loads(json.dumps(base))
    remap = {a: i for i, a in enumerate(sorted(seen))}
    c['heap'] = [c['heap'][a] for a in sorted(seen)]
    refs = []
    _refs_in(c['heap'], refs)
    _refs_in(c['target'], refs)
    for r in refs:
        if r['r'] not in remap:
            return None
        r['r'] = remap[r['r']]
    return c


def _shrink_heap(case, base):
    heap = case['heap']
    g = _gc(case, base)
    if g is not None:
        yield g
    for a, cell in enumerate(heap):
        for i in range(len(cell['v'])):
            if cell['k'] in ('tuple',):
                continue
            h2 = json.loads(json.dumps(heap))
            del h2[a]['v'][i]
            c = dict(base)
            c['heap'] = h2
            yield c


def classify(case, verdict):
    if verdict.get('timeout'):
        return None
    return None


def focus_changed(changed_funcs):
    """a function of the registry changed: more cases with a history of lookups"""
    if any('TargetRegistry' in f or 'get_handler' in f or 'register' in f for f in changed_funcs or []):
        return {'pre_p': 0.5}
    return {}


def focus(disagreements, facts_changed):
    f = {}
    if any(c.get('pre') for c, _ in disagreements):
        f['pre_p'] = 0.5
    if any(c.get('sroot') for c, _ in disagreements) or 'C14Facts' in (facts_changed or []):
        f['s_root_p'] = 0.6
    return f
