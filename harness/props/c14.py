"""C14 — wildcards: generators, implementation runner, shrinker."""
import json
import os
import random
import signal
from collections import OrderedDict

from harness import pyobjs

PROP = 'C14'
LEAN_MODULES = ['Glom.Props.C14']
FACT_FILES = ['TFacts', 'C14Facts']
READY = True
MANIFEST = dict(
    text="Lean 4 theorems about a literal model of the wildcard code on the shared heap kernel (identity = "
         "address, sharing and cycles representable): `_extend_children` yields exactly the children "
         "(mapping values, sequence / set items, attribute values; raising accesses tolerated) [c14_star]; "
         "the `'X'` loop — a growing list walked by index with an id()-visited set seeded with the root — is a "
         "total function by well-founded recursion on (unexpanded addresses, unwalked items) for EVERY heap, "
         "cyclic or not, computes the queue breadth-first traversal [c14_starstar_bfs], expands every "
         "container at most once and at most |heap|+1 containers [c14_expand_once, c14_terminates]; the "
         "evaluation of any path with any number of wildcards at any position equals 'map the remaining "
         "steps over the entries, keep the successes' and never fails after a wildcard [c14_tail_independent]; "
         "k wildcards give k list levels [c14_nesting]; `_apply_for_each` applies Assign/Delete to exactly "
         "the entries, in order [c14_broadcast]; with ignore_missing=True an entry lacking the key is left "
         "alone and the loop goes on, no PathDeleteError is ever raised [c14_ignore_skips_entry, "
         "c14_ignore_deletes_entry, c14_ignore_never_path_delete_error, c14_ignore_missing_parent], a "
         "`missing` factory plays no part below a wildcard [c14_missing_irrelevant]; checker theorem c14_model_checks; per-run facts obligation "
         "by `decide` on the decision shapes regenerated from /repo's AST (incl. c14RemainderRoot: the path evaluated on every entry after a wildcard is rooted at T for T- and S-rooted paths); model tied to the code by "
         "differential execution of real glom / assign / delete calls against the compiled Lean driver "
         "(entries compared by address, heap snapshots after mutation, time budget against hangs).",
    note="trusted: Lean kernel + {propext, Classical.choice, Quot.sound}; extractor (extract/facts/c14.py); "
         "harness/driver; CPython's dict / list / attribute access as modelled in Glom/Py/Access.lean; which "
         "handler the default registry picks per class (C13's subject) enters as the functions keysH / getH "
         "/ iterH / assignH of the class's MRO and two interpreter facts per class, validated on every "
         "case; default registry only; set iteration order is observed by the harness and given to the "
         "model; assigned values are immediate values; an Assign(missing=) whose path fails before its first wildcard is C11's subject.",
    technique='Lean 4 well-founded definition (termination for every heap) + refinement to a breadth-first '
              'reference + facts obligation by decide + differential correspondence',
    ref='DESIGN.md §3 C14')
RULE = ('type-directed: a target is generated as a heap graph of dict / OrderedDict / list / tuple / set / '
        'frozenset / attribute objects and their subclasses (with and without __dict__), containers whose '
        'element access raises (RDict.__getitem__, RList.__iter__, RObj.__getattribute__), strings and other '
        'immediate values, with shared sub-objects (DAG) and back edges (cycles, also through the root); a '
        'path with 0-3 wildcards (`*` / `**`) at every position among 0-3 plain segments is derived by walking '
        'the graph (mostly valid; absent keys, non-numeric indexes, `bad` names planted), spelled as dotted '
        'text, Path(...) with T.__star__() / T.__starstar__() parts, a mixture with T steps, or one T chain; '
        '15% of all cases spell the same path from S with the data as a scope variable (S[name].., S.name.., '
        'Path(S, name, ..), glom(other, spec, scope={name: data})) and are held against the T-rooted evaluation '
        'of the same data; '
        '22% of the cases are Assign / Delete through the wildcards (final step as plain segment, T[..] or '
        'T.attr; ignore_missing / missing= set or not), plus regular one- and two-level targets whose entries '
        'have or LACK the final key / index / attribute in random positions (lacking ones in front), with '
        'shared entries and entries of another kind; fixed cases cover the self-containing '
        'list, shared children, strings and sets. entries are compared by address, scalars by value; a 3 s '
        'alarm turns a hang into a reported case. non-trivial = the path has a wildcard and does not fail '
        'before it; distinct = distinct (heap, target, spelling, mutation)')
TRUSTED = ['handler choice of the default registry per class is an environment function validated on every case '
           '(C13 proves the registry)', 'set iteration order is observed, not modelled']
ASSUMPTIONS = ['default registry', 'PATH_STAR = True', 'assigned values are immediate values',
               'Assign(missing=) whose path fails BEFORE its first wildcard is skipped (the backfill is C11)']


# ---------------------------------------------------------------- extra target classes
class RDict(dict):
    """dict whose element access raises for keys starting with 'bad'"""
    def __getitem__(self, k):
        if isinstance(k, str) and k.startswith('bad'):
            raise KeyError(k)
        return dict.__getitem__(self, k)


class RList(list):
    """list whose iteration raises when it reaches the string 'boom'"""
    __slots__ = ()

    def __iter__(self):
        for x in list.__iter__(self):
            if x == 'boom' and isinstance(x, str):
                raise RuntimeError('boom')
            yield x


class RObj:
    """attribute object whose attribute access raises for names starting with 'bad'"""
    def __getattribute__(self, name):
        if name.startswith('bad'):
            raise AttributeError(name)
        return object.__getattribute__(self, name)


class LSub(list):
    """list subclass with a __dict__ (no __slots__)"""


class SList(list):
    __slots__ = ()


class DSub(dict):
    """dict subclass with a __dict__"""


class TSub(tuple):
    __slots__ = ()


class TDict(tuple):
    """tuple subclass with a __dict__"""


class SSub(set):
    """set subclass with a __dict__"""


EXTRA = [RDict, RList, RObj, LSub, SList, DSub, TSub, TDict, SSub]
for _c in EXTRA:
    pyobjs.CLASSES.setdefault(_c.__name__, _c)
    if issubclass(_c, dict):
        pyobjs.LAYOUT.setdefault(_c.__name__, 'dict')
    elif issubclass(_c, list):
        pyobjs.LAYOUT.setdefault(_c.__name__, 'list')
    elif issubclass(_c, tuple):
        pyobjs.LAYOUT.setdefault(_c.__name__, 'tuple')
    elif issubclass(_c, (set, frozenset)):
        pyobjs.LAYOUT.setdefault(_c.__name__, 'set')
    else:
        pyobjs.LAYOUT.setdefault(_c.__name__, 'inst')

USED = ['dict', 'OrderedDict', 'list', 'tuple', 'set', 'frozenset', 'Obj', 'Obj2',
        'RDict', 'RList', 'RObj', 'LSub', 'SList', 'DSub', 'TSub', 'TDict', 'SSub']


def class_info():
    out = []
    for n in USED:
        c = pyobjs.CLASSES[n]
        if issubclass(c, tuple):
            x = c(())
        else:
            x = c.__new__(c)
        out.append([n, {'mro': [k.__name__ for k in c.__mro__],
                        'dict': hasattr(x, '__dict__'),
                        'iter': callable(getattr(c, '__iter__', None)) and c not in (str, bytes)}])
    return out


NAMES = ['a', 'b', 'k', 'bad1']
SCALARS = [None, True, 0, 1, 7, 'x', 'abc', '', 'boom']


def jval(v):
    if v is None:
        return None
    if isinstance(v, bool):
        return {'b': v}
    if isinstance(v, int):
        return {'i': v}
    return {'s': v}


class HeapGen:
    def __init__(self, rng, maxdepth, quirky):
        self.rng, self.maxdepth, self.quirky = rng, maxdepth, quirky
        self.heap = []
        self.open_mut = []
        self.closed = []

    def cls(self, lay):
        r = self.rng
        q = self.quirky
        if lay == 'dict':
            return r.choice(['dict', 'dict', 'dict', 'OrderedDict', 'DSub', 'RDict'])
        if lay == 'list':
            return r.choice(['list', 'list', 'list', 'SList', 'RList', 'LSub'])
        if lay == 'tuple':
            return r.choice(['tuple', 'tuple', 'TSub', 'TDict'])
        if lay == 'set':
            return r.choice(['set', 'frozenset', 'SSub'])
        return r.choice(['Obj', 'Obj', 'Obj2', 'RObj'])

    def node(self, depth):
        r = self.rng
        p = r.random()
        if depth >= self.maxdepth or p < 0.2:
            return jval(r.choice(SCALARS))
        if p < 0.32 and self.closed:
            return {'r': r.choice(self.closed)}          # shared sub-object (DAG)
        if p < 0.40 and self.open_mut:
            return {'r': r.choice(self.open_mut)}        # back edge (cycle)
        lay = r.choice(['dict', 'dict', 'list', 'list', 'tuple', 'inst', 'set'])
        a = len(self.heap)
        cell = {'k': lay, 'c': self.cls(lay), 'v': []}
        self.heap.append(cell)
        mutable = lay in ('dict', 'list', 'inst')
        if mutable:
            self.open_mut.append(a)
        n = r.choice([0, 1, 2, 2, 3])
        if cell['c'] in ('tuple', 'frozenset') and n == 0:
            n = 1          # () and frozenset() are interned singletons: no identity of their own
        if lay == 'dict':
            keys = r.sample(NAMES + [0, 1, 'z'], n)
            cell['v'] = [[jval(k), self.node(depth + 1)] for k in keys]
        elif lay == 'inst':
            keys = r.sample(NAMES, min(n, len(NAMES)))
            cell['v'] = [[k, self.node(depth + 1)] for k in keys]
        elif lay == 'set':
            items = r.sample([0, 1, 7, 'x', 'abc', None], n)
            cell['v'] = [jval(x) for x in items]
        else:
            cell['v'] = [self.node(depth + 1) for _ in range(n)]
        if mutable:
            self.open_mut.pop()
        self.closed.append(a)
        return {'r': a}


def gen_target(rng, quirky):
    for _ in range(20):
        g = HeapGen(rng, rng.choice([2, 3, 4, 5]), quirky)
        root = g.node(0)
        if g.heap or rng.random() < 0.1:
            return g.heap, root
    return [], jval(1)


def kids(heap, val):
    """[(kind, key_json, child)] natural children of a value (generator's view; no raising logic)"""
    if not isinstance(val, dict) or 'r' not in val:
        return []
    cell = heap[val['r']]
    if cell['k'] == 'dict':
        return [('key', k, v) for k, v in cell['v']]
    if cell['k'] in ('list', 'tuple'):
        return [('idx', {'i': i}, v) for i, v in enumerate(cell['v'])]
    if cell['k'] == 'inst':
        return [('attr', {'s': k}, v) for k, v in cell['v']]
    if cell['k'] == 'set':
        return [('item', None, v) for v in cell['v']]
    return []


def descendants(heap, val, limit=40):
    out, seen, queue = [], set(), [val]
    while queue and len(out) < limit:
        v = queue.pop(0)
        out.append(v)
        if isinstance(v, dict) and 'r' in v and v['r'] not in seen:
            seen.add(v['r'])
            queue += [c for _, _, c in kids(heap, v)]
    return out


def gen_steps(rng, heap, root, nseg, nwild):
    """a type-directed list of steps: ('seg', key) / ('x',) / ('X',), mostly valid"""
    plan = ['w'] * nwild + ['s'] * nseg
    rng.shuffle(plan)
    cur = root
    steps = []
    for p in plan:
        ch = kids(heap, cur)
        if p == 'w':
            if rng.random() < 0.6:
                steps.append(('x',))
                cur = rng.choice(ch)[2] if ch else cur
            else:
                steps.append(('X',))
                cur = rng.choice(descendants(heap, cur))
        else:
            named = [(k, key, c) for k, key, c in ch if key is not None]
            if named and rng.random() < 0.85:
                kind, key, nxt = rng.choice(named)
                steps.append(('seg', kind, key))
                cur = nxt
            else:
                steps.append(('seg', 'key', rng.choice([{'s': 'a'}, {'s': 'zz'}, {'i': 0}, {'s': '0'},
                                                        {'s': 'bad1'}, {'s': 'k'}])))
    return steps


def text_ok(key):
    if 'i' in key:
        return True
    s = key.get('s')
    return isinstance(s, str) and '.' not in s and s not in ('*', '**') and s != ''


def spell(rng, steps, style):
    if style == 'text':
        segs = []
        for st in steps:
            if st[0] == 'x':
                segs.append('*')
            elif st[0] == 'X':
                segs.append('**')
            else:
                key = st[2]
                segs.append(str(key['i']) if 'i' in key else key['s'])
        return {'text': '.'.join(segs)}
    parts = []
    for st in steps:
        if st[0] == 'x':
            parts.append({'t': [['x', None]]})
        elif st[0] == 'X':
            parts.append({'t': [['X', None]]})
        else:
            kind, key = st[1], st[2]
            if style == 'path' or rng.random() < 0.5:
                parts.append({'seg': key})
            elif kind == 'attr' and 's' in key:
                parts.append({'t': [['.', key]]})
            else:
                parts.append({'t': [['[', key]]})
    if style == 'tchain':
        # one T expression: T.a.__star__()['b']…  (plain segments become [...] / .attr)
        chain = []
        for p in parts:
            if 'seg' in p:
                chain.append(['[', p['seg']])
            else:
                chain += p['t']
        return {'parts': [{'t': chain}]} if chain else {'parts': []}
    return {'parts': parts}


def gen_case(rng, quirk_rate):
    quirky = rng.random() < quirk_rate
    heap, root = gen_target(rng, quirky)
    nwild = rng.choice([0, 1, 1, 1, 2, 2, 3])
    nseg = rng.choice([0, 0, 1, 1, 2, 3])
    steps = gen_steps(rng, heap, root, nseg, nwild)
    m = rng.random()
    mut = None
    if m < 0.22:
        # Assign / Delete through the wildcards: the path ends in a plain segment
        key = rng.choice([{'s': 'k'}, {'s': 'a'}, {'s': '0'}, {'i': 0}, {'s': 'zz'}])
        steps = steps + [('seg', 'key', key)]
        if rng.random() < 0.6:
            val = rng.choice([jval(9), jval('v'), None, jval(True)])
            mut = {'kind': 'assign', 'val': val, 'missing': rng.choice([None, None, 'dict', 'list'])}
        else:
            mut = {'kind': 'delete', 'ignore': rng.random() < 0.5}
    can_text = all(st[0] != 'seg' or text_ok(st[2]) for st in steps) and steps
    styles = ['path', 'mixed', 'tchain'] + (['text', 'text', 'text'] if can_text else [])
    style = rng.choice(styles)
    # (the final step of a mutation path is spelled like any other: plain segment, T[...] or T.attr)
    sp = spell(rng, steps, style)
    return {'heap': heap, 'target': root, 'spelling': sp, 'mut': mut}


def fixed_cases():
    """shapes named in the property: cyclic roots, shared children, strings, sets"""
    out = []
    cyc = [{'k': 'list', 'c': 'list', 'v': [{'r': 0}]}]
    for t in ('**', '*', '**.*', '*.**', '**.**', '**.0'):
        out.append({'heap': cyc, 'target': {'r': 0}, 'spelling': {'text': t}, 'mut': None})
    two = [{'k': 'dict', 'c': 'dict', 'v': [[{'s': 'a'}, {'r': 1}], [{'s': 'b'}, {'r': 1}]]},
           {'k': 'list', 'c': 'list', 'v': [{'r': 0}, {'i': 1}]}]
    for t in ('**', '*.*', '**.a', '*.0.a', '**.**'):
        out.append({'heap': two, 'target': {'r': 0}, 'spelling': {'text': t}, 'mut': None})
    for t in ('*', '**', '**.*'):
        out.append({'heap': [], 'target': {'s': 'abc'}, 'spelling': {'text': t}, 'mut': None})
    st = [{'k': 'set', 'c': 'set', 'v': [{'i': 1}, {'s': 'x'}, None]},
          {'k': 'dict', 'c': 'dict', 'v': [[{'s': 's'}, {'r': 0}], [{'s': 't'}, {'s': 'boom'}]]}]
    for t in ('*', '**', 's.*', '*.*'):
        out.append({'heap': st, 'target': {'r': 1}, 'spelling': {'text': t}, 'mut': None})
    nested = [{'k': 'dict', 'c': 'dict', 'v': [[{'s': 'a'}, {'r': 1}], [{'s': 'b'}, {'r': 2}]]},
              {'k': 'list', 'c': 'list', 'v': [{'r': 3}, {'r': 4}]},
              {'k': 'list', 'c': 'list', 'v': [{'r': 5}]},
              {'k': 'dict', 'c': 'dict', 'v': [[{'s': 'k'}, {'i': 1}]]},
              {'k': 'dict', 'c': 'dict', 'v': [[{'s': 'k'}, {'i': 2}]]},
              {'k': 'dict', 'c': 'dict', 'v': [[{'s': 'k'}, {'i': 3}]]}]
    out.append({'heap': nested, 'target': {'r': 0}, 'spelling': {'text': '*.*.k'}, 'mut': None})
    out.append({'heap': nested, 'target': {'r': 0}, 'spelling': {'text': '*.*.k'},
                'mut': {'kind': 'assign', 'val': {'i': 9}}})
    out.append({'heap': nested, 'target': {'r': 0}, 'spelling': {'text': '*.*.k'}, 'mut': {'kind': 'delete'}})
    out.append({'heap': nested, 'target': {'r': 0}, 'spelling': {'text': '**.k'}, 'mut': {'kind': 'delete'}})
    out.append({'heap': nested, 'target': {'r': 0}, 'spelling': {'text': '**.k'},
                'mut': {'kind': 'delete', 'ignore': True}})
    out.append({'heap': nested, 'target': {'r': 0}, 'spelling': {'text': '*.*.k'},
                'mut': {'kind': 'assign', 'val': {'i': 9}, 'missing': 'dict'}})
    return out


def wide_cases(rng, n):
    """many entries under one wildcard (broadcast over long lists, wide `**`)"""
    for _ in range(n):
        m = rng.randint(9, 24)
        heap = [{'k': 'list', 'c': rng.choice(['list', 'LSub', 'SList']), 'v': [{'r': i + 1} for i in range(m)]}]
        for i in range(m):
            lay = rng.choice(['dict', 'dict', 'inst', 'list'])
            if lay == 'dict':
                heap.append({'k': 'dict', 'c': 'dict', 'v': [[{'s': 'k'}, {'i': i}]] if rng.random() < 0.8 else []})
            elif lay == 'inst':
                heap.append({'k': 'inst', 'c': 'Obj', 'v': [['k', {'i': i}]] if rng.random() < 0.8 else []})
            else:
                heap.append({'k': 'list', 'c': 'list', 'v': [{'i': i}]})
        path = rng.choice(['*.k', '**.k', '*.0', '*', '**'])
        mut = None
        r = rng.random()
        if path.endswith(('k', '0')) and r < 0.7:
            mut = ({'kind': 'assign', 'val': jval(rng.choice([9, 'v'])), 'missing': rng.choice([None, 'dict'])}
                   if r < 0.4 else {'kind': 'delete', 'ignore': rng.random() < 0.5})
        yield {'heap': heap, 'target': {'r': 0}, 'spelling': {'text': path}, 'mut': mut}


def ragged_cases(rng, n):
    """Assign / Delete through one or two wildcard levels (`*` / `**`) over entries of one kind (dicts,
    attribute objects, lists) of which a random subset LACKS the final key / attribute / index — lacking
    entries also in front of entries that have it —, now and then an entry of another kind (a tuple, a
    scalar, a shared entry), with `ignore_missing` / `missing=` set or not, the final step spelled as a
    plain segment, T[...] or T.attr, the whole path as text, Path(...), a mixture or one T chain"""
    for _ in range(n):
        heap = []
        leaf_kind = rng.choice(['dict', 'dict', 'inst', 'list'])
        levels = rng.choice([1, 1, 2])
        made = []

        def leaf(has):
            a = len(heap)
            extra = rng.choice([[], [('a', 1)], [('a', 1), ('b', 2)]])
            if leaf_kind == 'dict':
                ents = [[{'s': k}, {'i': v}] for k, v in extra] + ([[{'s': 'k'}, {'i': a}]] if has else [])
                rng.shuffle(ents)
                heap.append({'k': 'dict', 'c': rng.choice(['dict', 'dict', 'OrderedDict', 'DSub']), 'v': ents})
            elif leaf_kind == 'inst':
                ents = [[k, {'i': v}] for k, v in extra] + ([['k', {'i': a}]] if has else [])
                rng.shuffle(ents)
                heap.append({'k': 'inst', 'c': rng.choice(['Obj', 'Obj', 'Obj2']), 'v': ents})
            else:
                heap.append({'k': 'list', 'c': rng.choice(['list', 'list', 'SList', 'LSub']),
                             'v': [{'i': a}] + ([{'i': a + 100}] if has else [])})
            made.append(a)
            return {'r': a}

        def odd():
            p = rng.random()
            if p < 0.4:
                return jval(rng.choice(SCALARS))
            if p < 0.6 and made:
                return {'r': rng.choice(made)}          # an entry shared with an earlier position
            a = len(heap)
            heap.append({'k': 'tuple', 'c': 'tuple', 'v': [{'i': 1}, {'i': 2}]})
            return {'r': a}

        def group(depth):
            a = len(heap)
            kind = rng.choice(['list', 'list', 'dict', 'tuple', 'list'])
            cell = {'k': kind, 'c': {'list': rng.choice(['list', 'list', 'LSub']), 'dict': 'dict',
                                     'tuple': 'tuple'}[kind], 'v': []}
            heap.append(cell)
            n_kids = rng.randint(2, 5) if depth == 1 else rng.randint(1, 3)
            if depth == 1:
                has = [rng.random() < 0.55 for _ in range(n_kids)]
                if rng.random() < 0.7 and n_kids >= 2:
                    # a lacking entry in front of one that has it
                    i = rng.randrange(n_kids - 1)
                    has[i] = False
                    has[rng.randrange(i + 1, n_kids)] = True
                kids_ = [leaf(x) for x in has]
                if rng.random() < 0.2:
                    kids_.insert(rng.randrange(len(kids_) + 1), odd())
            else:
                kids_ = [group(depth - 1) for _ in range(n_kids)]
            if kind == 'dict':
                cell['v'] = [[{'s': 'g%d' % i}, k] for i, k in enumerate(kids_)]
            else:
                cell['v'] = kids_
            return {'r': a}

        root = group(levels)
        steps = []
        if rng.random() < 0.3:
            a = len(heap)
            heap.append({'k': 'dict', 'c': 'dict', 'v': [[{'s': 'rows'}, root], [{'s': 'n'}, {'i': 0}]]})
            root = {'r': a}
            steps.append(('seg', 'key', {'s': 'rows'}))
        wild = [('x',)] * levels
        if rng.random() < 0.3:
            # `**` in place of the wildcard levels (the containers on the way are entries too), or of one
            wild = [('X',)] if rng.random() < 0.6 else [rng.choice([('x',), ('X',)]) for _ in range(levels)]
        steps += wild
        if leaf_kind == 'list':
            steps.append(('seg', 'idx', rng.choice([{'i': 1}, {'i': 1}, {'i': -2}, {'s': '1'}])))
        elif leaf_kind == 'inst':
            steps.append(('seg', 'attr', {'s': 'k'}))
        else:
            steps.append(('seg', 'key', {'s': 'k'}))
        if rng.random() < 0.55:
            mut = {'kind': 'delete', 'ignore': rng.random() < 0.7}
        else:
            mut = {'kind': 'assign', 'val': jval(rng.choice([9, 'v', None])),
                   'missing': rng.choice([None, 'dict', 'dict', 'list'])}
        can_text = all(st[0] != 'seg' or text_ok(st[2]) for st in steps)
        style = rng.choice(['path', 'mixed', 'mixed', 'tchain', 'tchain'] + (['text', 'text'] if can_text else []))
        yield {'heap': heap, 'target': root, 'spelling': spell(rng, steps, style), 'mut': mut}


S_ROOT_P = 0.15


def with_sroot(rng, case):
    """the same data and the same path, spelled from S with the data as a scope variable:
    S[name]… / S.name… / Path(S, name, …); as one expression when the path is one T chain"""
    c = dict(case)
    c['sroot'] = {'var': rng.choice(['e', 'data', 'x']), 'first': rng.choice(['[', '[', '.', 'P']),
                  'chain': rng.random() < 0.7}
    return c


def generate(rng, tier, scale, **focus):
    n = (1400 if tier == 'quick' else 50000) * scale
    sp = focus.get('s_root_p', S_ROOT_P)

    def maybe_s(c):
        # (a wildcard-free, empty path spelled from S would be the bare scope: never generated)
        has_steps = bool(c['spelling'].get('text') or c['spelling'].get('parts'))
        return with_sroot(rng, c) if has_steps and rng.random() < sp else c

    for c in fixed_cases():
        yield c
        if c['spelling'].get('text'):
            yield with_sroot(rng, c)
    for _ in range(n):
        yield maybe_s(gen_case(rng, focus.get('quirk_rate', 0.0)))
    for c in wide_cases(rng, (60 if tier == 'quick' else 1500) * scale):
        yield maybe_s(c)
    for c in ragged_cases(rng, (260 if tier == 'quick' else 6000) * scale):
        yield maybe_s(c)


def corpus():
    out = []
    # list / tuple / set subclasses that have a __dict__ are walked by their items (repaired by 6678f8c)
    for c, k in (('LSub', 'list'), ('TDict', 'tuple'), ('SSub', 'set')):
        for t in ('*', '**'):
            out.append({'heap': [{'k': k, 'c': c, 'v': [{'i': 1}, {'i': 2}]}], 'target': {'r': 0},
                        'spelling': {'text': t}, 'mut': None})
    # ignore_missing / missing= are per entry: an entry lacking the key in front of entries that have it
    # (minimised witness of seeded change C14-s7: one try around the whole loop)
    ragged = [{'k': 'list', 'c': 'list', 'v': [{'r': 1}, {'r': 2}, {'r': 3}]},
              {'k': 'dict', 'c': 'dict', 'v': []},
              {'k': 'dict', 'c': 'dict', 'v': [[{'s': 'k'}, {'i': 1}]]},
              {'k': 'dict', 'c': 'dict', 'v': [[{'s': 'k'}, {'i': 2}], [{'s': 'a'}, {'i': 0}]]}]
    for sp in ({'text': '*.k'}, {'text': '**.k'}, {'parts': [{'t': [['x', None], ['[', {'s': 'k'}]]}]}):
        out.append({'heap': ragged, 'target': {'r': 0}, 'spelling': sp, 'mut': {'kind': 'delete', 'ignore': True}})
        out.append({'heap': ragged, 'target': {'r': 0}, 'spelling': sp,
                    'mut': {'kind': 'assign', 'val': {'i': 9}, 'missing': 'dict'}})
    # the same path spelled from S continues from every entry after a wildcard (repaired defect 62e884e:
    # `glom({}, S['e'].__star__()['k'], scope={'e': [{'k': 1}]})` was [])
    for first, chain in (('[', True), ('.', True), ('P', False)):
        for t in ('*.k', '**.k', '*'):
            out.append({'heap': ragged, 'target': {'r': 0}, 'spelling': {'text': t}, 'mut': None,
                        'sroot': {'var': 'e', 'first': first, 'chain': chain}})
    p = os.path.join(os.path.dirname(os.path.dirname(os.path.dirname(os.path.abspath(__file__)))),
                     'corpus', 'C14.jsonl')
    if os.path.exists(p):
        for line in open(p):
            if line.strip():
                out.append(json.loads(line))
    return out


# ---------------------------------------------------------------- implementation runner
class Timeout(BaseException):
    # a BaseException: glom's `except Exception` clauses (around every child access of a wildcard)
    # must not be able to swallow the alarm, and the timer repeats in case something does
    pass


def _alarm(signum, frame):
    raise Timeout()


def exc_name(e):
    for c in type(e).__mro__:
        if not c.__name__.startswith('GlomError.wrap'):
            return c.__name__
    return type(e).__name__


def parts_of_text(text):
    """the parts `Path.from_text` makes of a dotted string"""
    return [{'t': [['x', None]]} if s == '*' else {'t': [['X', None]]} if s == '**' else {'seg': {'s': s}}
            for s in text.split('.')]


def build_spec(sp, dv, sroot=None):
    """the spec object and its number of wildcards.  `sroot` = {'var': name, 'first': '[' | '.' | 'P'}: the
    same path spelled from S, the data being the scope variable `name`: S[name]… / S.name… /
    Path(S, name, …)"""
    from glom import Path, T, S
    if 'text' in sp and not sroot:
        return sp['text'], len([s for s in sp['text'].split('.') if s in ('*', '**')])
    src_parts = parts_of_text(sp['text']) if 'text' in sp else sp['parts']
    if sroot:
        head = {'[': lambda: S[sroot['var']], '.': lambda: getattr(S, sroot['var'])}.get(sroot['first'])
        if len(src_parts) == 1 and 't' in src_parts[0] and sroot.get('chain') and head is not None:
            # one expression: S['e'].__star__()['k'] …
            t = head()
            nw = 0
            for op, arg in src_parts[0]['t']:
                if op == 'x':
                    t = t.__star__(); nw += 1
                elif op == 'X':
                    t = t.__starstar__(); nw += 1
                elif op == '.':
                    t = getattr(t, dv(arg))
                else:
                    t = t[dv(arg)]
            return t, nw
    parts = []
    nw = 0
    if sroot:
        parts = [head()] if head is not None else [S, sroot['var']]
    for p in src_parts:
        if 'seg' in p:
            parts.append(dv(p['seg']))
        else:
            t = T
            for op, arg in p['t']:
                if op == 'x':
                    t = t.__star__()
                    nw += 1
                elif op == 'X':
                    t = t.__starstar__()
                    nw += 1
                elif op == '.':
                    t = getattr(t, dv(arg))
                else:
                    t = t[dv(arg)]
            parts.append(t)
    return Path(*parts), nw


def run_impl(case):
    import glom
    from glom import PathAccessError
    heap = json.loads(json.dumps(case['heap']))
    objs, dv = pyobjs.decode(heap)
    # sets iterate in an order of their own: record it in the heap the model sees
    for a, cell in enumerate(heap):
        if cell['k'] == 'set':
            order = [pyobjs.enc_val(x, lambda v: None) for x in objs[a]]
            cell['v'] = order
    ids = {id(o): a for a, o in enumerate(objs)}
    if len(ids) < len(objs):
        # two cells decoded to one object (interned empty tuple / frozenset): not a heap the kernel
        # can describe; the driver skips it
        out = dict(case)
        out['heap'] = heap
        out['classes'] = class_info()
        out['impl'] = 'skip'
        return out
    target = dv(case['target'])
    sroot = case.get('sroot')
    spec, nw = build_spec(case['spelling'], dv, sroot)
    if sroot:
        # the data is a scope variable; the target of the call is something else
        gtarget, gkw = {'unrelated': True}, {'scope': {sroot['var']: target}}
    else:
        gtarget, gkw = target, {}

    def addr_of(v):
        return ids.get(id(v))

    def enc_res(x, depth):
        if depth > 0 and type(x) is list and id(x) not in ids:
            return {'l': [enc_res(y, depth - 1) for y in x]}
        return {'v': pyobjs.enc_val(x, addr_of)}

    def snapshot():
        out = []
        for a, o in enumerate(objs):
            cn = type(o).__name__
            lay = heap[a]['k']
            ev = lambda x: pyobjs.enc_val(x, addr_of)
            if lay == 'dict':
                out.append({'k': 'dict', 'c': cn, 'v': [[ev(k), ev(x)] for k, x in dict.items(o)]})
            elif lay == 'list':
                out.append({'k': 'list', 'c': cn, 'v': [ev(x) for x in list.__iter__(o)]})
            elif lay == 'tuple':
                out.append({'k': 'tuple', 'c': cn, 'v': [ev(x) for x in tuple.__iter__(o)]})
            elif lay == 'set':
                out.append({'k': 'set', 'c': cn, 'v': [ev(x) for x in o]})
            else:
                d = object.__getattribute__(o, '__dict__')
                out.append({'k': 'inst', 'c': cn, 'v': [[k, ev(x)] for k, x in d.items()]})
        return out

    out = dict(case)
    out['heap'] = heap
    out['classes'] = class_info()
    mut = case.get('mut')
    old = signal.signal(signal.SIGALRM, _alarm)
    signal.setitimer(signal.ITIMER_REAL, 3.0, 1.0)
    try:
        try:
            if mut is None:
                res = glom.glom(gtarget, spec, **gkw)
                out['impl'] = {'ok': enc_res(res, nw)}
            else:
                err = None
                try:
                    if mut['kind'] == 'assign':
                        fac = {'dict': dict, 'list': list}.get(mut.get('missing'))
                        if sroot:
                            glom.glom(gtarget, glom.Assign(spec, dv(mut['val']), missing=fac), **gkw)
                        else:
                            glom.assign(target, spec, dv(mut['val']), missing=fac)
                    elif sroot:
                        glom.glom(gtarget, glom.Delete(spec, ignore_missing=bool(mut.get('ignore'))), **gkw)
                    else:
                        glom.delete(target, spec, ignore_missing=bool(mut.get('ignore')))
                except (PathAccessError, RecursionError):
                    raise
                except Exception as e:
                    # PathAssignError / PathDeleteError / UnregisteredTarget, or what `dest[k] = v`,
                    # `setattr`, `del dest[k]` raised outside every `except` clause of glom
                    err = exc_name(e)
                out['impl'] = {'mutated': snapshot(), 'err': err}
        except Timeout:
            out['impl'] = 'timeout'
        except PathAccessError:
            out['impl'] = 'pae'
        except RecursionError:
            out['impl'] = 'timeout'
        except Exception as e:
            out['impl'] = {'other': exc_name(e)}
    finally:
        signal.setitimer(signal.ITIMER_REAL, 0)
        signal.signal(signal.SIGALRM, old)
    return out


def key(case):
    return {'heap': case['heap'], 'target': case['target'], 'spelling': case['spelling'],
            'mut': case.get('mut'), 'sroot': case.get('sroot')}


def nontrivial(case, verdict):
    b = verdict.get('branch', '')
    return '-x0-X0-' not in b and not b.endswith('-pae')


def mut_final_ok(parts):
    """a mutation path ends in a plain segment, T[...] or T.attr"""
    if not parts:
        return False
    last = parts[-1]
    return 'seg' in last or (bool(last.get('t')) and last['t'][-1][0] in ('[', '.'))


def shrink(case):
    base = {k: v for k, v in case.items() if not k.startswith('impl') and k != 'classes'}
    sp = case['spelling']
    if 'parts' in sp:
        ps = sp['parts']
        for i in range(len(ps)):
            c = dict(base)
            c['spelling'] = {'parts': ps[:i] + ps[i + 1:]}
            if case.get('mut') and not mut_final_ok(c['spelling']['parts']):
                continue
            yield c
    else:
        segs = sp['text'].split('.')
        for i in range(len(segs)):
            if len(segs) > 1:
                c = dict(base)
                rest = segs[:i] + segs[i + 1:]
                if case.get('mut') and rest[-1] in ('*', '**'):
                    continue
                c['spelling'] = {'text': '.'.join(rest)}
                yield c
    heap = case['heap']
    for a, cell in enumerate(heap):
        for i in range(len(cell['v'])):
            if cell['k'] in ('tuple',):
                continue
            h2 = json.loads(json.dumps(heap))
            del h2[a]['v'][i]
            c = dict(base)
            c['heap'] = h2
            yield c


def classify(case, verdict):
    if verdict.get('timeout'):
        return None
    return None


def focus(disagreements, facts_changed):
    f = {}
    if any(c.get('sroot') for c, _ in disagreements) or 'C14Facts' in (facts_changed or []):
        f['s_root_p'] = 0.6
    return f
