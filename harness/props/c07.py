"""C07 — scope bindings are lexically scoped, chain forward, never outlive the call."""
import json
import os

from harness import interp_common as ic
from harness.interp_gen import Gen, gate_inspect
from harness.props import c03 as _c03

PROP = 'C07'
LEAN_MODULES = ['Glom.Props.C07']
FACT_FILES = ['ExcFacts', 'InterpFacts', 'c03']
READY = True
RULE = ('spec trees of depth <= 3 (quick) / 4 (thorough) mixing tuple, Pipe, dict, list, Coalesce, And/Or/Not, Switch, '
        'Match-dict and call arguments, with binders (S(k=..) with literal / T / Spec / container values, A.k, '
        'A.globals.k, S(v=Vars(..)) + A.v.k, Let, Spec(scope=..), Ref(name, spec)) and readers (S.k, S["k"], '
        'S.globals.k, S.v.k, Ref(name)) over a pool of 3 names placed at random positions, so that every reader is '
        'sometimes inside, sometimes after, sometimes beside and sometimes outside the chain that binds its name; 40% of '
        'cases pass a caller scope= mapping binding pool names; Match dicts are applied to dict targets with 2-3 items, '
        'literal keys for a random subset of the items first and then a catch-all binding key (A.k / S(k=..) / Let) or '
        'type key, the values reading the bound name (bare or under Coalesce(default=)); 4% of the cases are Match dicts '
        'with literal keys, a binding key and an Optional(k, default=D) whose default D reads the bound name (the value '
        'D yields is compared with D evaluated in argument position at the Match\'s own scope under the lexical model); '
        '12% of the cases are chains (tuple / Pipe) in which a binder step (S(k=..), A.k, A.globals.k, Let, Spec(scope=..), '
        'S(v=Vars()) + A.v.k, a Ref definition) is directly followed by 1-3 steps evaluating to SKIP (Val(SKIP), a callable '
        'returning SKIP, Coalesce/Or with default=SKIP, Switch -> Val(SKIP), Spec(Val(SKIP)) with or without a scope= binding '
        'of its own, Auto(Val(SKIP)), a Ref definition yielding SKIP) or by a STOP, then by readers of the bound name (bare, '
        'in a dict, in a nested chain, under Coalesce(default=), as call arguments), optionally after an earlier binding of '
        'the same name in the chain, a second binder, a pass-through step between the skips, SKIP as the last step; the '
        'enumerated stream has every SKIP-yielding shape and every such placement per binder kind; 8% of the cases '
        'are chains nested directly as steps of chains (2-3 levels, each level spelled as a tuple or as a Pipe at '
        'random), a binder at a random level, readers of the bound name at every level after it, optionally an '
        'earlier binding of the same name at an outer level and sibling inner chains; the enumerated stream runs '
        'every shape that contains chains in every tuple / Pipe spelling of each chain (all 2^n combinations for '
        'n <= 3 chains), plus 13 nested-chain shapes (inner binding read by the enclosing chain, shadowing ends '
        'with the inner chain, two levels, STOP / SKIP inside the inner chain, sibling inner chains); '
        '85% of the cases have every reader S.name wrapped in a READ PROBE (a custom spec with a glomit that evaluates the reader with the '
        'running evaluator and records what it yielded, unique id per position): the independent checker checkVis compares every recorded '
        'read with the statically (lexically) visible binding computed from the spec tree alone; 7% are nested evaluations started from the '
        'running scope (glom(t, s, scope=scope) / Spec(s).glom(t, scope=scope), as First and Iter().first do) with the name bound at 2-4 '
        'depths; 8% pass a layered ChainMap as scope= with a name in two or three layers; 2% are Match dicts mixing Optional / Required / '
        'literal keys with one binder key and S-reading values, evaluated for EVERY order of the target\'s items; 25% of the readers carry '
        'further T steps (S.k[0], S.k + 1); enumerated + 2%: a mutable default of Vars (list / dict / dict holding a list, keyword or base '
        'mapping) mutated in place by 1-3 later steps, the same spec object evaluated for 2-3 targets (known finding '
        'vars_mutable_default_persists); the caller mapping is compared with a DEEP copy taken before the call; '
        'every call is made twice. Observed: result (hence what '
        'every reader saw), ordered call log, the caller mapping before/after, equality of the two calls. non-trivial = '
        'at least one binder and one reader; distinct = distinct (target, spec, scope)')
TRUSTED = ['Python primitives are parameters (`Prims`), validated by the correspondence only']
ASSUMPTIONS = ['READING (C07-1, C07-2): Spec(s, scope={...}), Let(k=...) and a Ref(name, body) definition are binders of the chain they are a step '
               'of, exactly like S(name=...): glom(1, (Spec(T, scope={"k": 3}), S.k)) == 3 and glom(1, (Ref("r", Val("body")), Ref("r"))) '
               'resolves from the preceding sibling step (exportsOf in Glom/Spec/C07.lean says so; the static checker demands it)',
               'READING (C07-4b/c): "the caller\'s scope mapping is never modified" is about the mapping -- which names it has and which '
               'objects they are bound to (compared with a deep copy for every generated case); a spec that assigns INTO an object the caller '
               'put there (A.x["y"] on scope={"x": {}}, A.globals.k with a caller-supplied "globals") mutates a user object like an assignment '
               'into the target does: C11\'s domain, not generated here',
               'mutable Vars defaults persisting into the next call of the same spec object: GENUINE, known finding vars_mutable_default_persists',
               'Optional(k, default=...) keys are a separately checked observation (optdefault cases); Optional(k) / Required(k) keys are '
               'constructs of the model (a Match dict is generated with at most one Required key of a shape: the model tells key objects '
               'apart by their shape, glom by identity)',
               'a lazily evaluated stream (Iter(sub) / Iter().map(sub)) is modelled by evaluating its items in the scope of the '
               'place where it is written (the frame the generator captures), the consumer forcing it: exact for bindings '
               '(enumerated placements), not for S.globals / Vars written between creation and consumption; the other Iter '
               'stages are C17',
               'Regex named groups as binders are not generated (the regex engine is outside the model)']
MANIFEST = dict(
    text=("Lean 4 refinement theorem c07_refines_lexical: for every scope representation satisfying 24 lexical-scoping laws, "
          "the code-shaped interpreter computes on a scope exactly what the reference environment-passing semantics computes "
          "on its observations (same state, value/error, corresponding scope), for every spec, target, fuel and Python-"
          "primitive instantiation; hence the outcome depends on the scope only through what is lexically visible, and the "
          "ChainMap-frames model equals the lexical reference on every top-level call (c07_model_eq_reference). Further: "
          "the ChainMap-of-frames scope glom uses satisfies the 24 lexical-scoping laws (child sees "
          "parent, a write hits the head frame only and shadows, chain_child forwards the finished step's bindings with the "
          "owner's mode); dict/list/Coalesce/And/Or/Fill containers call the evaluator at their own scope only (sibling "
          "isolation, for every evaluator); chains forward bindings, also across skipped steps (c07_chain_skip_is_link: a step "
          "evaluating to SKIP hands its finished scope on exactly like a step evaluating to a value, only the target of the "
          "rest differs; c07_chain_forward_skip: once a link finished in a scope showing k -> x, every later step of the chain "
          "is evaluated at a scope showing k -> x as long as the steps in between leave k alone, whatever they return; "
          "c07_skip_then_read: binder, any number of skipped steps, S.k yields the bound value); a chain has a scope of its own, "
          "tuple or Pipe, also when it is directly a step of another chain (c07_pipe_own_scope, c07_plain_own_scope, "
          "c07_inner_chain_bindings_end: the scope handed to the step after an inner chain shows exactly what the scope handed to "
          "the inner chain showed -- inlining the inner steps is not equivalent); shadowing, nearest Ref, Spec(scope=) subtree, per-call "
          "fresh globals. The scope-generic interpreter model is tied to /repo by differential execution of (target, spec, "
          "scope) cases (result, call log, caller mapping before/after, two consecutive calls) through the compiled Lean "
          "driver."),
    checker=("holds = checkVis (independent, from the property text: every recorded read is the value of the lexically nearest visible binding "
             "-- later step of the same chain and everything nested; not the enclosing spec, not siblings; a Switch / Match-dict key to its own "
             "value only; Spec(scope=) for its subtree; the caller mapping outermost -- or PathAccessError; c07_model_checks proves it of the "
             "model on the fragment vfragF) AND equality with the lexical reference interpreter AND caller mapping untouched (deep) AND two "
             "consecutive calls alike"),
    note=("trusted: Lean kernel + {propext, Classical.choice, Quot.sound}; harness/driver; Python primitives as Prims "
          "parameters; hand-written interpreter model validated by the correspondence on every run. The theorems "
          "characterise the model's scoping law by law; that the real interpreter writes only the head frame is "
          "validated by the correspondence, not proved from the Python source."),
    technique='Lean 4 refinement proof (representation independence of a scope-generic monadic interpreter: ChainMap frames = lexical environment) + algebraic laws + differential correspondence',
    ref='DESIGN.md §3 C07')


def placements():
    """every (binder kind, reader kind) pair in every relative placement: same chain later, same chain
    earlier, nested below a later step, sibling dict value, sibling list element, sibling Coalesce /
    And / Or branch, enclosing spec after an inner chain, Switch key -> own value, Switch key -> other
    case, Match-dict key -> own value"""
    T0 = {'k': 't', 'steps': []}
    binders = {
        'A': ({'k': 'aBind', 'name': 'k1'}, {'k': 'sRead', 'name': 'k1', 'steps': [], 'item': False}),
        'S': ({'k': 'sBind', 'bs': [['k1', {'k': 'lit', 'v': {'i': 7}}]]}, {'k': 'sRead', 'name': 'k1', 'steps': [], 'item': True}),
        'G': ({'k': 'aGlob', 'name': 'k1'}, {'k': 'sGlobRead', 'name': 'k1'}),
        'L': ({'k': 'let', 'bs': [['k1', T0]]}, {'k': 'sRead', 'name': 'k1', 'steps': [], 'item': False}),
        'W': ({'k': 'specW', 's': T0, 'scope': [['k1', {'i': 3}]]}, {'k': 'sRead', 'name': 'k1', 'steps': [], 'item': False}),
    }
    V = lambda v: {'k': 'val', 'v': v}
    for name, (b, r) in binders.items():
        shapes = [
            {'k': 'tuple', 'xs': [b, r]},
            {'k': 'pipe', 'xs': [b, T0, r]},
            {'k': 'tuple', 'xs': [r, b]},
            {'k': 'tuple', 'xs': [b, {'k': 'dict', 'es': [[{'k': 'str', 's': 'x'}, {'k': 'list', 'xs': [r]}]]}]},
            {'k': 'dict', 'es': [[{'k': 'str', 's': 'x'}, b], [{'k': 'str', 's': 'y'}, r]]},
            {'k': 'tuple', 'xs': [V({'l': [{'i': 1}, {'i': 2}]}), {'k': 'list', 'xs': [{'k': 'coalesce', 'subs': [r, b], 'dflt': None, 'dflt_factory': None, 'skip': None, 'skip_exc': ['GlomError']}]}]},
            {'k': 'coalesce', 'subs': [{'k': 'tuple', 'xs': [b, {'k': 'str', 's': 'zz'}]}, r], 'dflt': {'k': 'lit', 'v': {'s': 'none'}}, 'dflt_factory': None, 'skip': None, 'skip_exc': ['GlomError']},
            {'k': 'and', 'cs': [b, r], 'dflt': {'k': 'lit', 'v': {'s': 'rej'}}},
            {'k': 'or', 'cs': [{'k': 'tuple', 'xs': [b, {'k': 'str', 's': 'zz'}]}, r], 'dflt': {'k': 'lit', 'v': {'s': 'rej'}}},
            {'k': 'tuple', 'xs': [{'k': 'tuple', 'xs': [b, T0]}, r]},
            {'k': 'tuple', 'xs': [{'k': 'pipe', 'xs': [b]}, r]},
            {'k': 'switch', 'cases': [[b, r]], 'dflt': None},
            {'k': 'switch', 'cases': [[{'k': 'tuple', 'xs': [b, {'k': 'str', 's': 'zz'}]}, T0], [T0, r]], 'dflt': {'k': 'lit', 'v': {'s': 'sd'}}},
            {'k': 'tuple', 'xs': [{'k': 'switch', 'cases': [[b, T0]], 'dflt': None}, r]},
            {'k': 'tuple', 'xs': [V({'d': [[{'s': 'q'}, {'i': 5}]]}), {'k': 'match', 's': {'k': 'dict', 'es': [[b, r]]}, 'dflt': {'k': 'lit', 'v': {'s': 'md'}}}]},
            # Match-dict with several items: the binding key takes the first item, a literal key the second / third
            {'k': 'tuple', 'xs': [V({'d': [[{'s': 'q'}, {'i': 5}], [{'s': 'z'}, {'i': 6}]]}),
                                  {'k': 'match', 's': {'k': 'dict', 'es': [[{'k': 'str', 's': 'z'}, r], [b, T0]]}, 'dflt': {'k': 'lit', 'v': {'s': 'md'}}}]},
            {'k': 'tuple', 'xs': [V({'d': [[{'s': 'q'}, {'i': 5}], [{'s': 'y'}, {'i': 0}], [{'s': 'z'}, {'i': 6}]]}),
                                  {'k': 'match', 's': {'k': 'dict', 'es': [
                                      [{'k': 'str', 's': 'z'}, {'k': 'coalesce', 'subs': [r], 'dflt': {'k': 'lit', 'v': {'s': 'unbound'}}, 'dflt_factory': None, 'skip': None, 'skip_exc': ['GlomError']}],
                                      [{'k': 'str', 's': 'y'}, T0], [b, r]]}, 'dflt': None}]},
            {'k': 'tuple', 'xs': [b, {'k': 'tuple', 'xs': [{'k': 'sBind', 'bs': [['k1', {'k': 'lit', 'v': {'s': 'inner'}}]]}, r]}, r]},
            {'k': 'call', 'func': {'k': 'fn', 'name': 'f1', 'kind': 'pack'}, 'args': {'k': 'tuple', 'xs': [{'k': 'specW', 's': {'k': 'tuple', 'xs': [b, r]}, 'scope': []}, r]}, 'kwargs': {'k': 'dict', 'es': []}},
        ]
        if name != 'G':
            # a lazily evaluated stream captures the scope of the place where it is written: a binding made
            # before it is visible to its items, one made between its creation and its consumption is not
            # (S.globals is shared mutable state, by design visible whenever the stream runs: not enumerated)
            L12 = V({'l': [{'i': 1}, {'i': 2}]})
            LIST = {'k': 'ty', 'name': 'list'}
            shapes += [
                {'k': 'pipe', 'xs': [L12, b, {'k': 'iter', 's': r, 'map': False}, LIST]},
                {'k': 'pipe', 'xs': [L12, {'k': 'iter', 's': r, 'map': False}, b, LIST]},
                {'k': 'pipe', 'xs': [L12, {'k': 'fill', 's': {'k': 'iter', 's': r, 'map': True}}, b, LIST, r]},
            ]
        shapes += skip_shapes(b, r)
        shapes += nest_shapes(b, r)
        for sh0 in shapes:
            for sh in chain_variants(sh0):
                for scope in ([], [['k1', {'s': 'outer'}]]):
                    yield {'spec': sh, 'target': {'i': 4}, 'scope': scope}
    R = lambda k: {'k': 'sRead', 'name': k, 'steps': [], 'item': False}
    extra = [
        # an inner Ref definition of the same name shadows the outer one, for its own subtree only
        {'k': 'ref', 'name': 'r', 'sub': {'k': 'dict', 'es': [
            [{'k': 'str', 's': 'inner'}, {'k': 'ref', 'name': 'r', 'sub': {'k': 'tuple', 'xs': [
                V({'s': 'INNER'}), {'k': 'coalesce', 'subs': [{'k': 'tuple', 'xs': [{'k': 'str', 's': 'zz'}, {'k': 'ref', 'name': 'r', 'sub': None}]}],
                                    'dflt': T0, 'dflt_factory': None, 'skip': None, 'skip_exc': ['GlomError']}]}}],
            [{'k': 'str', 's': 'outer'}, V({'s': 'OUTER'})]]}},
        {'k': 'tuple', 'xs': [{'k': 'ref', 'name': 'r', 'sub': V({'s': 'one'})},
                              {'k': 'dict', 'es': [[{'k': 'str', 's': 'a'}, {'k': 'ref', 'name': 'r', 'sub': {'k': 'tuple', 'xs': [V({'i': 2}), {'k': 'fn', 'name': 'f1', 'kind': 'inc'}]}}],
                                                   [{'k': 'str', 's': 'b'}, {'k': 'ref', 'name': 'r', 'sub': None}]]}]},
        {'k': 'ref', 'name': 'r', 'sub': {'k': 'tuple', 'xs': [
            {'k': 'ref', 'name': 'r', 'sub': {'k': 'fn', 'name': 'f1', 'kind': 'wrap'}}, {'k': 'fn', 'name': 'f2', 'kind': 'len'}]}},
        # S(a=.., b=S.a): the value of a later keyword is evaluated before any of them is bound
        {'k': 'tuple', 'xs': [{'k': 'sBind', 'bs': [['k1', V({'s': 'new'})], ['k2', R('k1')]]}, R('k2')]},
        {'k': 'tuple', 'xs': [{'k': 'sBind', 'bs': [['k1', R('k2')], ['k2', R('k1')]]},
                              {'k': 'dict', 'es': [[{'k': 'str', 's': 'a'}, R('k1')], [{'k': 'str', 's': 'b'}, R('k2')]]}]},
        # Vars(mapping): the runtime ScopeVars is a copy: writes never reach the spec's mapping / the next call
        {'k': 'tuple', 'xs': [{'k': 'sBind', 'bs': [['vv', {'k': 'vars', 'base': [['k1', {'i': 1}]], 'defaults': []}]]},
                              {'k': 'dict', 'es': [[{'k': 'str', 's': 'before'}, {'k': 'sVarRead', 'var': 'vv', 'name': 'k1'}],
                                                   [{'k': 'str', 's': 'w'}, {'k': 'aVar', 'var': 'vv', 'name': 'k1'}],
                                                   [{'k': 'str', 's': 'after'}, {'k': 'sVarRead', 'var': 'vv', 'name': 'k1'}]]}]},
    ]
    # the binders that take two steps or bind a named spec, each followed by a skipped step
    SK = V({'sent': 'SKIP'})
    VV = {'k': 'sBind', 'bs': [['vv', {'k': 'vars', 'defaults': []}]]}
    W1, R1 = {'k': 'aVar', 'var': 'vv', 'name': 'k1'}, {'k': 'sVarRead', 'var': 'vv', 'name': 'k1'}
    RD = lambda body: {'k': 'ref', 'name': 'r', 'sub': body}
    RU = {'k': 'ref', 'name': 'r', 'sub': None}
    extra += [
        {'k': 'tuple', 'xs': [VV, SK, W1, SK, R1]},
        {'k': 'pipe', 'xs': [VV, W1, SK, SK, {'k': 'dict', 'es': [[{'k': 'str', 's': 'x'}, R1]]}]},
        {'k': 'tuple', 'xs': [VV, SK, W1, V({'sent': 'STOP'}), R1]},
        {'k': 'tuple', 'xs': [RD(V({'s': 'body'})), SK, RU]},
        {'k': 'pipe', 'xs': [RD(V({'s': 'outer-body'})), RD({'k': 'fn', 'name': 'f1', 'kind': 'wrap'}), SK, RU]},
        {'k': 'tuple', 'xs': [RD(T0), RD(SK), RU]},                   # a Ref definition that is itself skipped
        {'k': 'tuple', 'xs': [{'k': 'specW', 's': SK, 'scope': [['k1', {'s': 'by-skipped-step'}]]}, R('k1')]},
    ]
    for sh0 in extra:
        for sh in chain_variants(sh0):
            for scope in ([], [['k1', {'s': 'outer'}], ['k2', {'s': 'outer2'}]]):
                yield {'spec': sh, 'target': {'i': 4}, 'scope': scope}


def chain_nodes(j, path=()):
    """paths of the tuple / Pipe nodes of a spec JSON"""
    if isinstance(j, dict):
        if j.get('k') in ('tuple', 'pipe'):
            yield path
        for key_, v in j.items():
            yield from chain_nodes(v, path + (key_,))
    elif isinstance(j, list):
        for i, v in enumerate(j):
            yield from chain_nodes(v, path + (i,))


def set_kinds(j, kinds):
    """copy of j with the chain node at each path of `kinds` spelled as that kind"""
    def go(x, path):
        if isinstance(x, dict):
            y = {key_: go(v, path + (key_,)) for key_, v in x.items()}
            if path in kinds:
                y['k'] = kinds[path]
            return y
        if isinstance(x, list):
            return [go(v, path + (i,)) for i, v in enumerate(x)]
        return x
    return go(j, ())


def chain_variants(shape):
    """a chain is spelled as a tuple or as a Pipe; both are links-with-their-own-scope wherever they stand
    (also as a step of another chain).  Every shape is run with every spelling of each of its chains: all
    2^n combinations for n <= 3 chains, otherwise as written, all flipped, and each single chain flipped."""
    paths = list(chain_nodes(shape))
    cur = {}
    for pth in paths:
        x = shape
        for step in pth:
            x = x[step]
        cur[pth] = x['k']
    flip = lambda k: 'pipe' if k == 'tuple' else 'tuple'
    combos = []
    if len(paths) <= 3:
        for mask in range(2 ** len(paths)):
            combos.append({pth: (flip(cur[pth]) if mask >> i & 1 else cur[pth]) for i, pth in enumerate(paths)})
    else:
        combos.append(dict(cur))
        combos.append({pth: flip(k) for pth, k in cur.items()})
        for pth in paths:
            c = dict(cur); c[pth] = flip(cur[pth])
            combos.append(c)
    seen = set()
    for kinds in combos:
        v = set_kinds(shape, kinds)
        key_ = json.dumps(v, sort_keys=True)
        if key_ not in seen:
            seen.add(key_)
            yield v


def nest_shapes(b, r):
    """a chain that is *directly* a step of another chain, to depth 3, with the binder inside the inner chain
    and readers inside it, after it in the enclosing chain and after that in the outermost one: a binding made
    in a chain ends with that chain; an inner binding shadows an outer one inside the inner chain only.  (Each
    shape is run in every tuple / Pipe spelling of its chains by `chain_variants`.)"""
    T0 = {'k': 't', 'steps': []}
    OUT = {'k': 'sBind', 'bs': [['k1', {'k': 'lit', 'v': {'s': 'earlier'}}]]}
    C = lambda x: {'k': 'coalesce', 'subs': [x], 'dflt': {'k': 'lit', 'v': {'s': 'unbound'}}, 'dflt_factory': None,
                   'skip': None, 'skip_exc': ['GlomError']}
    tup = lambda *xs: {'k': 'tuple', 'xs': list(xs)}
    D = lambda *xs: {'k': 'dict', 'es': [[{'k': 'str', 's': 'r%d' % i}, x] for i, x in enumerate(xs)]}
    return [
        tup(tup(b, T0), r),                                  # inner binding, read by the enclosing chain
        tup(OUT, tup(b, T0), r),                             # shadowing ends with the inner chain
        tup(OUT, tup(b, r), r),
        tup(tup(b, r), C(r)),
        tup(T0, tup(T0, tup(b, r)), C(r)),                   # two levels
        tup(OUT, tup(T0, tup(b, T0), D(r, C(r))), D(r, C(r))),
        tup(tup(tup(b)), C(r)),
        tup(OUT, tup(tup(b), r), r),
        tup(tup(OUT, tup(b, T0), A_or(r)), C(r)),
        tup(b, tup(T0, tup(T0, r))),                         # an outer binding reaches every nested chain
        tup(tup(b, T0), tup(C(r)), C(r)),                    # sibling inner chains
        tup(tup(b, {'k': 'val', 'v': {'sent': 'STOP'}}, T0), C(r)),       # STOP inside the inner chain
        tup(tup(b, {'k': 'val', 'v': {'sent': 'SKIP'}}), C(r)),
    ]


def A_or(r):
    return {'k': 'coalesce', 'subs': [r], 'dflt': {'k': 'lit', 'v': {'s': 'unbound-inner'}}, 'dflt_factory': None,
            'skip': None, 'skip_exc': ['GlomError']}


def skip_shapes(b, r):
    """a binder step b directly followed by steps evaluating to SKIP, then the reader r: a binding is visible
    to ALL later steps of the chain -- SKIP only keeps the previous result as the target, the skipped
    step's finished scope is still the link the next step chains from.  Every SKIP-yielding shape once,
    then Val(SKIP) in every placement (twice, before a pass-through step, after one, before a nested
    reader, in a Pipe, after an inner binding shadowing an earlier one, first, last, inside a nested
    chain), and STOP right after the binder (nothing later runs).  The target 4 is truthy."""
    T0 = {'k': 't', 'steps': []}
    SK = {'k': 'val', 'v': {'sent': 'SKIP'}}
    LSK = {'k': 'lit', 'v': {'sent': 'SKIP'}}
    ST = {'k': 'val', 'v': {'sent': 'STOP'}}
    C = lambda subs, d: {'k': 'coalesce', 'subs': subs, 'dflt': d, 'dflt_factory': None, 'skip': None, 'skip_exc': ['GlomError']}
    skippers = [SK, {'k': 'fn', 'name': 'fs', 'kind': 'skip_if_truthy'}, C([{'k': 'str', 's': 'zz'}], SK), C([], LSK),
                {'k': 'specW', 's': SK, 'scope': []}, {'k': 'or', 'cs': [{'k': 'str', 's': 'zz'}], 'dflt': LSK},
                {'k': 'switch', 'cases': [[T0, SK]], 'dflt': None}, {'k': 'auto', 's': SK},
                {'k': 'ref', 'name': 'rs', 'sub': SK}]
    OUT = {'k': 'sBind', 'bs': [['k1', {'k': 'lit', 'v': {'s': 'earlier'}}]]}
    out = [{'k': 'tuple', 'xs': [b, sk, r]} for sk in skippers]
    out += [
        {'k': 'pipe', 'xs': [b, SK, r]},
        {'k': 'tuple', 'xs': [b, SK, SK, r]},
        {'k': 'tuple', 'xs': [b, SK, T0, r]},
        {'k': 'tuple', 'xs': [b, T0, SK, r]},
        {'k': 'tuple', 'xs': [b, SK, {'k': 'dict', 'es': [[{'k': 'str', 's': 'x'}, {'k': 'tuple', 'xs': [T0, r]}],
                                                          [{'k': 'str', 's': 'y'}, C([r], {'k': 'lit', 'v': {'s': 'unbound'}})]]}]},
        {'k': 'tuple', 'xs': [OUT, b, SK, r]},
        {'k': 'pipe', 'xs': [OUT, SK, b, SK, r]},
        {'k': 'tuple', 'xs': [SK, b, r]},
        {'k': 'tuple', 'xs': [b, r, SK]},
        {'k': 'tuple', 'xs': [b, SK]},
        {'k': 'tuple', 'xs': [b, {'k': 'tuple', 'xs': [T0, SK]}, r]},
        {'k': 'tuple', 'xs': [{'k': 'tuple', 'xs': [b, SK]}, C([r], {'k': 'lit', 'v': {'s': 'unbound'}})]},
        {'k': 'tuple', 'xs': [b, ST, r]},
        {'k': 'pipe', 'xs': [b, C([{'k': 'str', 's': 'zz'}], ST), r]},
        {'k': 'tuple', 'xs': [b, SK, ST, r]},
    ]
    return out


def gen_optdefault(rng):
    """Match({lit: T.., <binding key>: T, Optional(k, default=D): T}) on a dict target without k: the default
    is evaluated (through arg_val) in the Match dict's own scope -- what the keys of the items matched before
    bound is not visible to it.  D reads the name the binding key binds (bare, under Coalesce, inside a
    container)."""
    name = rng.choice(Gen.POOL)
    keys = rng.sample(['a', 'b', 'c', 'd'], rng.randint(1, 3))
    target = {k: rng.choice([0, 1, 'tv', None]) for k in keys}
    q = rng.random()
    if q < 0.5:
        binder = {'k': 'aBind', 'name': name}
    elif q < 0.8:
        binder = {'k': 'sBind', 'bs': [[name, rng.choice([{'k': 'lit', 'v': ic.enc('kb')}, {'k': 't', 'steps': []}])]]}
    else:
        binder = {'k': 'let', 'bs': [[name, {'k': 't', 'steps': []}]]}
    rd = {'k': 'sRead', 'name': name if rng.random() < 0.85 else rng.choice(Gen.POOL), 'steps': [], 'item': rng.random() < 0.4}
    q = rng.random()
    if q < 0.35:
        d = rd
    elif q < 0.7:
        d = {'k': 'coalesce', 'subs': [rd], 'dflt': {'k': 'lit', 'v': ic.enc('unbound')}, 'dflt_factory': None,
             'skip': None, 'skip_exc': ['GlomError']}
    elif q < 0.85:
        d = {'k': 'list', 'xs': [{'k': 'lit', 'v': ic.enc(1)}, {'k': 'coalesce', 'subs': [rd], 'dflt': {'k': 'lit', 'v': None},
                                                                'dflt_factory': None, 'skip': None, 'skip_exc': ['GlomError']}]}
    else:
        d = {'k': 'sGlobRead', 'name': name}
    scope = []
    if rng.random() < 0.5:
        for nm in rng.sample(Gen.POOL, rng.randint(1, 2)):
            scope.append([nm, ic.enc(rng.choice([1, 'cs', None]))])
    return {'kind': 'optdefault', 'target': ic.enc(target), 'lits': [k for k in keys if rng.random() < 0.3],
            'binder': binder, 'dflt': d, 'optkey': 'zq', 'scope': scope}


def run_optdefault(case):
    import glom
    from glom import T
    fns = {}
    spec = {}
    for k in case['lits']:
        spec[k] = T
    spec[ic.build(case['binder'], fns)] = T
    spec[glom.Optional(case['optkey'], default=ic.build(case['dflt'], fns))] = T
    m = glom.Match(spec)
    obs = []
    for _ in range(2):                       # the same spec object, two top-level calls
        target = ic.dec(case['target'], fns)
        kw = {'scope': {n: ic.dec(v, fns) for n, v in case['scope']}} if case['scope'] else {}
        try:
            res = glom.glom(target, m, **kw)
        except Exception as e:
            o = {'err': ic.exc_name(e)}
        else:
            try:
                o = {'ok': ic.enc(res[case['optkey']])} if case['optkey'] in res else {'err': 'NoDefault'}
            except ValueError as ve:
                o = {'err': 'Unencodable:' + str(ve)[:80]}
        obs.append(o)
        del ic.LOG[:]
    out = dict(case)
    out['impl'] = obs[0]
    out['impl_repeat_same'] = obs[0] == obs[1]
    return out


# ---------------------------------------------------------------- mutable Vars defaults (C07-4a)
VARSMUT_DEFAULTS = {
    'list': [[], [0], ['a', 'b']],
    'dict': [{}, {'k': 0}, {'z': 1}],
    'inner': [{'inner': []}, {'inner': [7], 'k': 1}],
}
VARSMUT_OPS = {'list': ['append', 'extend', 'insert0', 'clear'], 'dict': ['setitem', 'clear'],
               'inner': ['append_inner', 'setitem']}


def _mutator(op):
    """a plain callable mutating its first argument in place (returns the target, so a chain goes on)"""
    def f(c, t):
        if op == 'append':
            c.append(t)
        elif op == 'extend':
            c.extend([t, t])
        elif op == 'insert0':
            c.insert(0, t)
        elif op == 'clear':
            c.clear()
        elif op == 'setitem':
            c['k'] = t
        elif op == 'append_inner':
            c['inner'].append(t)
        else:
            raise ValueError(op)
        return t
    f.__name__ = 'mut_' + op
    return f


def varsmut_cases():
    """enumerated: every kind of mutable default (list / dict / dict holding a list; empty and not) given
    as a keyword default or through the positional base mapping, mutated in place by 1-2 later steps of
    the same chain (tuple and Pipe), read back by S.v.<name>; the same spec object is evaluated for two
    or three targets.  "never into the next call": each call starts from the default as written."""
    for kind, dflts in VARSMUT_DEFAULTS.items():
        for d in dflts:
            for via in ('kw', 'base'):
                for ops in [[o] for o in VARSMUT_OPS[kind]] + [VARSMUT_OPS[kind][:2]]:
                    for chain in ('tuple', 'pipe'):
                        yield {'kind': 'varsmut', 'name': 'l', 'via': via, 'dflt': ic.enc(d), 'muts': ops,
                               'chain': chain, 'targets': [ic.enc(1), ic.enc('t2'), ic.enc(1)][:2 + (len(ops) % 2)]}


def gen_varsmut(rng):
    kind = rng.choice(list(VARSMUT_DEFAULTS))
    return {'kind': 'varsmut', 'name': rng.choice(['l', 'acc']), 'via': rng.choice(['kw', 'base']),
            'dflt': ic.enc(rng.choice(VARSMUT_DEFAULTS[kind])),
            'muts': [rng.choice(VARSMUT_OPS[kind]) for _ in range(rng.randint(1, 3))],
            'chain': rng.choice(['tuple', 'pipe']),
            'targets': [ic.enc(rng.choice([0, 1, 'x', None, [1]])) for _ in range(rng.randint(2, 3))]}


def run_varsmut(case):
    import glom
    from glom import S, T
    fns = {}
    d = ic.dec(case['dflt'], fns)
    name = case['name']
    v = glom.Vars(**{name: d}) if case['via'] == 'kw' else glom.Vars({name: d})
    rd = getattr(S.v, name)
    steps = [S(v=v)] + [glom.Call(_mutator(op), args=(rd, T)) for op in case['muts']] + [rd]
    spec = tuple(steps) if case['chain'] == 'tuple' else glom.Pipe(*steps)
    obs = []
    for tj in case['targets']:
        try:
            res = glom.glom(ic.dec(tj, fns), spec)
        except Exception as e:
            obs.append({'err': ic.exc_name(e)})
        else:
            try:
                obs.append({'ok': ic.enc(res)})
            except ValueError as ve:
                obs.append({'err': 'Unencodable:' + str(ve)[:80]})
    out = dict(case)
    out['impl'] = obs
    return out


def classify(case, verdict):
    """a known defect is named only when the implementation behaves exactly as the model of the code as it is"""
    return verdict.get('known_shape') or None


def wrap_readers(j, ctr):
    """every scope reader S.name / S['name'] (not where it stands as a dict key: a key is computed only if it is a
    T or Spec object) is wrapped in a read probe with a unique id: the harness records what each reader yielded"""
    if isinstance(j, dict):
        if j.get('k') == 'sRead':
            ctr[0] += 1
            return {'k': 'rprobe', 'id': ctr[0], 's': j}
        out = {}
        for key_, v in j.items():
            if key_ == 'es' and j.get('k') in ('dict', 'odict'):
                out[key_] = [[kv[0] if kv[0].get('k') == 'sRead' else wrap_readers(kv[0], ctr), wrap_readers(kv[1], ctr)]
                             for kv in v]
            else:
                out[key_] = wrap_readers(v, ctr)
        return out
    if isinstance(j, list):
        return [wrap_readers(x, ctr) for x in j]
    return j


def with_read_probes(cases, rng):
    for c in cases:
        if 'spec' in c and rng.random() < 0.85:
            c = dict(c)
            c['spec'] = wrap_readers(c['spec'], [0])
        yield c


def generate(rng, tier, scale, **focus):
    yield from with_read_probes(generate0(rng, tier, scale, **focus), rng)


def generate0(rng, tier, scale, **focus):
    if not focus:
        yield from placements()
        yield from varsmut_cases()
    n = (1500 if tier == 'quick' else 30000) * scale
    for i in range(n):
        if rng.random() < 0.04:
            yield gen_optdefault(rng)
            continue
        if rng.random() < 0.02:
            yield gen_varsmut(rng)
            continue
        if rng.random() < 0.02:
            # Match dicts mixing Optional / Required / literal keys with a binder key, every order of the target's items
            yield from Gen(rng, {'scope': True}).matchopt_cases()
            continue
        g = Gen(rng, {'extra': ['bindchain', 'bindchain', 'bindchain', 'reader', 'reader', 'binder', 'and', 'not',
                                'switch', 'matchdict', 'ref', 'skipchain', 'nestbind', 'inspect', 'reenter'], 'scope': True})
        t = g.target()
        depth = rng.choice([1, 2, 2, 3]) if tier == 'quick' else rng.choice([2, 3, 3, 4])
        spec = g.spec(t, depth)
        q = rng.random()
        if q < 0.35:
            spec = g.s_bindchain(t, depth)
        elif q < 0.43:
            # a Match dict over a target with several items (sibling items of a binding key)
            spec = g.s_matchdict(t, depth)
        elif q < 0.55:
            # binder, step(s) evaluating to SKIP (or STOP), readers
            spec = g.s_skipchain(t, depth)
        elif q < 0.62:
            # a reader inside a nested evaluation started from the running scope, the name bound at several depths
            spec = g.s_reenter(t, depth)
        elif q < 0.70:
            # chains nested directly in chains (tuple / Pipe in every combination), binder at a random level
            spec = g.s_nestbind(t, depth)
        scope = []
        if rng.random() < 0.4:
            for name in rng.sample(g.POOL, rng.randint(1, 2)):
                scope.append([name, ic.enc(rng.choice([1, 'cs', None, [1, 2], {'a': 3}, [[0], 5]]))])
        case = {'spec': gate_inspect(spec), 'target': ic.enc(t), 'scope': scope}
        if rng.random() < 0.08:
            # the caller hands a LAYERED mapping (collections.ChainMap) with a name in two layers: the first layer wins
            dup = rng.choice(g.POOL)
            case['scope'] = []
            case['scope_layers'] = [[[dup, ic.enc('layer0')]] + ([[rng.choice(g.POOL), ic.enc(0)]] if rng.random() < 0.3 else []),
                                    [[dup, ic.enc('layer1')], [rng.choice(g.POOL), ic.enc('only-outer')]]]
            if rng.random() < 0.3:
                case['scope_layers'].append([[dup, ic.enc('layer2')]])
        yield case


def corpus():
    p = os.path.join(os.path.dirname(os.path.dirname(os.path.dirname(os.path.abspath(__file__)))),
                     'corpus', PROP + '.jsonl')
    out = []
    if os.path.exists(p):
        for line in open(p):
            if line.strip():
                out.append(json.loads(line))
    return out


def run_impl(case):
    base = {k: v for k, v in case.items() if not k.startswith('impl')}
    if base.get('kind') == 'optdefault':
        return run_optdefault(base)
    if base.get('kind') == 'varsmut':
        return run_varsmut(base)
    first = ic.run_glom(base)
    built = first.pop('_built')
    second = ic.run_glom(base, built=built)     # the same spec object, a second top-level call
    second.pop('_built', None)
    first['impl_repeat_same'] = (first['impl'] == second['impl'] and first['impl_log'] == second['impl_log'])
    return first


def key(case):
    if case.get('kind') == 'varsmut':
        return {k: case[k] for k in ('kind', 'name', 'via', 'dflt', 'muts', 'chain', 'targets')}
    if case.get('kind') == 'optdefault':
        return {k: case[k] for k in ('kind', 'target', 'lits', 'binder', 'dflt', 'optkey', 'scope')}
    return _c03.key(case)


def shrink(case):
    if case.get('kind') == 'varsmut':
        base = {k: v for k, v in case.items() if not k.startswith('impl')}
        if len(base['muts']) > 1:
            for i in range(len(base['muts'])):
                c = dict(base); c['muts'] = base['muts'][:i] + base['muts'][i + 1:]
                yield c
        if len(base['targets']) > 2:
            c = dict(base); c['targets'] = base['targets'][:2]
            yield c
        return
    if case.get('kind') == 'optdefault':
        base = {k: v for k, v in case.items() if not k.startswith('impl')}
        if base['lits']:
            c = dict(base); c['lits'] = []
            yield c
        if base['scope']:
            c = dict(base); c['scope'] = []
            yield c
        items = base['target'].get('d', [])
        for i in range(len(items)):
            if len(items) > 1:
                c = dict(base); c['target'] = {'d': items[:i] + items[i + 1:]}
                c['lits'] = [k for k in base['lits'] if any(e[0] == {'s': k} for e in c['target']['d'])]
                yield c
        return
    yield from _c03.shrink(case)


BINDERS = ('sBind', 'aBind', 'aGlob', 'aVar', 'let', 'specW', 'ref', 'vars')
READERS = ('sRead', 'sGlobRead', 'sVarRead', 'rprobe')


def nontrivial(case, verdict):
    if case.get('kind') in ('optdefault', 'varsmut'):
        return True
    s = json.dumps(case['spec'])
    return any(('"k": "%s"' % b) in s for b in BINDERS) and any(('"k": "%s"' % r) in s for r in READERS)
