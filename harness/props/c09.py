"""C09 — Match succeeds exactly on conforming targets and returns them unchanged.

Generators (patterns, conforming targets derived from the pattern, one-edit near
misses, unrelated targets), implementation runner, shrinker.  Value / spec codecs
and the catalogue of callables are shared with C10 (harness/props/c10.py).
"""
import copy
import json
import os
import random

from harness.props import c10 as base
from harness.props.c10 import jv, dec_v, enc_v, Obj, apply_copy, has_m_operand, _has_kind

PROP = 'C09'
LEAN_MODULES = ['Glom.Props.C09']
FACT_FILES = ['c10', 'ExcFacts', 'RegFacts']
READY = True
MANIFEST = dict(
    text="Lean 4 theorems, for every pattern tree of any depth and every target: the code-shaped model of "
         "_glom_match / match-mode _handle_dict / Optional / Required / _precedence / Regex / Match.glomit "
         "(+ every combinator a pattern may contain) refines the documented reading: a match passes exactly "
         "on conforming targets (types by isinstance - as it is at that call, whatever the metaclass of the "
         "type and whether or not its __instancecheck__ looks at the instance -, list/set/frozenset items "
         "against some alternative, tuples positionally, dict entries claimed by the first spec key in spec "
         "order, equality keys required unless Optional, others optional unless Required, callables by "
         "truthiness, the rest by ==) [sound + complete; exactly `conforms`, with no escape clause, on calm "
         "pattern/target pairs - a decidable condition under which no comparison can raise], returns the "
         "target plus Optional defaults (structurally the target itself for default-free patterns on "
         "well-formed targets), rejects with a MatchError (TypeMatchError ∧ TypeError for a failed type "
         "rule), Match(default=) returns arg_val of the default instead, matches()/verify() agree, Regex "
         "accepts exactly the language of its pattern, the `required` set and `_precedence` are the documented "
         "rule for every kind of key (the model's precedence solves the equation the extracted if-chain "
         "denotes), no statement of the matching code writes to an object it did not allocate (facts "
         "obligation on the extracted mutation sites); HISTORIES: one Match object applied to any sequence "
         "of targets with abc.register() calls in between decides every call by the type relation of that "
         "moment; COPIES: a pattern that went through copy.copy / copy.deepcopy / a pickle round trip decides "
         "like the original (facts obligation: the identity-compared markers _MISSING / RAISE survive each "
         "way of copying). Tied to the code by differential execution through the compiled Lean driver with "
         "the same checker.",
    note="trusted: Lean kernel + {propext, Classical.choice, Quot.sound}; extractor (branch order of _glom_match "
         "and _glom, _precedence, the required/defaults comprehensions, raise/except sites, mutation sites, "
         "identity markers by import-time introspection, ABC membership of the builtin classes); "
         "harness/driver; Python's ==, isinstance (class table + attribute test of the two instance-dependent "
         "catalogue types), hashing/set construction as modelled (validated by the correspondence, not "
         "proved); CPython's `re` agreeing with the declared language on the catalogue patterns (validated "
         "per case); set / frozenset iteration order is taken from CPython (the harness ships the order it "
         "observed); user callables from a finite catalogue; Regex group capture and chain_child scope effects "
         "belong to C07. Hypothesis of the two-valued reading: Optional defaults are plain values (a T default "
         "that cannot be evaluated ends the match in its PathAccessError). Copies (copy / deepcopy / pickle) "
         "of patterns with an `M` operand are inside the correspondence since the repair 8acd988 (F43). "
         "The reference shares Python-level primitives with the model (pyEq / pyCmp / isInst / predApply / "
         "tGet / reMatches): theorems say nothing about those, the correspondence does. Outside the domain: "
         "bytes targets, NaN, objects with their own __eq__ / __bool__, IntEnum members, key patterns that "
         "transform the key; a list / tuple / set / dict VALUE in pattern position is a container pattern "
         "(the driver rejects such a `lit`).",
    technique='Lean 4 refinement proof (code-shaped matcher = documented conformance relation) + facts obligations '
              'by decide + differential correspondence (single calls, call sequences, histories with '
              'abc.register, copied patterns)',
    ref='DESIGN.md §3 C09')
RULE = ('type-directed: a pattern of depth <= 4 (quick) / 5 (thorough) over {literal, type, list, set, frozenset, '
        'tuple, dict with literal / type / Optional(+default) / Required / compound (tuple, And, Regex) keys, Regex, '
        'callables, And / Or / Not, M comparisons, nested Match(default=), occasionally a T access} is generated first; '
        'TYPE atoms are drawn from the builtin concrete classes, classes whose metaclass is not `type` (18 '
        'collections.abc / numbers ABCs, an Enum, an IntEnum, a class with a custom metaclass, a user ABC) and two '
        'instance-dependent types (a runtime_checkable Protocol with a data member, a metaclass __instancecheck__ '
        'looking at an instance attribute), at every position incl. dict keys; targets include instances of '
        'per-case user classes with / without the attribute; a conforming target '
        'is DERIVED from the pattern (witness per leaf, required keys present, optional keys sometimes), then a '
        'one-edit mutation stream produces near misses (scalar of another type or an == value of another type, a '
        'longer string, dropped / extra / renamed dict key, extra / missing list item, tuple length, list<->tuple, '
        'set<->frozenset at a random position), plus unrelated pool '
        'targets; Match(default=) on a fraction; every pattern is ALSO evaluated as ONE Match object on all '
        'its targets in consecutive glom calls, each call judged against its own target; HISTORIES: one Match object, '
        'calls on instances of a few per-case classes (subclass chains) interleaved with abc.register(cls) calls - '
        'every target is matched before and after the registrations; COPIES: a fraction of all cases uses '
        'copy.copy / copy.deepcopy / pickle round trip of the Match object instead of the object; the corpus holds '
        'the full type-atom x pool-value truth table; CALLABLES come as named functions, callable instances and '
        'functools.partial objects (no __name__) at every position; Check leaves with list / tuple sequence '
        'arguments and failing validators; Optional / Match defaults as plain values, Val, T and list / tuple '
        'displays holding T; TARGETS include instances of user subclasses of dict / list / tuple / set / '
        'frozenset / str at random positions; every call of every mode (single, sequence, history) is observed '
        'in full: glom(), verify(), matches(), snapshot of the target afterwards, `result is target`. '
        'target dict keys that ARE the key pattern object (the class object of a type key, the function object '
        'of a callable key) are derived from the pattern; evaluations that FAULT (comparison between incomparable '
        'values, unhashable member of a rebuilt set) at every kind of position, observed through glom / verify / '
        'matches (matches() must answer False). '
        'non-trivial = the pattern has a container or combinator node; '
        'distinct = distinct (pattern, default, target | targets | history, copy)')
TRUSTED = base.TRUSTED + ['set / frozenset iteration order as observed in the same process (shipped to the model)',
                          '`re` on the catalogue patterns (sequences of [a-z], \\d, [^@], ., literal chars, each '
                          'once or +) with fullmatch / search / match agrees with the declared language ReLang '
                          '(the model engine = ReLang is proved: c09_regex); ASCII targets',
                          'isinstance on the catalogue: class rows (real MRO + stdlib ABCs, generated by '
                          'introspection for the builtins), abc.register as registerCls, the attribute test of '
                          'HasLabel / Flagged']
ASSUMPTIONS = ['default registry; MODE handling of Match is C08\'s subject; Regex groups / chain_child scope '
               'effects are not observed here (C07)',
               'glom() re-raises every Exception as a GlomError (C04) - used only for matches() on faults']

LITS = [1, 0, 'a', 'b', None, True, 2.0, -1, 'abc', '', 7]
O = lambda tag: dec_v({'obj': tag})
CONCRETE_TYPE_NAMES = ['int', 'str', 'bool', 'float', 'object', 'list', 'dict', 'tuple', 'NoneType', 'set',
                       'frozenset']
# + classes whose metaclass is not `type` (ABCs, Enum / IntEnum, a custom metaclass) and types whose
# __instancecheck__ looks at the instance (runtime_checkable Protocol, custom metaclass)
TYPE_NAMES = CONCRETE_TYPE_NAMES * 2 + base.META_TYPE_NAMES + base.INSTANCE_DEPENDENT * 2
SAMPLES = {'int': [3, 0, -2, True], 'str': ['x', 'ab', ''], 'bool': [True, False], 'float': [1.5, 0.0],
           'object': [None, 4, 'o', (1,), [2]], 'list': [[], [1]], 'dict': [{}, {'q': 1}], 'tuple': [(), (1,)],
           'NoneType': [None], 'set': [{1}, set()], 'frozenset': [frozenset({1}), frozenset()],
           'Hashable': [1, 'a', None, (), O('Rec#h')], 'Sized': [[], 'x', {}, (1,)], 'Iterable': [[1], 'x', {}],
           'Container': [[1], 'x'], 'Collection': [[1], {1}, ()], 'Reversible': [[1], 'ab', {}],
           'Sequence': [[1], (), 'ab'], 'MutableSequence': [[1], []], 'Mapping': [{}, {'q': 1}],
           'MutableMapping': [{}, {'q': 1}], 'Set': [{1}, frozenset()], 'MutableSet': [{1}, set()],
           'Callable': [], 'Number': [1, 2.5, True], 'Complex': [1, 2.5], 'Real': [1, 2.5, False],
           'Rational': [3, True], 'Integral': [3, True, 0],
           'Color': [O('Color#RED'), O('Color#BLUE')], 'Level': [], 'Tagged': [O('Tagged#t1')], 'A0': [],
           'HasLabel': [O('Rec#a+label'), O('Rec#c+label+flag'), O('K0#n+label')],
           'Flagged': [O('Rec#f+flag'), O('Rec#c+label+flag')]}
POOL = [None, True, 0, 1, -1, 2.5, 'a', 'zz', '', [], [1, 'a'], (1,), (), {'a': 1}, {}, {1, 2}, frozenset({1}),
        [[1]], {'a': {'b': 2}}, Obj('o1'), O('Rec#b'), O('Rec#a+label'), O('Rec#f+flag'), O('Color#RED'),
        O('Tagged#t1'), 'red', 2]
PRED_WITNESS = {'is_pos': 3, 'is_str': 'x', 'always': 5, 'truthy': 1, 'len_lt3': 'ab', 'echo': 1, 'ret_one': 0,
                'never': 1, 'ret_none': 1, 'raises_value': 1, 'ret_zero': 2}


class NoWitness(Exception):
    pass


def hashable_spec(j):
    k = j['k']
    if k in ('list', 'set', 'dict', 'M', 'msub'):
        return False
    if k in ('tuple', 'fset'):
        return all(hashable_spec(c) for c in j['cs'])
    if k == 'lit':
        try:
            hash(dec_v(j['v']))
            return True
        except TypeError:
            return False
    return True


class PGen:
    def __init__(self, rng, type_names=None, samples=None, pool=None):
        self.rng = rng
        self.pid = 0
        self.type_names = type_names or TYPE_NAMES
        self.samples = samples or SAMPLES
        self.pool = pool or POOL

    def fresh(self):
        self.pid += 1
        return self.pid - 1

    def leaf(self):
        r = self.rng
        p = r.random()
        if p < 0.28:
            return {'k': 'lit', 'v': jv(r.choice(LITS))}
        if p < 0.6:
            return {'k': 'ty', 'n': r.choice(self.type_names)}
        if p < 0.7:
            return {'k': 'pred', 'id': self.fresh(),
                    'fn': r.choice(['is_pos', 'is_str', 'always', 'truthy', 'len_lt3', 'echo', 'never',
                                    'ret_none', 'raises_value'])}
        if p < 0.8:
            return self.regex()
        if p < 0.95:
            return {'k': 'mexpr', 'l': {'m': True}, 'op': r.choice(list(base.OPS)),
                    'r': {'c': jv(r.choice([0, 1, 5, 'a', 'm', None, 2.5]))}}
        if p < 0.965:
            # a Check inside a pattern: its CheckError is a rejection; sequence arguments as list / tuple;
            # validators that fail in every way, with and without a default
            kind = r.choice(['list', 'tuple'])
            return r.choice([
                lambda: {'k': 'check', 'instance_of': {'many': ['int', 'str'], 'as': kind}},
                lambda: {'k': 'check', 'type': {'many': ['int', 'bool'], 'as': kind}},
                lambda: {'k': 'check', 'one_of': [jv(1), jv('a')], 'one_of_as': kind},
                lambda: {'k': 'check', 'validate': {'one': {'id': self.fresh(), 'fn': r.choice(
                    ['raises_value', 'never', 'is_pos', 'ret_zero', 'ret_none'])}},
                    'd': r.choice([None, {'c': jv('cd')}, {'t': []}, {'val': jv(0)},
                                   {'seq': [{'t': []}], 'tuple': False}])},
                lambda: {'k': 'check', 'instance_of': {'one': 'Sized'}, 'd': {'c': jv([])}}])()
        if p < 0.98:
            # a T access inside a pattern: a GlomError that is not a MatchError when it fails
            return {'k': 't', 'e': [r.choice([{'s': 'a'}, {'i': 0}, {'s': 'zz'}])]}
        return {'k': 'M'}

    def regex(self):
        r = self.rng
        items = r.choice([
            [{'c': 'lower', 'p': True}], [{'c': 'digit', 'p': True}],
            [{'c': {'lit': 'a'}, 'p': False}, {'c': 'any', 'p': False}, {'c': {'lit': 'c'}, 'p': False}],
            [{'c': 'notAt', 'p': True}, {'c': {'lit': '@'}, 'p': False}, {'c': 'notAt', 'p': True}],
            [{'c': 'lower', 'p': True}, {'c': 'digit', 'p': True}],
            [{'c': {'lit': 'x'}, 'p': True}, {'c': 'lower', 'p': False}]])
        return {'k': 'regex', 'items': items, 'f': r.choice(['fullmatch', 'fullmatch', 'search', 'match'])}

    def pattern(self, depth, hashable=False):
        r = self.rng
        if depth <= 0 or r.random() < 0.22:
            while True:
                j = self.leaf()
                if not hashable or hashable_spec(j):
                    return j
        kinds = ['list', 'list', 'tuple', 'tuple', 'dict', 'dict', 'dict', 'set', 'fset', 'and', 'or', 'not', 'match']
        if hashable:
            kinds = ['tuple', 'fset', 'and', 'or', 'not']
        k = r.choice(kinds)
        if k == 'list':
            return {'k': 'list', 'cs': [self.pattern(depth - 1) for _ in range(r.choice([0, 1, 1, 2, 3]))]}
        if k in ('set', 'fset'):
            return {'k': k, 'cs': [self.pattern(min(depth - 1, 1), hashable=True)
                                   for _ in range(r.choice([0, 1, 1, 2]))]}
        if k == 'tuple':
            return {'k': 'tuple', 'cs': [self.pattern(depth - 1, hashable) for _ in range(r.choice([0, 1, 2, 2, 3]))]}
        if k == 'dict':
            return self.dict_pattern(depth)
        if k == 'and':
            t = r.choice(['int', 'str', 'object', 'float', 'Integral', 'Sized', 'Hashable', 'Real'])
            cs = [{'k': 'ty', 'n': t}]
            for _ in range(r.choice([1, 1, 2])):
                if t in ('str', 'Sized'):
                    cs.append(r.choice([self.regex(), {'k': 'mexpr', 'l': {'m': True}, 'op': 'ne', 'r': {'c': jv('zz')}},
                                        {'k': 'pred', 'id': self.fresh(), 'fn': 'len_lt3'}]))
                else:
                    cs.append(r.choice([{'k': 'mexpr', 'l': {'m': True}, 'op': r.choice(['gt', 'ge', 'ne']),
                                         'r': {'c': jv(r.choice([0, -5]))}},
                                        {'k': 'pred', 'id': self.fresh(), 'fn': 'is_pos'},
                                        self.pattern(depth - 1, hashable)]))
            r.shuffle(cs)
            if r.random() < 0.3:
                # a child that is not the last one and yields something other than the target (a nested
                # Match / Or / And falling back on its default): every child still sees the ORIGINAL target
                inner = r.choice([
                    {'k': 'match', 's': self.pattern(min(depth - 1, 1)), 'd': {'c': jv(r.choice(['inner', 0, -7]))}},
                    {'k': 'or', 'cs': [self.pattern(min(depth - 1, 1), hashable)], 'd': {'c': jv(r.choice([None, 'alt', 3]))}},
                    {'k': 'and', 'cs': [{'k': 'ty', 'n': r.choice(['int', 'str', 'dict'])}], 'd': {'c': jv(r.choice(['dflt', 1]))}}])
                if not hashable or hashable_spec(inner):
                    cs.insert(r.randrange(len(cs)), inner)
            d = r.choice([None, None, None, None, {'c': jv('dflt')}])
            return {'k': 'and', 'cs': cs, 'd': d}
        if k == 'or':
            d = r.choice([None, None, None, None, {'c': None}])
            return {'k': 'or', 'cs': [self.pattern(depth - 1, hashable) for _ in range(r.choice([1, 2, 2, 3]))], 'd': d}
        if k == 'not':
            return {'k': 'not', 'c': self.pattern(depth - 1, hashable)}
        return {'k': 'match', 's': self.pattern(depth - 1),
                'd': r.choice([None, {'c': jv('inner')}, {'t': []}, {'t': [{'s': 'zz'}]}])}

    def dict_pattern(self, depth):
        r = self.rng
        es = []
        used = []
        for _ in range(r.choice([0, 1, 2, 2, 3, 4])):
            p = r.random()
            val = self.pattern(depth - 1)
            if p < 0.35:
                k = r.choice(['a', 'b', 'c', 1, 2, 'id'])
                if k in used:
                    continue
                used.append(k)
                es.append(['plain', {'k': 'lit', 'v': jv(k)}, val])
            elif p < 0.55:
                tn = r.choice(['str', 'int', 'object', 'str', 'int', 'object', 'Hashable', 'Sized', 'Integral',
                               'Sequence', 'HasLabel', 'Color'])
                if ('ty', tn) in used:
                    continue
                used.append(('ty', tn))
                es.append(['plain', {'k': 'ty', 'n': tn}, val])
            elif p < 0.72:
                k = r.choice(['a', 'b', 'o', 3, 1, 0, ('t', 1)])
                if k in used:
                    continue
                used.append(k)
                q = r.random()
                d = None
                if q < 0.4:
                    d = {'c': jv(r.choice([0, 'dv', None, [1], {'n': (1,)}]))}
                elif q < 0.47:
                    d = {'val': jv(r.choice([0, 'dv', [1]]))}
                elif q < 0.53:
                    d = {'seq': [{'c': jv(r.choice([0, 'x']))} for _ in range(r.choice([1, 2]))],
                         'tuple': r.random() < 0.5}
                elif q < 0.58:
                    d = {'seq': [{'c': jv(1)}, {'t': [{'s': r.choice(['a', 'zz'])}]}], 'tuple': r.random() < 0.5}
                elif q < 0.66:
                    d = {'t': [{'s': r.choice(['a', 'zz'])}]}
                es.append([{'opt': d}, {'k': 'lit', 'v': jv(k)}, val])
            elif p < 0.82:
                ks = r.choice([{'k': 'ty', 'n': 'str'}, {'k': 'ty', 'n': 'int'}, {'k': 'ty', 'n': 'Integral'},
                               {'k': 'ty', 'n': 'Flagged'},
                               {'k': 'and', 'cs': [{'k': 'ty', 'n': 'str'},
                                                   {'k': 'mexpr', 'l': {'m': True}, 'op': 'ne', 'r': {'c': jv('zz')}}],
                                'd': None},
                               {'k': 'lit', 'v': jv('lit')}])           # Required(literal): ValueError
                es.append(['req', ks, val])
            elif p < 0.92:
                ks = r.choice([{'k': 'tuple', 'cs': [{'k': 'lit', 'v': jv('t')}, {'k': 'ty', 'n': 'int'}]},
                               {'k': 'tuple', 'cs': [{'k': 'lit', 'v': jv('p')}, {'k': 'lit', 'v': jv(1)}]},
                               {'k': 'and', 'cs': [{'k': 'ty', 'n': 'str'},
                                                   {'k': 'mexpr', 'l': {'m': True}, 'op': 'ne', 'r': {'c': jv('a')}}],
                                'd': None},
                               self.regex(),
                               {'k': 'fset', 'cs': [{'k': 'lit', 'v': jv(1)}, {'k': 'lit', 'v': jv(2)}]}])
                es.append(['plain', ks, val])
            elif p < 0.96:
                es.append(['plain', {'k': 'pred', 'id': self.fresh(), 'fn': r.choice(['is_str', 'is_pos'])}, val])
            else:
                es.append([{'opt': None}, {'k': 'ty', 'n': 'int'}, val])    # Optional(type): ValueError
        # keys hashed by value (literals, types, tuples / frozensets of them) must be distinct
        seen, out = set(), []
        for kind, ks, vs in es:
            if ks['k'] in ('lit', 'ty', 'tuple', 'fset'):
                sig = (json.dumps(kind, sort_keys=True) if kind == 'req' else 'k', json.dumps(ks, sort_keys=True))
                if sig in seen:
                    continue
                seen.add(sig)
            out.append([kind, ks, vs])
        return {'k': 'dict', 'es': out}

    # ------------------------------------------------------------ witnesses
    def regex_witness(self, j):
        r = self.rng
        out = ''
        for it in j['items']:
            c = it['c']
            n = r.choice([1, 2, 3]) if it['p'] else 1
            for _ in range(n):
                if c == 'lower':
                    out += r.choice('abxyz')
                elif c == 'digit':
                    out += r.choice('0159')
                elif c == 'notAt':
                    out += r.choice('ab.1')
                elif c == 'any':
                    out += r.choice('a1-@')
                else:
                    out += c['lit']
        return out

    def conforming(self, j):
        r = self.rng
        k = j['k']
        if k == 'lit':
            return dec_v(j['v'])
        if k == 'ty':
            if not self.samples.get(j['n']):
                raise NoWitness(j['n'])
            return copy.deepcopy(r.choice(self.samples[j['n']]))
        if k == 'pred':
            return PRED_WITNESS.get(j['fn'], 1)
        if k == 'regex':
            return self.regex_witness(j)
        if k == 'M':
            return r.choice([1, 'x', [0]])
        if k == 'check':
            return r.choice([3, 1, 'a', 'ab'])
        if k == 't':
            key = dec_v(j['e'][0])
            return {key: 1} if isinstance(key, str) else [5]
        if k == 'mexpr':
            c = dec_v(j['r']['c'])
            op = j['op']
            if op in ('eq', 'ge', 'le'):
                return c
            if op == 'ne':
                return r.choice([9, 'other'])
            if isinstance(c, (int, float)) and not isinstance(c, bool):
                return c + 1 if op == 'gt' else c - 1
            if isinstance(c, str):
                return c + 'z' if op == 'gt' else ''
            return 1
        if k == 'list':
            if not j['cs']:
                return []
            return [self.conforming(r.choice(j['cs'])) for _ in range(r.choice([0, 1, 2, 3]))]
        if k in ('set', 'fset'):
            items = []
            if j['cs']:
                for _ in range(r.choice([0, 1, 2, 3])):
                    v = self.conforming(r.choice(j['cs']))
                    try:
                        hash(v)
                        items.append(v)
                    except TypeError:
                        pass
            return set(items) if k == 'set' else frozenset(items)
        if k == 'tuple':
            return tuple(self.conforming(c) for c in j['cs'])
        if k == 'dict':
            out = {}
            for kind, ks, vs in j['es']:
                if kind == 'plain' and ks['k'] == 'lit':
                    keys = [dec_v(ks['v'])]
                elif isinstance(kind, dict):
                    keys = [dec_v(ks['v'])] if ks['k'] == 'lit' and r.random() < 0.5 else []
                elif kind == 'req':
                    keys = [self.conforming(ks)]
                else:
                    keys = [self.conforming(ks) for _ in range(r.choice([0, 1, 1, 2]))]
                # a target key that IS the key pattern object - the class itself for a type key, the function
                # itself for a callable key: it is judged by the key pattern like any other key (the class
                # `str` is no instance of str)
                if not isinstance(kind, dict) and r.random() < 0.3:
                    if ks['k'] == 'ty' and ks['n'] not in ('Color', 'Level'):
                        keys = keys + [base.TYPES[ks['n']]]
                    elif ks['k'] == 'pred':
                        ks['form'] = 'fn'
                        keys = keys + [base.make_pred(ks['id'], ks['fn'], 'fn')]
                for key in keys:
                    try:
                        hash(key)
                    except TypeError:
                        continue
                    if key not in out:
                        out[key] = self.conforming(vs)
            return out
        if k == 'and':
            return self.conforming(r.choice([c for c in j['cs'] if c['k'] != 'ty'] or j['cs']))
        if k == 'or':
            return self.conforming(r.choice(j['cs']))
        if k == 'not':
            return copy.deepcopy(r.choice(self.pool))
        if k == 'match':
            return self.conforming(j['s'])
        raise NoWitness(k)


# ------------------------------------------------------------------ one-edit mutations of a target
def paths(v, pre=()):
    yield pre
    if isinstance(v, dict) and 'sub' in v:
        return                     # (a subclass instance is edited as a whole)
    if isinstance(v, dict):
        if 'l' in v or 't' in v or 'set' in v or 'fs' in v:
            key = [x for x in ('l', 't', 'set', 'fs') if x in v][0]
            for i, x in enumerate(v[key]):
                yield from paths(x, pre + ((key, i),))
        elif 'd' in v:
            for i, (k, x) in enumerate(v['d']):
                yield from paths(x, pre + (('d', i),))


def get_at(v, path):
    for key, i in path:
        v = v[key][i][1] if key == 'd' else v[key][i]
    return v


def set_at(v, path, new):
    if not path:
        return new
    v = copy.deepcopy(v)
    cur = v
    for key, i in path[:-1]:
        cur = cur[key][i][1] if key == 'd' else cur[key][i]
    key, i = path[-1]
    if key == 'd':
        cur[key][i][1] = new
    else:
        cur[key][i] = new
    return v


def equiv(j):
    """a value that is == but of another type (1 / True / 1.0, 0 / False / 0.0, 3 / 3.0), or None"""
    try:
        v = dec_v(j)
    except Exception:
        return None
    if isinstance(v, bool):
        return jv(int(v))
    if isinstance(v, int):
        return jv(float(v)) if v not in (0, 1) else jv(bool(v))
    if isinstance(v, float) and v == int(v):
        return jv(int(v))
    return None


SUBCLASS_OF = {'d': 'MyDict', 'l': 'MyList', 't': 'MyTuple', 'set': 'MySet', 'fs': 'MyFset', 's': 'MyStr'}
SUB_POOL_J = [{'sub': 'MyDict', 'v': {'d': [[{'s': 'a'}, {'i': 1}]]}}, {'sub': 'MyDict', 'v': {'d': []}},
              {'sub': 'MyList', 'v': {'l': [{'i': 1}, {'s': 'a'}]}}, {'sub': 'MyList', 'v': {'l': []}},
              {'sub': 'MyTuple', 'v': {'t': [{'i': 1}]}}, {'sub': 'MySet', 'v': {'set': [{'i': 1}]}},
              {'sub': 'MyFset', 'v': {'fs': [{'i': 1}]}}, {'sub': 'MyStr', 'v': {'s': 'ab'}},
              {'sub': 'MyStr', 'v': {'s': ''}}]


def to_subclass(rng, tj):
    """the same value with the node at a random position replaced by an instance of a user SUBCLASS of
    its builtin class holding the same content (dict / list / tuple / set / frozenset / str), or None"""
    cands = []
    for path in paths(tj):
        node = get_at(tj, path)
        if isinstance(node, dict) and 'sub' not in node:
            k = [x for x in SUBCLASS_OF if x in node]
            if k:
                cands.append((path, k[0]))
    if not cands:
        return None
    path, k = rng.choice(cands)
    return set_at(tj, path, {'sub': SUBCLASS_OF[k], 'v': get_at(tj, path)})


def edit(rng, tj):
    """one edit at a random position of a V json"""
    ps = list(paths(tj))
    path = rng.choice(ps)
    node = get_at(tj, path)
    scalars = [jv(x) for x in (0, 1, 'q', None, 2.5, True, '')]
    if isinstance(node, dict) and 'd' in node:
        ch = rng.random()
        d = copy.deepcopy(node['d'])
        if ch < 0.3 and d:
            del d[rng.randrange(len(d))]
        elif ch < 0.5 and d:
            # change one key: to an equal value of another type, or to another key
            i = rng.randrange(len(d))
            e = equiv(d[i][0])
            d[i][0] = e if e is not None and rng.random() < 0.7 else jv(rng.choice(['a', 'b', 1, 3, 'k9']))
        elif ch < 0.8:
            d.append([jv(rng.choice(['zz', 99, 'b'])), jv(rng.choice([1, 'v', None]))])
        else:
            return set_at(tj, path, {'l': [kv[0] for kv in d]})
        # keys must stay distinct
        seen, out = [], []
        for k, x in d:
            if k not in seen:
                seen.append(k)
                out.append([k, x])
        return set_at(tj, path, {'d': out})
    if isinstance(node, dict) and any(x in node for x in ('l', 't', 'set', 'fs')):
        key = [x for x in ('l', 't', 'set', 'fs') if x in node][0]
        items = copy.deepcopy(node[key])
        ch = rng.random()
        if ch < 0.3 and items:
            del items[rng.randrange(len(items))]
            return set_at(tj, path, {key: items})
        if ch < 0.65:
            new = rng.choice(scalars)
            if key in ('set', 'fs') and new in items:
                return set_at(tj, path, {key: items[:-1]})
            items.insert(rng.randrange(len(items) + 1), new)
            return set_at(tj, path, {key: items})
        swap = {'l': 't', 't': 'l', 'set': 'fs', 'fs': 'set'}[key]
        return set_at(tj, path, {swap: items})
    # a string: one more character (a prefix still matches, the whole string does not)
    if isinstance(node, dict) and 's' in node and rng.random() < 0.4:
        return set_at(tj, path, {'s': node['s'] + rng.choice(['!', '1', 'a', '@'])})
    # scalar: an equal value of another type, or another scalar (usually of another type)
    e = equiv(node)
    if e is not None and rng.random() < 0.35:
        return set_at(tj, path, e)
    cands = [s for s in scalars if s != node]
    new = rng.choice(cands)
    # inside a set the replacement must stay hashable and distinct - scalars are
    return set_at(tj, path, new)


def valid_v(tj):
    """set members / dict keys hashable and distinct (decodable as Python)"""
    try:
        dec_v(tj)
        v = dec_v(tj)
        return json.dumps(enc_sorted(enc_v(v))) == json.dumps(enc_sorted(tj))
    except TypeError:
        return False


def enc_sorted(j):
    if isinstance(j, dict):
        for key in ('set', 'fs'):
            if key in j:
                return {key: sorted((enc_sorted(x) for x in j[key]), key=json.dumps)}
        if 'd' in j:
            return {'d': [[enc_sorted(k), enc_sorted(v)] for k, v in j['d']]}
        for key in ('l', 't'):
            if key in j:
                return {key: [enc_sorted(x) for x in j[key]]}
    return j


# ------------------------------------------------------------------ building specs (with observed set order)
def build3(j):
    """(python spec object, fin) - `fin(res)` gives the spec json with set / frozenset members in the
    order CPython iterates them IN THE OBJECT THAT IS USED: `res(o)` maps an object built here to the
    object standing for it there (identity, or the memo of the copy.deepcopy that was applied)"""
    from glom import And, Or, Not, Switch, Match, Optional, Required
    k = j['k']
    if k in ('and', 'or'):
        parts = [build3(c) for c in j['cs']]
        cls = And if k == 'and' else Or
        objs = [p[0] for p in parts]
        o = cls(*objs, default=base.build_arg(j['d'])) if j.get('d') is not None else cls(*objs)
        return o, lambda res: dict(j, cs=[p[1](res) for p in parts])
    if k == 'not':
        o, b = build3(j['c'])
        return Not(o), lambda res: dict(j, c=b(res))
    if k == 'switch':
        cases = [(build3(a), build3(b)) for a, b in j['cases']]
        objs = [(a[0], b[0]) for a, b in cases]
        o = Switch(objs, default=base.build_arg(j['d'])) if j.get('d') is not None else Switch(objs)
        return o, lambda res: dict(j, cases=[[a[1](res), b[1](res)] for a, b in cases])
    if k == 'match':
        o, b = build3(j['s'])
        m = Match(o, default=base.build_arg(j['d'])) if j.get('d') is not None else Match(o)
        return m, lambda res: dict(j, s=b(res))
    if k == 'list':
        parts = [build3(c) for c in j['cs']]
        return [p[0] for p in parts], lambda res: dict(j, cs=[p[1](res) for p in parts])
    if k == 'tuple':
        parts = [build3(c) for c in j['cs']]
        return tuple(p[0] for p in parts), lambda res: dict(j, cs=[p[1](res) for p in parts])
    if k in ('set', 'fset'):
        parts = [build3(c) for c in j['cs']]
        objs = [p[0] for p in parts]
        s = set(objs) if k == 'set' else frozenset(objs)

        def fin(res):
            order = []
            used = set()
            for member in res(s):
                idx = next((i for i, o in enumerate(objs) if i not in used and res(o) is member), None)
                if idx is None:
                    # an atom the copy rebuilt (equal, same type)
                    idx = next(i for i, o in enumerate(objs)
                               if i not in used and type(o) is type(member) and o == member)
                used.add(idx)
                order.append(parts[idx][1](res))
            return dict(j, cs=order)
        return s, fin
    if k == 'dict':
        out = {}
        es = []
        for kind, ks, vs in j['es']:
            ko, kb = build3(ks)
            vo, vb = build3(vs)
            if kind == 'req':
                key = Required(ko)
            elif kind != 'plain':
                key = Optional(ko, default=base.build_arg(kind['opt'])) if kind.get('opt') is not None else Optional(ko)
            else:
                key = ko
            if key in out:
                raise DuplicateKey()
            out[key] = vo
            es.append([kind, kb, vb])
        return out, lambda res: dict(j, es=[[kind, kb(res), vb(res)] for kind, kb, vb in es])
    return base.build_spec(j), lambda res: j


def build2(j):
    """(python spec object, spec json with set / frozenset members in the order CPython iterates them)"""
    o, fin = build3(j)
    return o, fin(lambda x: x)


class DuplicateKey(Exception):
    pass


def run_impl(case):
    import glom
    out = {k: v for k, v in case.items()
           if not k.startswith('impl') and k not in ('spec_built', 'target_built', 'targets_built', 'hist_built',
                                                     'copy_used')}
    base.new_world(case.get('world'))
    multi = 'targets' in case or 'hist' in case
    try:
        pobj, fin = build3(case['spec'])
        m = glom.Match(pobj, default=base.build_arg(case['default'])) if case.get('default') is not None \
            else glom.Match(pobj)
    except DuplicateKey:
        raise
    except Exception as e:
        out['spec_built'] = None
        if 'hist' in case:
            out['impl_hist'] = [{'ctor': type(e).__name__}]
            out['hist_built'] = case['hist']
        elif 'targets' in case:
            out['impl_seq'] = [{'ctor': type(e).__name__}]
            out['targets_built'] = case['targets']
        else:
            out['impl'] = {'ctor': type(e).__name__}
            out['target_built'] = None
        return out
    # the Match object that is used: the one built, or a copy of it
    built_m = m
    m, res, used = apply_copy(case.get('copy'), m, [case['spec'], case.get('default')])
    if case.get('copy') == 'pickle' and used != 'pickle' and not _has_kind(case['spec'], ('set', 'fset')):
        # Match(p) itself holds boltons' unpicklable marker object; a PATTERN that went through a pickle
        # round trip before it was wrapped in Match (a stored schema) is the next best thing
        import pickle
        try:
            inner = pickle.loads(pickle.dumps(pobj))
            m = glom.Match(inner, default=base.build_arg(case['default'])) if case.get('default') is not None \
                else glom.Match(inner)
            res, used = (lambda x: x), 'pickle-inner'
        except Exception:
            pass
    if used is not None:
        out['copy_used'] = used
    out['spec_built'] = fin(res)
    def full(target):
        """one call observed in full: glom(), verify(), matches(), snapshot of the target afterwards"""
        o = {'main': base.observe(lambda: glom.glom(target, m), target),
             'verify': base.observe(lambda: m.verify(target), target)}
        del base.LOG[:]
        try:
            o['matches'] = bool(m.matches(target))
        except Exception:
            o['matches'] = None
        try:
            o['after'] = enc_v(target)
        except base.Unencodable:
            o['after'] = {'obj': 'unencodable'}
        return o
    if 'hist' in case:
        # ONE Match object; calls and `abc.register(cls)` in the order given
        hb, seq = [], []
        for st in case['hist']:
            if 'register' in st:
                a, k = st['register']
                base.TYPES[a].register(base.TYPES[k])
                hb.append(st)
                seq.append(None)
            else:
                t = dec_v(st['call'])
                hb.append({'call': enc_v(t)})
                seq.append(full(t))
        out['hist_built'] = hb
        out['impl_hist'] = seq
        return out
    if 'targets' in case:
        # ONE Match object, consecutive calls: each call must decide its own target
        tb, seq = [], []
        for tj in case['targets']:
            t = dec_v(tj)
            tb.append(enc_v(t))
            seq.append(full(t))
        out['targets_built'] = tb
        out['impl_seq'] = seq
        return out
    target = dec_v(case['target'])
    out['target_built'] = enc_v(target)
    o = full(target)
    out['impl'] = o['main']
    out['impl_verify'] = o['verify']
    out['impl_matches'] = o['matches']
    out['impl_after'] = o['after']
    return out


# ------------------------------------------------------------------ generation
L = lambda v: {'k': 'lit', 'v': jv(v)}
T = lambda n: {'k': 'ty', 'n': n}


def corpus_cases():
    """fixed cases: the documented examples and the subtle corners"""
    L = lambda v: {'k': 'lit', 'v': jv(v)}
    T = lambda n: {'k': 'ty', 'n': n}
    cases = [
        ({'k': 'list', 'cs': [{'k': 'dict', 'es': [['plain', L('id'), T('int')], ['plain', L('email'), T('str')]]}]},
         [{'id': 1, 'email': 'a@b'}, {'id': 2, 'email': 'c@d'}]),
        ({'k': 'dict', 'es': [['plain', T('str'), T('int')], ['plain', L('a'), T('str')]]}, {'a': 'x'}),
        ({'k': 'dict', 'es': [['plain', L('a'), T('str')], ['plain', T('str'), T('int')]]}, {'a': 'x'}),
        ({'k': 'list', 'cs': []}, []), ({'k': 'list', 'cs': []}, [1]),
        ({'k': 'set', 'cs': []}, set()), ({'k': 'set', 'cs': [T('int')]}, frozenset({1})),
        ({'k': 'dict', 'es': [['req', T('str'), T('int')]]}, {}),
        ({'k': 'dict', 'es': [['plain', T('object'), T('object')]]}, {}),
        ({'k': 'dict', 'es': [[{'opt': {'c': jv('')}}, L('name'), T('str')]]}, {}),
        ({'k': 'dict', 'es': [[{'opt': {'t': [{'s': 'zz'}]}}, L('name'), T('str')]]}, {}),
        ({'k': 'dict', 'es': [['plain', {'k': 'pred', 'id': 0, 'fn': 'is_str'}, T('int')]]}, {}),
        ({'k': 'dict', 'es': [['plain', L(1), T('int')]]}, {True: 1}),
        (L(1), 1.0), (L(1), True), (T('int'), True), (T('int'), 1.0),
        ({'k': 'tuple', 'cs': [T('int'), T('str')]}, (1, 'a')), ({'k': 'tuple', 'cs': [T('int'), T('str')]}, [1, 'a']),
        ({'k': 'tuple', 'cs': [T('int')]}, (1, 2)),
        ({'k': 'list', 'cs': [T('int'), L('b')]}, [1, 'a']),
        ({'k': 'mexpr', 'l': {'m': True}, 'op': 'gt', 'r': {'c': jv('a')}}, 1),
        ({'k': 'dict', 'es': [['req', L('a'), T('int')]]}, {}),
        ({'k': 'dict', 'es': [[{'opt': None}, T('int'), T('int')]]}, {}),
    ]
    for spec, tgt in cases:
        yield {'spec': spec, 'default': None, 'target': jv(tgt)}
        yield {'spec': spec, 'default': {'c': jv('D')}, 'target': jv(tgt)}
    # the truth table of the type rule: every type atom of the catalogue x every pool value
    for n in CONCRETE_TYPE_NAMES + base.META_TYPE_NAMES + base.INSTANCE_DEPENDENT + ['K0', 'Rec']:
        for v in POOL + [O('K0#k'), O('K1#k')]:
            yield {'spec': T(n), 'default': None, 'target': jv(v), 'world': [['K1', 'K0']]}
    for n in ('dict', 'list', 'tuple', 'set', 'frozenset', 'str', 'object', 'Mapping', 'Sequence', 'Sized',
              'Hashable', 'MyDict', 'MyStr', 'MyList'):
        for sj in SUB_POOL_J:
            yield {'spec': T(n), 'default': None, 'target': sj}
    # container patterns / Regex / literals on instances of SUBCLASSES of the container / str
    for spec in ({'k': 'dict', 'es': [['plain', T('str'), T('int')]]}, {'k': 'list', 'cs': [T('int'), T('str')]},
                 {'k': 'tuple', 'cs': [T('int')]}, {'k': 'set', 'cs': [T('int')]}, {'k': 'fset', 'cs': [T('int')]},
                 {'k': 'regex', 'items': [{'c': 'lower', 'p': True}], 'f': 'fullmatch'}, L('ab'), {'k': 'tuple', 'cs': [L(1)]},
                 {'k': 'dict', 'es': [[{'opt': {'c': jv(0)}}, L('n'), T('int')], ['plain', T('object'), T('object')]]},
                 {'k': 'mexpr', 'l': {'m': True}, 'op': 'ge', 'r': {'c': jv('a')}},
                 {'k': 'pred', 'id': 0, 'fn': 'len_lt3'}, {'k': 'pred', 'id': 0, 'fn': 'is_str'}):
        for sj in SUB_POOL_J:
            yield {'spec': spec, 'default': None, 'target': sj}
            yield {'spec': {'k': 'list', 'cs': [spec]}, 'default': None, 'target': {'l': [sj, sj['v']]}}
    # two instances of one class, an instance-dependent type: in one call, and in consecutive calls
    for n, attr in (('HasLabel', 'label'), ('Flagged', 'flag')):
        a, b = O('Rec#a+' + attr), O('Rec#b')
        for ts in ([a, b], [b, a], [a, b, a]):
            yield {'spec': {'k': 'list', 'cs': [T(n)]}, 'default': None, 'target': jv(list(ts))}
            yield {'spec': T(n), 'default': None, 'targets': [jv(t) for t in ts]}
    # a class registered as a virtual subclass after a first, failed, match
    yield {'spec': T('A0'), 'default': None, 'world': [['K1', 'K0']],
           'hist': [{'call': jv(O('K1#x'))}, {'register': ['A0', 'K0']}, {'call': jv(O('K1#x'))},
                    {'call': jv(O('K2#y'))}, {'register': ['A0', 'int']}, {'call': jv(True)}, {'call': jv('s')}]}
    yield {'spec': {'k': 'dict', 'es': [['plain', L('shapes'), {'k': 'list', 'cs': [T('A0')]}]]}, 'default': None,
           'hist': [{'register': ['A0', 'K0']}, {'call': jv({'shapes': [O('K0#c'), O('K2#s')]})},
                    {'register': ['A0', 'K2']}, {'call': jv({'shapes': [O('K0#c'), O('K2#s')]})}]}
    # target keys that ARE the key pattern object (class objects, function objects)
    fpred = {'k': 'pred', 'id': 0, 'fn': 'is_str', 'form': 'fn'}
    tpred = {'k': 'pred', 'id': 1, 'fn': 'truthy', 'form': 'fn'}
    for kind in ('plain', 'req'):
        for tn in ('str', 'int', 'object', 'Hashable', 'Mapping', 'HasLabel', 'K0'):
            for vt in ('int', 'object'):
                yield {'spec': {'k': 'dict', 'es': [[kind, T(tn), T(vt)]]}, 'default': None,
                       'target': {'d': [[{'obj': 'type#' + tn}, jv(1)]]}}
                yield {'spec': {'k': 'list', 'cs': [{'k': 'dict', 'es': [[kind, T(tn), T(vt)], ['plain', L('a'), T('int')]]}]},
                       'default': None, 'target': {'l': [{'d': [[{'obj': 'type#' + tn}, jv(1)], [jv('a'), jv(2)]]}]}}
        for pr, tag in ((fpred, 'function#is_str_0'), (tpred, 'function#truthy_1')):
            yield {'spec': {'k': 'dict', 'es': [[kind, pr, T('int')]]}, 'default': None,
                   'target': {'d': [[{'obj': tag}, jv(1)]]}}
            yield {'spec': {'k': 'dict', 'es': [[kind, pr, T('int')]]}, 'default': None,
                   'targets': [{'d': [[{'obj': tag}, jv(1)]]}, {'d': [[jv('s'), jv(1)]]}, {'d': []}]}
    # evaluations that FAULT (a comparison between incomparable values) at several positions: glom() and
    # verify() raise it, matches() answers False
    gt0 = {'k': 'mexpr', 'l': {'m': True}, 'op': 'gt', 'r': {'c': jv(0)}}
    for spec in (gt0, {'k': 'dict', 'es': [['plain', L('n'), {'k': 'mexpr', 'l': {'m': True}, 'op': 'ge', 'r': {'c': jv(1)}}]]},
                 {'k': 'list', 'cs': [gt0]}, {'k': 'tuple', 'cs': [gt0, T('object')]},
                 {'k': 'and', 'cs': [gt0, T('str')], 'd': None}, {'k': 'or', 'cs': [gt0, T('str')], 'd': None},
                 {'k': 'not', 'c': gt0}, {'k': 'set', 'cs': [{'k': 'val', 'v': jv([1])}]},
                 {'k': 'dict', 'es': [['plain', gt0, T('int')]]}):
        for tgt in ('a', None, {'n': None}, ['a'], ('a', 1), {1}, {'k': 1}, 3):
            yield {'spec': spec, 'default': None, 'target': jv(tgt)}
            yield {'spec': spec, 'default': {'c': jv('D')}, 'target': jv(tgt)}
        yield {'spec': spec, 'default': None, 'targets': [jv('a'), jv(3), jv({'n': None}), jv(['a'])]}
    # callables without __name__ (callable instance, functools.partial) at every kind of position
    for form in base.PRED_FORMS:
        for fn in ('never', 'raises_value', 'ret_none', 'is_pos', 'always'):
            pr = {'k': 'pred', 'id': 0, 'fn': fn, 'form': form}
            for tgt in (3, -1, 'x'):
                yield {'spec': pr, 'default': None, 'target': jv(tgt)}
                yield {'spec': {'k': 'list', 'cs': [pr, T('str')]}, 'default': None, 'target': jv([tgt, 'y'])}
                yield {'spec': {'k': 'or', 'cs': [pr, T('int')], 'd': None}, 'default': None, 'target': jv(tgt)}
                yield {'spec': {'k': 'not', 'c': pr}, 'default': None, 'target': jv(tgt)}
                yield {'spec': {'k': 'dict', 'es': [['plain', pr, T('int')], ['plain', T('object'), T('object')]]},
                       'default': None, 'target': jv({tgt: 1})}
                yield {'spec': {'k': 'dict', 'es': [['plain', L('k'), pr]]}, 'default': {'c': jv('D')},
                       'target': jv({'k': tgt})}
                yield {'spec': {'k': 'tuple', 'cs': [pr, T('object')]}, 'default': None, 'target': jv((tgt, 0))}
    # copies of a pattern decide like the pattern
    for how in ('copy', 'deepcopy', 'pickle'):
        for spec, tgt in cases[:12]:
            yield {'spec': spec, 'default': None, 'target': jv(tgt), 'copy': how}
        yield {'spec': T('int'), 'default': None, 'target': jv('3'), 'copy': how}
        yield {'spec': T('int'), 'default': {'c': jv('n/a')}, 'target': jv('3'), 'copy': how}
        yield {'spec': {'k': 'list', 'cs': [{'k': 'or', 'cs': [T('int'), L('zero')], 'd': None}]}, 'default': None,
               'target': jv([1, 'zero', 2.5]), 'copy': how}
        yield {'spec': {'k': 'dict', 'es': [['plain', L('id'), T('int')], [{'opt': None}, L('tags'), T('list')],
                                            [{'opt': {'c': jv(0)}}, L('lvl'), T('int')]]}, 'default': None,
               'targets': [jv({'id': 1}), jv({'id': 'x'}), jv({'tags': []})], 'copy': how}


HIST_CLASSES = ['K0', 'K1', 'K2', 'Rec', 'int', 'str', 'list']


def hist_cases(rng, n, maxd):
    """ONE Match object; calls on instances of the same few classes - with and without the attribute an
    instance-dependent type looks at - and `abc.register(cls)` calls in between: a target is matched
    before and after its class (or a base of it) is registered.  Every call is judged against the
    type relation of its moment."""
    for _ in range(n):
        decl = [['K1', 'K0']] if rng.random() < 0.7 else []
        regs = []
        for _ in range(rng.choice([0, 1, 1, 1, 2, 2, 3])):
            rg = [rng.choice(['A0', 'A0', 'A1']), rng.choice(HIST_CLASSES[:4] * 3 + HIST_CLASSES)]
            if rg not in regs:
                regs.append(rg)
        insts = {'K0': [O('K0#x'), O('K0#n+label'), O('K0#f+flag')], 'K1': [O('K1#x'), O('K1#n+label')],
                 'K2': [O('K2#x'), O('K2#f+flag')], 'Rec': [O('Rec#b'), O('Rec#a+label'), O('Rec#f+flag')],
                 'int': [3, True, 0], 'str': ['x', ''], 'list': [[], [1]]}
        samples = dict(SAMPLES)
        for a in ('A0', 'A1'):
            samples[a] = [v for rg in regs if rg[0] == a for v in insts[rg[1]]] + \
                         ([v for v in insts['K1']] if [a, 'K0'] in regs and decl else [])
        for kname in ('K0', 'K1', 'K2', 'Rec'):
            samples[kname] = insts[kname] + (insts['K1'] if kname == 'K0' and decl else [])
        objs = [v for k in ('K0', 'K1', 'K2', 'Rec') for v in insts[k]]
        names = ['A0', 'A0', 'A1', 'HasLabel', 'HasLabel', 'Flagged', 'K0', 'K1', 'Rec', 'Hashable', 'object', 'int',
                 'str', 'Integral', 'Sized', 'Sequence', 'Tagged']
        g = PGen(rng, type_names=names, samples=samples, pool=POOL + objs)
        default = {'c': jv('D')} if rng.random() < 0.08 else None
        targets = []
        if rng.random() < 0.55:
            # the history revolves around ONE type atom (an ABC that gets registrations, or an
            # instance-dependent type) at a chosen position; the targets put every object there
            focus = T(rng.choice([rg[0] for rg in regs] * 3 + ['HasLabel', 'Flagged', 'A0']))
            other = g.pattern(rng.choice([0, 0, 1]))
            shape = rng.choice(['bare', 'list', 'dictval', 'dictkey', 'or', 'tuple', 'not', 'and', 'nested', 'set'])
            vals = objs + [3, 'x', [1]]
            rng.shuffle(vals)
            vals = vals[:rng.choice([4, 6, 8])] + [v for rg in regs if rg[0] == focus['n'] for v in insts[rg[1]][:2]]
            if shape == 'bare':
                spec, wrap = focus, lambda o: o
            elif shape == 'list':
                spec, wrap = {'k': 'list', 'cs': [focus]}, lambda o: [o, rng.choice(vals)]
            elif shape == 'dictval':
                spec, wrap = {'k': 'dict', 'es': [['plain', L('k'), focus]]}, lambda o: {'k': o}
            elif shape == 'dictkey':
                spec, wrap = {'k': 'dict', 'es': [['plain', focus, T('int')], ['plain', T('str'), T('str')]]}, \
                    lambda o: ({o: 1, 'z': 'v'} if base._hashable(o) else {'z': 'v'})
            elif shape == 'or':
                spec, wrap = {'k': 'or', 'cs': [focus, other], 'd': None}, lambda o: o
            elif shape == 'tuple':
                spec, wrap = {'k': 'tuple', 'cs': [focus, T('object')]}, lambda o: (o, 1)
            elif shape == 'not':
                spec, wrap = {'k': 'not', 'c': focus}, lambda o: o
            elif shape == 'and':
                spec, wrap = {'k': 'and', 'cs': [T('Hashable'), focus], 'd': None}, lambda o: o
            elif shape == 'set':
                spec, wrap = {'k': 'set', 'cs': [focus]}, lambda o: ({o} if base._hashable(o) else set())
            else:
                spec, wrap = {'k': 'dict', 'es': [['plain', T('str'), {'k': 'list', 'cs': [focus, T('int')]}]]}, \
                    lambda o: {'a': [o], 'b': [1, o]}
            for v in vals:
                try:
                    targets.append(jv(wrap(v)))
                except (base.Unencodable, TypeError):
                    pass
        else:
            spec = g.pattern(rng.choice(list(range(0, maxd))))
            if not _has_kind(spec, ('ty',)):
                spec = {'k': 'list', 'cs': [T(rng.choice(names[:6])), spec]} if rng.random() < 0.5 else \
                    {'k': 'or', 'cs': [T(rng.choice(names[:6])), spec], 'd': None}
            try:
                for _ in range(3):
                    tj = jv(g.conforming(spec))
                    targets.append(tj)
                    e = edit(rng, tj)
                    if valid_v(e):
                        targets.append(e)
            except (NoWitness, base.Unencodable, TypeError):
                pass
            for _ in range(3):
                targets.append(jv(rng.choice(objs + [3, 'x', [O('K1#x'), O('Rec#a+label'), O('Rec#b')]])))
        # every target before the registrations, in between, and afterwards
        calls = [{'call': t} for t in targets]
        steps = list(calls)
        rng.shuffle(steps)
        for rg in regs:
            steps.insert(rng.randrange(len(steps) + 1), {'register': rg})
            more = list(calls)
            rng.shuffle(more)
            steps += more[:rng.choice([2, 4, len(more)])]
        case = {'spec': spec, 'default': default, 'hist': steps[:40]}
        if decl:
            case['world'] = decl
        yield with_copy(rng, case, 0.15)


def with_copy(rng, case, p=0.2):
    """a fraction of the cases uses a copy of the Match object instead of the object itself"""
    if rng.random() < p:
        return dict(case, copy=rng.choice(['copy', 'deepcopy', 'deepcopy', 'pickle']))
    return case


def generate(rng, tier, scale, **focus):
    last = None
    for c in _generate(rng, tier, scale, **focus):
        # one choice of callable forms (named function / callable instance / functools.partial) per pattern
        sig = json.dumps(c['spec'], sort_keys=True)
        if last is None or last[0] != sig:
            last = (sig, base.vary_forms(rng, json.loads(sig)))
        yield dict(c, spec=last[1])


def _generate(rng, tier, scale, **focus):
    quick = tier == 'quick'
    n = (800 if quick else 30000) * scale
    maxd = 4 if quick else 5
    yield from corpus_cases()
    for _ in range(n):
        g = PGen(rng)
        spec = g.pattern(rng.choice(list(range(1, maxd + 1))))
        default = None
        q = rng.random()
        if q < 0.08:
            default = {'c': jv(rng.choice(['D', None, [0]]))}
        elif q < 0.1:
            default = rng.choice([{'val': jv('D')}, {'seq': [{'t': []}, {'c': jv(0)}], 'tuple': False},
                                  {'seq': [{'t': [{'s': 'a'}]}], 'tuple': True}])
        elif q < 0.14:
            default = {'t': rng.choice([[], [{'s': 'a'}], [{'i': 0}], [{'s': 'zz'}]])}
        targets = []
        try:
            for _ in range(2):
                tj = jv(g.conforming(spec))
                targets.append(tj)
                for _ in range(2):
                    e = edit(rng, tj)
                    if valid_v(e):
                        targets.append(e)
        except (NoWitness, base.Unencodable, TypeError):
            pass
        targets.append(jv(rng.choice(POOL)))
        # the same targets with a container / string replaced by an instance of a user subclass of its class
        for tj in list(targets[:3]):
            if rng.random() < 0.5:
                sj = to_subclass(rng, tj)
                if sj is not None:
                    targets.append(sj)
        if rng.random() < 0.15:
            targets.append(rng.choice(SUB_POOL_J))
        seen = set()
        uniq = []
        for t in targets:
            s = json.dumps(t, sort_keys=True)
            if s in seen:
                continue
            seen.add(s)
            uniq.append(t)
            yield with_copy(rng, {'spec': spec, 'default': default, 'target': t})
        if len(uniq) >= 2:
            # the same Match object on all these targets, one call after the other
            ts = list(uniq)
            rng.shuffle(ts)
            yield with_copy(rng, {'spec': spec, 'default': default, 'targets': ts})
    yield from hist_cases(rng, (120 if quick else 6000) * scale, maxd)


def corpus():
    p = os.path.join(os.path.dirname(os.path.dirname(os.path.dirname(os.path.abspath(__file__)))),
                     'corpus', 'C09.jsonl')
    out = []
    if os.path.exists(p):
        for line in open(p):
            if line.strip():
                out.append(json.loads(line))
    return out


def key(case):
    return {'spec': case['spec'], 'default': case.get('default'), 'target': case.get('target'),
            'targets': case.get('targets'), 'hist': case.get('hist'), 'world': case.get('world'),
            'copy': case.get('copy')}


def nontrivial(case, verdict):
    return base._count(case['spec'], lambda d: d.get('k') in ('list', 'set', 'fset', 'tuple', 'dict', 'and', 'or',
                                                             'not', 'match')) >= 1


def shrink(case):
    b = {k: v for k, v in case.items()
         if not k.startswith('impl') and k not in ('spec_built', 'target_built', 'targets_built', 'hist_built',
                                                   'copy_used')}
    if 'hist' in b:
        hs = b['hist']
        for cut in range(1, len(hs)):
            if 'call' in hs[cut - 1]:
                yield dict(b, hist=hs[:cut])
        for i in range(len(hs) - 1, -1, -1):
            if len(hs) > 1:
                yield dict(b, hist=hs[:i] + hs[i + 1:])
    if b.get('copy') is not None:
        yield {k: v for k, v in b.items() if k != 'copy'}
        if b['copy'] != 'copy':
            yield dict(b, copy='copy')
    if b.get('world'):
        yield {k: v for k, v in b.items() if k != 'world'}
    if 'targets' in b:
        ts = b['targets']
        for i in range(len(ts)):
            if len(ts) > 1:
                yield dict(b, targets=ts[:i] + ts[i + 1:])

    def variants(j):
        k = j.get('k')
        if k in ('list', 'set', 'fset', 'tuple'):
            for i in range(len(j['cs'])):
                yield dict(j, cs=j['cs'][:i] + j['cs'][i + 1:])
                yield j['cs'][i]
                for v in variants(j['cs'][i]):
                    yield dict(j, cs=j['cs'][:i] + [v] + j['cs'][i + 1:])
        elif k == 'dict':
            for i in range(len(j['es'])):
                yield dict(j, es=j['es'][:i] + j['es'][i + 1:])
                kind, ks, vs = j['es'][i]
                yield vs
                for v in variants(vs):
                    yield dict(j, es=j['es'][:i] + [[kind, ks, v]] + j['es'][i + 1:])
                for v in variants(ks):
                    yield dict(j, es=j['es'][:i] + [[kind, v, vs]] + j['es'][i + 1:])
        elif k == 'match':
            yield j['s']
            for v in variants(j['s']):
                yield dict(j, s=v)
        else:
            for c in base_variants(j):
                yield c

    def base_variants(j):
        k = j.get('k')
        if k in ('and', 'or'):
            for i in range(len(j['cs'])):
                if len(j['cs']) > 1:
                    yield dict(j, cs=j['cs'][:i] + j['cs'][i + 1:])
                yield j['cs'][i]
                for v in variants(j['cs'][i]):
                    yield dict(j, cs=j['cs'][:i] + [v] + j['cs'][i + 1:])
            if j.get('d') is not None:
                yield dict(j, d=None)
        elif k == 'not':
            yield j['c']
            for v in variants(j['c']):
                yield dict(j, c=v)

    for v in variants(b['spec']):
        yield dict(b, spec=v)
    if b.get('default') is not None:
        yield dict(b, default=None)
    if 'target' not in b:
        return
    t = b['target']
    for path in list(paths(t))[1:]:
        # drop the element at `path`
        parent = get_at(t, path[:-1])
        key, i = path[-1]
        items = copy.deepcopy(parent[key])
        del items[i]
        yield dict(b, target=set_at(t, path[:-1], {key: items}))
        sub = get_at(t, path)
        yield dict(b, target=sub)
