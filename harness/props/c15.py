"""C15 — Fold / Sum / Count / Flatten / Merge / flatten() / merge(): generators, implementation
runner (object graph in, identity-aware observation out), shrinker."""
import copy
import itertools
import json
import os
import random
import struct
import types
from collections import OrderedDict

PROP = 'C15'
LEAN_MODULES = ['Glom.Props.C15']
FACT_FILES = ['RedFacts', 'ExcFacts', 'C13Facts', 'c15']
READY = True
MANIFEST = dict(
    text="Lean 4 theorems about a heap model (objects with addresses) of glom/reduction.py and grouping.target_iter: for "
         "every closed heap, target, sub-spec, handler table and EVERY init / op meeting three stated laws (init "
         "allocates; op reads its operands only, mutates at most the accumulator, returns an immediate or a container "
         "of its own - proved for the catalogue +=, +, append, cons, update, first_wins, Count's lambda / int, float, "
         "str, list, tuple, dict, OrderedDict, Acc, a copying factory), Fold's `ret = init(); for v in it: ret = "
         "op(ret, v)` loop with in-place mutation of the accumulator object equals the pure functools.reduce "
         "(List.foldlM) over the ORIGINAL heap; Sum = left-to-right addition (ints exact, floats one IEEE-754 "
         "addition per step, Lean's Float model); eager Flatten = chain.from_iterable; lazy = eager value for value, "
         "and the lazy object is a pull machine that fetches a source item when and only when a value is wanted "
         "that the fetched ones cannot supply; flatten(levels=n, init) = n-fold join then Flatten(init), for every "
         "init; Merge = successive update, last writer wins (first writer with first_wins); no pre-existing object "
         "changes (frame), every container result is a newly allocated object distinct from all inputs and earlier "
         "results (fresh), later evaluations leave earlier results untouched; a target without an `iterate` handler "
         "is a FoldError (a GlomError) - and only that: an exception raised inside the loop, UnregisteredTarget "
         "included, propagates -, a raising handler a TypeError, a failing sub-spec comes first, a refused constructor evaluates nothing.  The target's "
         "iteration is the handler registered AT THE TIME OF THE CALL: for every class hierarchy, registry and "
         "interleaving of evaluations with register(cls, iterate=..., exact=...) calls and non-raising lookups, the code that exists "
         "(get_handler with its memo, shared registry model of C13) shows, evaluation by evaluation, the reference "
         "reduction over the memo-free answer of the tables of that moment.  Per-run facts obligation by `decide` on "
         "tables regenerated from /repo (default iterate answers of the registry built from the extracted "
         "registration sequences, the except-clauses of Fold.glomit and target_iter, that register() resets the "
         "memo, where init() is called, constructor defaults, the three _fold bodies, flatten()'s spec construction); "
         "model tied to the code by differential execution through the compiled Lean driver with identity-aware "
         "observations (input snapshot before/after, result-is-input, result-is-earlier-result) and, for the lazy "
         "objects, the count of what the source generator was asked for after every next().",
    note="trusted: Lean kernel + {propext, Classical.choice, Quot.sound}; extractor; harness/driver; what Python's "
         "`+=`, `+`, dict.update, iter(), chain.from_iterable and the harness's iterate handlers compute is modelled "
         "(pyOp/rawIter/runHandler) and validated by the correspondence only; the class hierarchy of a case "
         "(__mro__, isinstance, issubclass, auto-discovery) is Python's own answer, passed with the case as in C13; "
         "which registered type is nearest is C13's subject (C15's reference uses the memo-free lookup of the shared "
         "registry model); hypothesis `init allocates` (an init returning a shared object is the caller's aliasing); "
         "dict keys are scalars; a generator object is consumed at most once per case; inner iterables of a lazy "
         "chain are opened at once; ints mixed into float sums are below 2**53.",
    technique='Lean 4 refinement proof (heap-mutating loop = pure reduce, generic in init/op) + frame/freshness invariants '
              '+ memo-invisibility over registration histories (shared registry model) + pull-machine = reference for '
              'lazy chains (well-founded) + facts obligation by decide + differential correspondence',
    ref='DESIGN.md §3 C15')
RULE = ('type-directed: a prog (Fold/Sum/Count/Flatten eager+lazy/Merge/flatten(levels 0-10, also None / float / bool / '
        'an unexpected keyword)/merge(), init in {int,float,str,list,tuple,dict,OrderedDict,set,custom Acc(list) with '
        '__iadd__/update, a copying factory over a heap object, not callable, omitted}, op in {iadd,add,append,cons,'
        'list.extend,{**a,**b},an op raising UnregisteredTarget for non-sequences,update/extend/append/unknown method '
        'names,first_wins,an op WRITING TO ITS ELEMENT,not callable,omitted}) is drawn first, then targets whose '
        'element types fit it (ints/bools/floats incl. inf, nan, 1e16 and -0.0, strs, lists, tuples, dicts, nested to '
        'the flatten depth; containers list/tuple/dict/OrderedDict/generator/Acc, 5 % sets/frozensets of small ints '
        'and ranges, 4 % with 20-50 items; 12 % of the generators RAISE (UnregisteredTarget / ValueError) after some '
        'of their items; shared and self-containing sub-objects), optionally behind a T[...] sub-spec; 1-3 '
        'evaluations of the SAME spec object on the same or different targets; 30 % of the cases are registration '
        'histories: targets are instances of harness classes (Box/SubBox/SubSubBox iterable via __iter__, '
        'Bag/SubBag(list), Crate(Obj) not iterable) and 1-3 register(cls, iterate=h, exact=e) calls (cls: class of a '
        'target / a class above or below it / a builtin / object, _AbstractIterable; h in {reverse, tail, '
        'items-attribute, list, iter, raising, False, omitted}) and non-raising lookups get_handler(..., '
        'raise_exc=False) are placed before / between the evaluations, the same object evaluated again afterwards, on '
        'the module registry (a deep copy swapped in per case) or a Glommer; 6 % are pull cases (lazy Flatten / '
        "flatten(levels=k, init='lazy') over a counting generator, next() until StopIteration / TypeError); a "
        'one-edit mutation stream plants a non-iterable / wrong-typed / wrong-arity element (objects whose __iter__ '
        'raises / returns a non-iterator / that iterate through __getitem__ only) at a random position, a '
        'non-iterable target (int, float, str, None, plain object, those three), a mismatched init, a missing '
        'sub-spec key, negative levels; a small stream violates a hypothesis on purpose (init returning a shared '
        'object, the element-writing op, chain objects served by another handler: model and implementation must '
        'still agree; counted under hyp-violated(...) branches). thorough additionally enumerates every prog shape '
        'over 36 fixed targets and every (instance class, registered class, handler, exact, position, registry) over '
        'three progs. No case is skipped. non-trivial = some evaluation iterates >= 2 items or ends in an exception '
        '(pull: >= 2 pulls); distinct = distinct (heap, events, registry, prog).')
TRUSTED = ['CPython semantics of +=, +, dict.update/OrderedDict.update, list.extend/append, iter(), itertools.chain and '
           'of the harness\'s iterate handlers and operators as modelled in Glom/Model/C15.lean (pyOp, rawIter, '
           'runHandler, updatePairs) and Glom/Model/C15Lazy.lean (refill/next): validated by the correspondence, not verified',
           'the class hierarchy tables of a case (__mro__, isinstance, issubclass, auto-discovery outcomes) are '
           'computed by Python introspection in the harness (as in C13): which classes glom takes for iterable comes '
           'from glom\'s own _AbstractIterable hook and auto-discovery function',
           'Lean core\'s Float model (Float.ofBits/add/toBits reduce in the kernel) is IEEE-754 binary64 addition',
           'a generator is modelled as the sequence of what it will yield (a raise as a pseudo-item); each generator '
           'object is evaluated at most once per case']
ASSUMPTIONS = ['READING (6.5, replaces "floats excluded"): floats are compared exactly (bit patterns): glom adds left to '
               'right with one IEEE-754 addition per step, i.e. functools.reduce(operator.add), NOT the compensated '
               'builtin sum() of CPython >= 3.12 (glom([0.1]*10, Sum()) is 0.9999999999999999, sum() gives 1.0); ints '
               'mixed into float sums are below 2**53',
               'READING (b): "Flatten equals chain.from_iterable" is about init=list (the one init whose += takes any '
               'iterable); for any other init the reference is the `ret = iadd(ret, v)` loop itself: '
               'Flatten(init=tuple) over lists, Flatten(init=set) and flatten(levels=2) over ints raise TypeError, '
               'flatten(levels=2, init=int) sums',
               'READING (d): "non-iterable target" = the registry names no iterate handler for its class (no __iter__, or '
               'str/bytes): FoldError, also for an object iterable through __getitem__ only; a class whose __iter__ '
               'raises or returns a non-iterator IS registered and fails inside target_iter: TypeError; an exception '
               '(UnregisteredTarget included) raised by the iterator, op or init while folding is not the target\'s '
               'and propagates unchanged (6be71d7)',
               'READING (e): "results of separate evaluations share no state" is about the result containers (distinct, '
               'new objects); the copy is shallow: the elements are the input\'s own objects (c15_result_shallow); '
               'immutable results (str, tuple, int) may be the input object itself',
               'hypotheses "init allocates" and "op writes to its accumulator only": an init callable returning a '
               'pre-existing object, an op mutating its element, are the caller\'s aliasing / mutation '
               '(c15_shared_init_counterexample, c15_element_writing_op_counterexample)',
               'which registered type is nearest for an unregistered class is C13\'s property; C15 requires that the '
               'answer is that of the tables at the time of the call (no memo, a remembered False included); dict keys '
               'are scalars; set elements are small ints (iteration order ascending)',
               'flatten(levels >= 2) on a registry where itertools.chain objects are served by a handler other than '
               'iter is outside the reference (model and implementation are still compared)',
               'not modelled: the same generator object evaluated twice (the second evaluation sees the exhausted '
               'iterator), bytes / memoryview / deque / dict-view targets, Counter / set inits of Merge, tuple dict keys',
               'identity of immutable results (tuple, str, int) is not observed: CPython returns `t` itself for `() + t`']


# ------------------------------------------------------------------ classes of the harness
class Acc(list):
    """custom accumulator: its own in-place `+=` (append, not extend) and `update`"""
    def __iadd__(self, v):
        list.append(self, v)
        return self

    def update(self, v):
        list.append(self, v)


class Obj:
    def __init__(self, **kw):
        self.__dict__.update(kw)


class Crate(Obj):
    """a plain object below Obj: no __iter__"""


class Box:
    """an iterable object: iter(box) walks `names`; the handler `h:items` walks `items` instead"""
    def __init__(self, **kw):
        self.__dict__.update(kw)

    def __iter__(self):
        return iter(self.names)


class SubBox(Box):
    pass


class SubSubBox(SubBox):
    pass


class Bag(list):
    pass


class SubBag(Bag):
    pass


class BadIter:
    """has an __iter__ — so glom registers it as iterable — that raises"""
    def __iter__(self):
        raise TypeError('BadIter does not iterate')


class NonIterIter:
    """an __iter__ that returns something that is not an iterator"""
    def __iter__(self):
        return 5


class GetItemSeq:
    """no __iter__: iterable for Python through the sequence protocol only (and empty)"""
    def __getitem__(self, i):
        raise IndexError(i)


class Marker:
    """`!raise:<Class>` inside a generator cell: at this point the generator raises"""
    def __init__(self, name):
        self.name = name


def raise_marker(m):
    from glom.core import UnregisteredTarget, Path
    cls = m.name[len('!raise:'):]
    if cls == 'UnregisteredTarget':
        raise UnregisteredTarget('iterate', int, {}, Path())
    raise {'ValueError': ValueError, 'TypeError': TypeError, 'KeyError': KeyError}[cls]('raised midway')


def raising_generator(items):
    for x in items:
        if isinstance(x, Marker):
            raise_marker(x)
        yield x


INST_CLASSES = {'Obj': Obj, 'Crate': Crate, 'Box': Box, 'SubBox': SubBox, 'SubSubBox': SubSubBox,
                'BadIter': BadIter, 'NonIterIter': NonIterIter, 'GetItemSeq': GetItemSeq}
POOL = {'Obj': Obj, 'Crate': Crate, 'Box': Box, 'SubBox': SubBox, 'SubSubBox': SubSubBox,
        'BadIter': BadIter, 'NonIterIter': NonIterIter, 'GetItemSeq': GetItemSeq, 'Bag': Bag,
        'SubBag': SubBag, 'Acc': Acc}


def _raise_handler(x):
    raise ValueError('no iteration for %r' % type(x).__name__)


# `iterate` handlers a case may register (the names are what the Lean model's `runHandler` knows)
HANDLERS = {
    'iter': iter,
    'h:rev': lambda x: iter(list(x)[::-1]),
    'h:tail': lambda x: iter(list(x)[1:]),
    'h:aslist': lambda x: list(x),
    'h:items': lambda x: iter(x.items),
    'h:raise': _raise_handler,
    'getattr': getattr,
}
for _n, _f in HANDLERS.items():
    if _n not in ('iter', 'getattr'):
        _f.tag = _n


def first_wins(d, v):
    for k, x in v.items():
        d.setdefault(k, x)


CLS = {'list': list, 'Acc': Acc, 'Bag': Bag, 'SubBag': SubBag, 'tuple': tuple, 'dict': dict,
       'OrderedDict': OrderedDict, 'Obj': Obj}
CLS.update(INST_CLASSES)


def fbits(x):
    """a float as the 16 hex digits of its IEEE-754 bit pattern (every NaN: the canonical quiet NaN)"""
    if x != x:
        return '7ff8000000000000'
    return struct.pack('>d', x).hex()


def ffrom(s):
    return struct.unpack('>d', bytes.fromhex(s))[0]


def jval(v):
    if v is None:
        return None
    if isinstance(v, bool):
        return {'b': v}
    if isinstance(v, int):
        return {'i': v}
    if isinstance(v, float):
        return {'f': fbits(v)}
    return {'s': v}


# ------------------------------------------------------------------ heap codec
def decode(heap):
    """objects by address; generator cells become real generator objects"""
    objs = [None] * len(heap)
    state = {}

    def dv(j):
        if j is None:
            return None
        if 'b' in j:
            return j['b']
        if 'i' in j:
            return j['i']
        if 's' in j:
            return j['s']
        if 'f' in j:
            return ffrom(j['f'])
        if 'r' in j:
            a = j['r']
            if objs[a] is None:
                build(a)
            return objs[a]
        if 'sent' in j and j['sent'].startswith('!raise:'):
            return Marker(j['sent'])
        raise ValueError('cannot decode %r' % (j,))

    def build(a):
        cell = heap[a]
        k, c = cell['k'], cell['c']
        if state.get(a) == 'building':
            raise ValueError('cycle through an immutable cell at %d' % a)
        state[a] = 'building'
        if k == 'tuple' and c == 'generator':
            items = [dv(x) for x in cell['v']]
            objs[a] = raising_generator(items)
        elif k == 'tuple' and c == 'range':
            assert [x.get('i') for x in cell['v']] == list(range(len(cell['v']))), 'a range cell lists 0..n-1'
            objs[a] = range(len(cell['v']))
        elif k == 'tuple':
            objs[a] = tuple(dv(x) for x in cell['v'])
        elif k == 'set':
            vals = [dv(x) for x in cell['v']]
            assert vals == sorted(set(vals)) and all(type(x) is int and 0 <= x < 8 for x in vals), \
                'a set cell lists distinct ints of 0..7 in ascending order (their iteration order)'
            objs[a] = (set if c == 'set' else frozenset)(vals)
        state[a] = 'done'

    for a, cell in enumerate(heap):
        k, c = cell['k'], cell['c']
        if k == 'list':
            objs[a] = CLS[c]()
        elif k == 'dict':
            objs[a] = CLS[c]()
        elif k == 'inst':
            objs[a] = INST_CLASSES[c]()
    for a, cell in enumerate(heap):
        if cell['k'] in ('tuple', 'set') and objs[a] is None:
            build(a)
    for a, cell in enumerate(heap):
        k = cell['k']
        if k == 'list':
            list.extend(objs[a], [dv(x) for x in cell['v']])
        elif k == 'dict':
            for kk, v in cell['v']:
                objs[a][dv(kk)] = dv(v)
        elif k == 'inst':
            for kk, v in cell['v']:
                objs[a].__dict__[kk] = dv(v)
    return objs, dv


def enc_val(v, ids):
    if v is None:
        return None
    if isinstance(v, bool):
        return {'b': v}
    if isinstance(v, int):
        return {'i': v}
    if isinstance(v, str):
        return {'s': v}
    if isinstance(v, float):
        return {'f': fbits(v)}
    a = ids.get(id(v))
    if a is not None:
        return {'r': a}
    return {'sent': '<unknown %s>' % type(v).__name__}


def enc_cell(o, ids, orig=None):
    t = type(o)
    if t in (list, Acc, Bag, SubBag):
        return {'k': 'list', 'c': t.__name__, 'v': [enc_val(x, ids) for x in list.__iter__(o)]}
    if t is tuple:
        return {'k': 'tuple', 'c': 'tuple', 'v': [enc_val(x, ids) for x in o]}
    if t is range:
        return {'k': 'tuple', 'c': 'range', 'v': [enc_val(x, ids) for x in o]}
    if t in (set, frozenset):
        return {'k': 'set', 'c': t.__name__, 'v': [enc_val(x, ids) for x in sorted(o)]}
    if t in (dict, OrderedDict):
        return {'k': 'dict', 'c': t.__name__, 'v': [[enc_val(k, ids), enc_val(x, ids)] for k, x in o.items()]}
    if t in INST_CLASSES.values():
        return {'k': 'inst', 'c': t.__name__, 'v': [[k, enc_val(x, ids)] for k, x in o.__dict__.items()]}
    if orig is not None and orig.get('c') == 'generator':
        return orig            # a generator cannot be re-read; not observed
    return {'k': 'inst', 'c': t.__name__, 'v': []}


# ------------------------------------------------------------------ implementation runner
def build_init(j, dv):
    if isinstance(j, dict):
        if 'copy' in j:
            obj = dv(j['copy'])
            if isinstance(obj, (list, tuple, dict)):
                return lambda: type(obj)(obj)          # a NEW container with OBJ's content, every call
            return lambda: obj
        obj = dv(j['shared'])
        return lambda: obj
    return {'int': int, 'float': float, 'str': str, 'list': list, 'tuple': tuple, 'dict': dict,
            'OrderedDict': OrderedDict, 'Acc': Acc, 'set': set, 'lazy': 'lazy', '!bad': 'LAZY'}[j]


def op_append(a, v):
    a.append(v)
    return a


def op_cons(a, v):
    return [v] + a


def op_add_seq(a, v):
    """an operator that iterates its element the glom way: UnregisteredTarget for what is not a sequence"""
    from glom.core import UnregisteredTarget, Path
    if not isinstance(v, (list, tuple)):
        raise UnregisteredTarget('iterate', type(v), {}, Path())
    return a + list(v)


def op_poke(a, v):
    """an operator OUTSIDE the laws: it writes to its element"""
    v.append(0)
    return a


def op_dict_union(a, b):
    return {**a, **b}


FOLD_OPS = {'append': op_append, 'cons': op_cons, 'extend': list.extend, 'dict_union': op_dict_union,
            'add_seq': op_add_seq, 'poke': op_poke, '!bad': 5}


def build_sub(sub, dv):
    from glom import T
    t = T
    for k in sub:
        t = t[dv(k)]
    return t


def make_callable(prog, dv, glommer=None):
    """-> f(target) evaluating the SAME spec object each time (built here, once); `glommer`: evaluate
    through that Glommer (its own registry) instead of the module-level glom()"""
    import operator
    import glom
    from glom import Fold, Sum, Flatten, Merge, flatten, merge
    from glom.reduction import Count
    kind = prog['kind']
    sub = build_sub(prog.get('sub') or [], dv)
    kw = {}
    if prog.get('init') is not None:
        kw['init'] = build_init(prog['init'], dv)
    op = prog.get('op')
    if kind == 'fold':
        if op is not None:
            kw['op'] = dict(FOLD_OPS, iadd=operator.iadd, add=operator.add)[op]
        spec = Fold(sub, **kw)
    elif kind == 'sum':
        spec = Sum(sub, **kw)
    elif kind == 'count':
        spec = Count()
    elif kind == 'flatten':
        spec = Flatten(sub, **kw)
    elif kind in ('merge', 'merge_fn'):
        if op is not None:
            kw['op'] = {'iadd': operator.iadd, 'first_wins': first_wins, 'dict_union': op_dict_union,
                        '!bad': 5}.get(op, op)
        if prog.get('extra_kw'):
            kw['foo'] = 1
        if kind == 'merge':
            spec = Merge(sub, **kw)
        else:
            return lambda t: merge(t, spec=sub, **kw)
    elif kind == 'flatten_fn':
        lv = prog.get('levels')
        if lv is not None:
            kw['levels'] = None if lv == 'None' else dv(lv) if isinstance(lv, dict) else lv
        if prog.get('extra_kw'):
            kw['foo'] = 1
        return lambda t: flatten(t, spec=sub, **kw)
    else:
        raise ValueError(kind)
    if glommer is not None:
        return lambda t: glommer.glom(t, spec)
    return lambda t: glom.glom(t, spec)


def exc_class(e):
    """the class the exception was raised with (glom re-raises foreign exceptions as an ad-hoc
    subclass `GlomError.wrap(X)` of both GlomError and X: that wrapper is C04's subject)"""
    for c in type(e).__mro__:
        if not c.__name__.startswith('GlomError.wrap'):
            return c
    return type(e)


def enc_err(e):
    from glom import GlomError
    c = exc_class(e)
    return {'err': [c.__name__, issubclass(c, GlomError)]}


def events_of(case):
    """the history of a case: [{'t': target} | {'reg': {'cls', 'exact', 'kw'}}]; an old-style case
    lists `targets` (evaluations only)"""
    if 'events' in case:
        return case['events']
    return [{'t': t} for t in case['targets']]


def targets_of(case):
    return [e['t'] for e in events_of(case) if 't' in e]


_HIER = {}


def hier_tables():
    """Python's own answers about the classes a case can mention: `__mro__`, isinstance, issubclass,
    and what the registry's auto-discovery functions return (shape of C13's tables)"""
    from glom import core
    key = os.path.abspath(core.__file__)
    if key in _HIER:
        return _HIER[key]
    base = [object, dict, OrderedDict, list, tuple, set, frozenset, str, bytes, int, bool, float, type(None),
            core._AbstractIterable, core._ObjStyleKeys, types.GeneratorType, itertools.chain, range]
    base += list(POOL.values())
    classes = []
    for c in base:
        for k in c.__mro__:
            if k not in classes:
                classes.append(k)
    names = [c.__name__ for c in classes]
    assert len(set(names)) == len(names), names

    def sample(c):
        if c is type(None):
            return None
        if c is types.GeneratorType:
            return (x for x in ())
        try:
            return c()
        except Exception:
            return NotImplemented
    mro = [[c.__name__, [k.__name__ for k in c.__mro__]] for c in classes]
    sub = [[c.__name__, d.__name__] for c in classes for d in classes if issubclass(c, d)]
    inst = []
    for c in classes:
        x = sample(c)
        for d in classes:
            if (isinstance(x, d) if x is not NotImplemented else issubclass(c, d)):
                inst.append([c.__name__, d.__name__])
    fresh = core.TargetRegistry(register_default_types=False)

    def outcome(fn, c):
        try:
            h = fn(c)
        except Exception:
            return '!raise'
        if h is False:
            return 'False'
        if not callable(h):
            return '!bad'
        return getattr(h, '__qualname__', None) or getattr(h, '__name__', None) or repr(h)
    auto = [['auto_' + op, [[c.__name__, outcome(fn, c)] for c in classes]]
            for op, fn in fresh._op_auto_map.items()]
    _HIER[key] = {'mro': mro, 'inst': inst, 'sub': sub, 'auto': auto}
    return _HIER[key]


def class_of(name):
    from glom import core
    if name in POOL:
        return POOL[name]
    return {'object': object, 'dict': dict, 'OrderedDict': OrderedDict, 'list': list, 'tuple': tuple,
            'set': set, 'frozenset': frozenset, 'str': str, 'int': int, 'float': float, 'NoneType': type(None),
            '_AbstractIterable': core._AbstractIterable, 'generator': types.GeneratorType,
            'chain': itertools.chain, 'range': range}[name]


def instance_of(name):
    """some object whose type is the class of that name"""
    c = class_of(name)
    if c is type(None):
        return None
    if c is types.GeneratorType:
        return (x for x in ())
    if c is range:
        return range(0)
    x = c()
    assert type(x) is c
    return x


def run_pull(case):
    """a PULL case: evaluate a lazy Flatten on a generator that counts what it is asked for, then pull
    the result value by value; observation = the count after creation and after every `next()`"""
    from glom import core
    heap = case['heap']
    objs, dv = decode(heap)
    ids = {}
    for a, o in enumerate(objs):
        ids.setdefault(id(o), a)
    t = targets_of(case)[0]
    items = list(dv(t))                     # the generator decode() built: its items, as objects
    log = []

    def source():
        for x in items:
            log.append(1)
            yield x
    saved = core._DEFAULT_SCOPE[core.TargetRegistry]
    mine = copy.deepcopy(saved)
    mine._type_cache = {}
    core._DEFAULT_SCOPE[core.TargetRegistry] = mine
    out = dict(case)
    try:
        try:
            r = make_callable(case['prog'], dv)(source())
        except Exception as e:
            out['impl'] = {'raised': enc_err(e)['err'], 'hier': hier_tables()}
            return out
        created = len(log)
        pulls = []
        for _ in range(20000):
            try:
                v = next(r)
            except StopIteration:
                pulls.append({'stop': len(log)})
                break
            except Exception as e:
                pulls.append({'error': enc_err(e)['err'], 'f': len(log)})
                break
            pulls.append({'item': enc_val(v, ids), 'f': len(log)})
    finally:
        core._DEFAULT_SCOPE[core.TargetRegistry] = saved
    out['impl'] = {'created': created, 'pulls': pulls, 'hier': hier_tables()}
    return out


def run_impl(case):
    import glom
    from glom import core
    if case.get('pull'):
        return run_pull(case)
    heap = case['heap']
    objs, dv = decode(heap)
    ids = {}
    for a, o in enumerate(objs):
        ids.setdefault(id(o), a)       # `()` is one object: the first empty-tuple cell stands for it
    events = events_of(case)
    registry = case.get('registry', 'module')
    # every case starts from a registry nobody has looked anything up in: the module-level default
    # registry is replaced by a deep copy (empty memo) for the duration of the case; a Glommer is new
    saved = core._DEFAULT_SCOPE[core.TargetRegistry]
    mine = copy.deepcopy(saved)
    mine._type_cache = {}
    core._DEFAULT_SCOPE[core.TargetRegistry] = mine
    raw = []
    try:
        glommer = glom.Glommer() if registry == 'glommer' else None
        try:
            f = make_callable(case['prog'], dv, glommer)
        except Exception as e:            # the constructor itself raised: nothing is evaluated
            raw = [('err', e)] * len([e for e in events if 't' in e])
            f = None
        if f is not None:
            for ev in events:
                if 't' in ev:
                    try:
                        raw.append(('ok', f(dv(ev['t']))))
                    except Exception as e:
                        raw.append(('err', e))
                elif 'probe' in ev:
                    # a lookup that does not raise (and remembers a False): what glom itself does when it
                    # only wants to know whether a type is supported
                    reg = glommer.scope[core.TargetRegistry] if glommer is not None else mine
                    reg.get_handler('iterate', instance_of(ev['probe']), raise_exc=False)
                else:
                    r = ev['reg']
                    kw = {op: (HANDLERS[h] if h is not None else False) for op, h in r['kw']}
                    if r['exact'] or r.get('exact_given'):
                        kw['exact'] = r['exact']
                    (glommer.register if glommer is not None else glom.register)(class_of(r['cls']), **kw)
    finally:
        core._DEFAULT_SCOPE[core.TargetRegistry] = saved
    results, seen = [], []
    for kind, r in raw:
        if kind == 'err':
            results.append(enc_err(r))
            seen.append(None)
            continue
        seen.append(r)
        if r is None or isinstance(r, (bool, int, str, float)):
            results.append({'imm': enc_val(r, ids)})
        elif id(r) in ids and not (type(r) is tuple):
            results.append({'input': ids[id(r)]})
        elif type(r) is tuple:
            results.append({'fresh': enc_cell(r, ids)})
        else:
            prev = next((i for i, s in enumerate(seen[:-1]) if s is r), None)
            if prev is not None:
                results.append({'prev': prev})
            elif isinstance(r, itertools.chain):
                try:
                    items = list(r)
                    results.append({'fresh': {'k': 'tuple', 'c': 'chain', 'v': [enc_val(x, ids) for x in items]}})
                except Exception as e:
                    results.append(enc_err(e))
            else:
                results.append(None)      # filled below, after every evaluation ran
    # contents are read after all evaluations (a later evaluation touching an earlier result shows)
    for i, (kind, r) in enumerate(raw):
        if results[i] is None:
            results[i] = {'fresh': enc_cell(r, ids)}
    after = [enc_cell(o, ids, heap[a]) for a, o in enumerate(objs)]
    out = dict(case)
    out['impl'] = {'results': results, 'after': after, 'hier': hier_tables()}
    return out


# ------------------------------------------------------------------ generators
class H:
    def __init__(self):
        self.heap = []

    def alloc(self, k, c, v):
        self.heap.append({'k': k, 'c': c, 'v': v})
        return {'r': len(self.heap) - 1}


INTS = [0, 1, 2, 3, 7, -1, -5, 10, 100]
FLOATS = [0.1, 0.2, 0.3, 0.5, 1.5, -2.25, 1.0, 3.0, 1e16, -1e16, 1e-3, 2.0 ** 53, 1e308, -0.0, 0.0,
          float('inf'), float('-inf'), float('nan')]
STRS = ['', 'a', 'b', 'ab', 'xyz', 'k']
KEYS = ['a', 'b', 'c', 0, 1, 2, None, True]


def scalar(rng, fam):
    if fam == 'int':
        return jval(rng.choice(INTS + [True, False]) if rng.random() < 0.15 else rng.choice(INTS))
    if fam == 'str':
        return jval(rng.choice(STRS))
    if fam == 'num':        # ints, bools and floats mixed: addition is left to right, one IEEE operation per step
        c = rng.random()
        if c < 0.55:
            return jval(rng.choice(FLOATS[:13]) if rng.random() < 0.9 else rng.choice(FLOATS))
        return jval(rng.choice(INTS + [True, False]))
    return jval(rng.choice(INTS + STRS + [None, True]))


def gen_dict(rng, hp, n=None, cls=None):
    n = rng.choice([0, 1, 2, 2, 3]) if n is None else n
    keys = []
    for k in rng.sample(KEYS, n):
        if not any(k == k2 for k2 in keys):       # 1 == True: one key in Python
            keys.append(k)
    return hp.alloc('dict', cls or rng.choice(['dict', 'dict', 'OrderedDict']),
                    [[jval(k), scalar(rng, 'any')] for k in keys])


def gen_seq(rng, hp, fam, depth, n=None, kinds=('list', 'list', 'tuple')):
    """a sequence nested `depth` levels below which live scalars of family `fam`"""
    n = rng.choice([0, 1, 2, 2, 3, 4]) if n is None else n
    kind = rng.choice(kinds)
    items = []
    for _ in range(n):
        if depth <= 0:
            items.append(scalar(rng, fam))
        else:
            items.append(gen_seq(rng, hp, fam, depth - 1))
    if items and rng.random() < 0.12 and depth > 0:
        items.append(rng.choice(items))                  # the same sub-object twice
    return container(hp, kind, items)


def container(hp, kind, items):
    if kind == 'list':
        return hp.alloc('list', 'list', items)
    if kind == 'Acc':
        return hp.alloc('list', 'Acc', items)
    if kind == 'tuple':
        return hp.alloc('tuple', 'tuple', items)
    if kind == 'generator':
        return hp.alloc('tuple', 'generator', items)
    if kind in ('dict', 'OrderedDict'):
        # keys are the items (must be distinct scalars)
        seen, es = [], []
        for it in items:
            if isinstance(it, dict) and 'r' in it:
                continue
            pv = None if it is None else list(it.values())[0]
            if any(pv == q for q in seen):
                continue
            seen.append(pv)
            es.append([it, jval(len(es))])
        return hp.alloc('dict', kind, es)
    raise ValueError(kind)


TOP_KINDS = ['list', 'list', 'list', 'tuple', 'generator', 'Acc']
NON_ITER = [{'i': 5}, {'s': 'abc'}, None, {'b': True}, {'f': '3ff8000000000000'}, 'obj', 'BadIter', 'NonIterIter',
            'GetItemSeq']
INITS = ['int', 'float', 'str', 'list', 'tuple', 'dict', 'OrderedDict', 'Acc']


LONG_SHARE = 0.04


def gen_target(rng, hp, elem, n=None, top=None):
    """elem(rng, hp) -> one element value; returns a container of such elements"""
    if n is None:
        n = rng.choice([0, 1, 2, 2, 3, 3, 4, 5]) if rng.random() >= LONG_SHARE else rng.randint(20, 50)
    items = [elem(rng, hp) for _ in range(n)]
    if len(items) >= 2 and rng.random() < 0.1:
        items[rng.randrange(len(items))] = rng.choice(items)       # shared element
    kind = top or rng.choice(TOP_KINDS)
    if kind in ('dict', 'OrderedDict') and any(isinstance(i, dict) and 'r' in i for i in items):
        kind = 'list'
    if top is None and rng.random() < 0.05:
        # a set / frozenset of small ints (iteration order = ascending) or a range: iterable through
        # `_AbstractIterable` like any other
        if rng.random() < 0.6:
            vals = sorted(rng.sample(range(8), rng.choice([0, 1, 2, 3, 5])))
            return hp.alloc('set', rng.choice(['set', 'frozenset']), [{'i': v} for v in vals])
        return hp.alloc('tuple', 'range', [{'i': v} for v in range(rng.choice([0, 1, 3, 5, 30]))])
    t = container(hp, kind, items)
    if kind == 'generator' and rng.random() < 0.12:
        # a generator that RAISES after some of its items (as glom(t, Iter([T])) does at a non-iterable one)
        cell = hp.heap[t['r']]
        cell['v'].insert(rng.randint(0, len(cell['v'])),
                         {'sent': '!raise:' + rng.choice(['UnregisteredTarget', 'UnregisteredTarget', 'ValueError'])})
    return t


def elem_for(fam, depth=0):
    if fam in ('int', 'str', 'any', 'num'):
        return lambda rng, hp: scalar(rng, fam)
    if fam == 'list':
        return lambda rng, hp: gen_seq(rng, hp, 'any', depth, kinds=('list',))
    if fam == 'tuple':
        return lambda rng, hp: gen_seq(rng, hp, 'any', depth, kinds=('tuple',))
    if fam == 'seq':
        return lambda rng, hp: gen_seq(rng, hp, 'any', depth, kinds=('list', 'list', 'tuple', 'generator'))
    if fam == 'dict':
        return lambda rng, hp: gen_dict(rng, hp)
    if fam == 'pairs':
        def f(rng, hp):
            ps = []
            for _ in range(rng.choice([0, 1, 2])):
                k = rng.choice(['list', 'tuple'])
                ps.append(hp.alloc(k, k, [jval(rng.choice(KEYS)), scalar(rng, 'any')]))
            return hp.alloc('list', 'list', ps)
        return f
    raise ValueError(fam)


FAM_OF_INIT = {'int': 'int', 'float': 'num', 'str': 'str', 'list': 'seq', 'tuple': 'tuple', 'Acc': 'any',
               'dict': 'dict', 'OrderedDict': 'dict'}


def bad_element(rng, hp):
    c = rng.random()
    if c < 0.3:
        return jval(rng.choice([5, None, True]))
    if c < 0.45:
        return jval(rng.choice(['ab', 'abc', '']))
    if c < 0.52:
        return hp.alloc('inst', rng.choice(['BadIter', 'NonIterIter', 'GetItemSeq']), [])
    if c < 0.6:
        return hp.alloc('inst', 'Obj', [['x', {'i': 1}]])
    if c < 0.75:
        return gen_dict(rng, hp)
    if c < 0.9:
        return hp.alloc('list', 'list', [hp.alloc('list', 'list', [{'i': 1}]), {'i': 2}])   # unhashable key pair
    return hp.alloc('tuple', 'tuple', [jval('k'), {'i': 1}, {'i': 2}])                        # wrong arity


def gen_prog(rng):
    kind = rng.choice(['fold', 'fold', 'sum', 'count', 'flatten', 'flatten', 'merge', 'merge',
                       'flatten_fn', 'flatten_fn', 'flatten_fn', 'merge_fn'])
    prog = {'kind': kind, 'sub': []}
    if kind == 'fold':
        prog['init'] = rng.choice(INITS)
        prog['op'] = rng.choice([None, None, 'iadd', 'add', 'append', 'cons', 'add_seq', 'extend', 'dict_union'])
        fam = FAM_OF_INIT[prog['init']]
        if prog['op'] == 'add' and prog['init'] in ('list', 'Acc'):
            fam = 'list'
        if prog['init'] in ('dict', 'OrderedDict'):
            fam = 'dict'
        if prog['op'] in ('append', 'cons'):
            if rng.random() < 0.8:
                prog['init'] = rng.choice(['list', 'list', 'Acc'])
            fam = rng.choice(['any', 'seq', 'num'])
        if prog['op'] in ('add_seq', 'extend'):
            if rng.random() < 0.85:
                prog['init'] = rng.choice(['list', 'list', 'Acc'])
            fam = rng.choice(['seq', 'seq', 'list', 'any'])      # 'any': ints among the elements: the op raises
        if prog['op'] == 'dict_union':
            if rng.random() < 0.85:
                prog['init'] = rng.choice(['dict', 'OrderedDict'])
            fam = 'dict'
        c = rng.random()
        if c < 0.03:                 # an operator outside the laws: it writes to its element
            prog['op'], prog['init'], fam = 'poke', rng.choice(['list', 'int', 'Acc']), rng.choice(['list', 'seq'])
        elif c < 0.05:
            prog['op'] = '!bad'      # Fold(T, init=…, op=5)
        elif c < 0.07:
            prog['init'] = '!bad'    # Fold(T, init='LAZY')
        elif c < 0.09:
            prog['init'] = 'set'     # nothing of the catalogue adds to a set
        if fam == 'int' and rng.random() < 0.4:
            fam = 'num'
    elif kind == 'sum':
        prog['init'] = rng.choice([None, None, 'int', 'int', 'float', 'str', 'list', 'tuple', 'Acc', 'set', '!bad'])
        fam = FAM_OF_INIT.get(prog['init'] or 'int', 'seq')
        if fam == 'int' and rng.random() < 0.5:
            fam = 'num'              # an int start with float addends: the sum turns float at the first one
    elif kind == 'count':
        fam = rng.choice(['int', 'any', 'list', 'dict'])
    elif kind == 'flatten':
        prog['init'] = rng.choice([None, None, 'list', 'lazy', 'lazy', 'tuple', 'int', 'str', 'Acc', 'set', '!bad'])
        fam = FAM_OF_INIT.get(prog['init'], 'seq') if prog['init'] not in (None, 'lazy') else 'seq'
    elif kind in ('merge', 'merge_fn'):
        prog['init'] = rng.choice([None, None, 'dict', 'OrderedDict', 'OrderedDict', 'Acc', 'list', 'int', '!bad'])
        prog['op'] = rng.choice([None, None, None, 'update', 'first_wins', 'iadd', 'dict_union', 'extend', 'append',
                                 'nosuch', '!bad'])
        fam = rng.choice(['dict', 'dict', 'dict', 'pairs'])
        if prog['op'] in ('extend', 'append'):
            if rng.random() < 0.8:
                prog['init'] = rng.choice(['list', 'Acc'])
            fam = rng.choice(['seq', 'any'])
        if prog['op'] == 'dict_union':
            fam = 'dict'
        if kind == 'merge_fn' and rng.random() < 0.04:
            prog['extra_kw'] = True
        if prog['op'] == 'first_wins':
            fam = 'dict'
        if prog['op'] == 'iadd':
            fam = FAM_OF_INIT.get(prog['init'] or 'dict', 'dict')
            if prog['init'] in (None, 'dict', 'OrderedDict'):
                fam = 'dict'
    else:  # flatten_fn
        prog['levels'] = rng.choice([None, 0, 1, 1, 2, 2, 3, 3, 4, rng.choice([5, 6, 7, 8, 9, 10])])
        prog['init'] = rng.choice([None, None, 'list', 'list', 'lazy', 'tuple', 'int', 'float', 'str', 'Acc', '!bad'])
        c = rng.random()
        if c < 0.05:                 # levels that are not ints: decided by `== 0`, `< 0`, `(…,) * (levels - 1)`
            prog['levels'] = rng.choice(['None', {'b': True}, {'b': False}, {'f': fbits(1.5)}, {'f': fbits(2.0)},
                                         {'f': fbits(0.0)}, {'f': fbits(-1.5)}, {'f': fbits(float('nan'))}])
        elif c < 0.08:
            prog['extra_kw'] = True
        fam = 'nested'
    return prog, fam


def gen_case(rng, tier, kinds=None, regs=None):
    hp = H()
    for _ in range(50):
        prog, fam = gen_prog(rng)
        if not kinds or prog['kind'] in kinds:
            break
    mode = rng.random()
    regmode = (rng.random() < REG_SHARE) if regs is None else regs
    ntargets = rng.choice([1, 1, 2, 2, 3])
    targets = []
    tclasses = []
    base = None

    def fresh_target():
        if fam == 'nested':
            lv = prog['levels'] if isinstance(prog['levels'], int) else 1
            init = prog['init'] or 'list'
            if init in ('int', 'str', 'float'):
                leaf = {'int': 'int', 'float': 'num', 'str': 'str'}[init]
                return gen_seq_depth(rng, hp, leaf, max(lv - 1, 0))
            if init == 'tuple':
                return gen_seq_depth(rng, hp, 'any', max(lv, 1), last='tuple')
            if init in ('Acc', '!bad'):
                return gen_seq_depth(rng, hp, 'any', max(lv - 1, 0))
            return gen_seq_depth(rng, hp, 'any', max(lv, 1))
        return gen_target(rng, hp, elem_for(fam))
    for ti in range(ntargets):
        if base is not None and rng.random() < 0.5:
            targets.append(base)                         # the same target again
            continue
        if fam == 'nested':
            t = fresh_target()
        else:
            top = None
            if fam in ('int', 'str', 'any', 'num') and rng.random() < 0.2 and not regmode:
                top = rng.choice(['dict', 'OrderedDict']) if fam != 'num' else None
            t = gen_target(rng, hp, elem_for(fam), top=top)
        # one-edit mutations
        if mode > 0.72 and ti == 0:
            m = rng.random()
            cell = hp.heap[t['r']]
            if m < 0.45 and cell['k'] in ('list', 'tuple') and cell['c'] != 'range':
                pos = rng.randint(0, len(cell['v']))
                cell['v'].insert(pos, bad_element(rng, hp))
            elif m < 0.7:
                ni = rng.choice(NON_ITER)
                t = hp.alloc('inst', 'Obj', [['a', {'i': 1}]]) if ni == 'obj' else \
                    hp.alloc('inst', ni, []) if isinstance(ni, str) else ni
            elif m < 0.8 and cell['k'] == 'list' and prog.get('op') != 'poke':
                cell['v'].append(t)                      # the target contains itself
            elif m < 0.9 and prog['kind'] in ('fold', 'sum', 'flatten', 'merge', 'merge_fn', 'flatten_fn'):
                prog['init'] = rng.choice(INITS)
            elif prog['kind'] == 'flatten_fn':
                prog['levels'] = rng.choice([-1, -3, 0, 5])
        if regmode and (mode <= 0.72 or ti > 0 or rng.random() < 0.5):
            t, tc = wrap_pool(rng, hp, t, fresh_target)
            if tc:
                tclasses.append(tc)
        if base is None:
            base = t
        targets.append(t)
    # sub-spec: hide the targets behind T[...]
    if rng.random() < 0.25 and prog['kind'] != 'count':
        if rng.random() < 0.5:
            k = rng.choice(['k', 'a', 0])
            prog['sub'] = [jval(k)]
            targets = [hp.alloc('dict', 'dict', [[jval(k), t]]) for t in targets]
        else:
            prog['sub'] = [{'i': 1}, {'i': -1}]
            targets = [hp.alloc('list', 'list', [None, hp.alloc('tuple', 'tuple', [{'i': 0}, t])]) for t in targets]
        if rng.random() < 0.15:
            prog['sub'] = prog['sub'] + [jval('missing')]
    # hypothesis-violating stream: an init that returns a pre-existing object
    if rng.random() < 0.04 and prog['kind'] in ('fold', 'sum', 'flatten', 'merge'):
        # never a container the evaluation iterates (extending a list while iterating it does not terminate):
        # the target, what a sub-spec / a harness instance puts in front of it — everything within 4 steps
        tops = set()
        level = [t['r'] for t in targets if isinstance(t, dict) and 'r' in t]
        for _ in range(5):
            tops |= set(level)
            level = [x['r'] for a in level for x in refs_in(hp.heap[a]) if x['r'] not in tops]
        cands = [i for i, c in enumerate(hp.heap) if c['k'] in ('list', 'dict') and i not in tops]
        if cands:
            prog['init'] = {'shared': {'r': rng.choice(cands)}}
        else:
            prog['init'] = {'shared': rng.choice([
                hp.alloc('list', rng.choice(['list', 'Acc']), [scalar(rng, 'any')]),
                hp.alloc('dict', rng.choice(['dict', 'OrderedDict']), [[jval('z'), scalar(rng, 'any')]])])}
    # a copying factory: `lambda: type(OBJ)(OBJ)` over some list / tuple / dict of the heap (a NEW object
    # with initial content on every call)
    elif rng.random() < 0.07 and prog['kind'] in ('fold', 'sum', 'flatten', 'merge', 'merge_fn', 'flatten_fn'):
        cands = [i for i, c in enumerate(hp.heap)
                 if c['k'] in ('list', 'dict') or (c['k'] == 'tuple' and c['c'] == 'tuple')]
        if cands and rng.random() < 0.85:
            prog['init'] = {'copy': {'r': rng.choice(cands)}}
        else:
            prog['init'] = {'copy': scalar(rng, rng.choice(['int', 'num', 'str']))}
    # the history: evaluations, and (regmode) registrations before / between them
    events = [{'t': t} for t in targets]
    registry = 'module'
    if regmode:
        for _ in range(rng.choice([0, 1, 1, 2])):
            events.insert(rng.randint(1, len(events)), {'t': rng.choice(targets)})    # the same target again, later
        for _ in range(rng.choice([1, 1, 2, 3])):
            pos = rng.randint(0, len(events) - 1) if rng.random() < 0.9 else len(events)
            events.insert(pos, {'reg': gen_reg(rng, tclasses, prog)})
        if rng.random() < 0.35:
            # a lookup that does not raise, before some evaluation: a `False` it remembers must not show
            for _ in range(rng.choice([1, 1, 2])):
                cls = rng.choice((tclasses or ['list']) + ['int', 'NoneType', 'object', 'Crate', 'Obj', 'GetItemSeq'])
                events.insert(rng.randint(0, len(events) - 1), {'probe': cls})
        if prog['kind'] not in ('flatten_fn', 'merge_fn') and rng.random() < 0.5:
            registry = 'glommer'
    elif prog['kind'] not in ('flatten_fn', 'merge_fn') and rng.random() < 0.1:
        registry = 'glommer'
    return normalise({'heap': hp.heap, 'events': events, 'registry': registry, 'prog': prog}, rng)


def gen_pull_case(rng):
    """laziness: a lazy Flatten / flatten(levels=k, init='lazy') over a GENERATOR nested k levels deep;
    a one-edit mutation plants a value that is not iterable somewhere on the way down"""
    hp = H()
    k = rng.choice([1, 1, 1, 2, 2, 3])
    t = gen_seq_depth(rng, hp, rng.choice(['any', 'int', 'str']), k)
    if rng.random() < 0.5:
        # more source items, among them empty ones (fetched on the way to the next value)
        cell = hp.heap[t['r']]
        for _ in range(rng.choice([1, 2, 3])):
            extra = gen_seq_depth(rng, hp, 'any', k - 1) if rng.random() < 0.6 else container(hp, 'list', [])
            cell['v'].insert(rng.randint(0, len(cell['v'])), extra)
    if rng.random() < 0.3:
        cells = [c for c in hp.heap if c['k'] in ('list', 'tuple')]
        c = rng.choice(cells)
        c['v'].insert(rng.randint(0, len(c['v'])), bad_element(rng, hp) if rng.random() < 0.6 else jval(5))
    hp.heap[t['r']]['k'], hp.heap[t['r']]['c'] = 'tuple', 'generator'
    if k == 1 and rng.random() < 0.5:
        prog = {'kind': 'flatten', 'sub': [], 'init': 'lazy'}
    else:
        prog = {'kind': 'flatten_fn', 'sub': [], 'init': 'lazy', 'levels': k}
    case = normalise({'heap': hp.heap, 'events': [{'t': t}], 'registry': 'module', 'prog': prog, 'pull': True})
    hp.heap[t['r']]['c'] = 'generator'
    return case


PULL_SHARE = 0.06
REG_SHARE = 0.3
REG_HANDLERS = ['h:rev', 'h:rev', 'h:tail', 'h:items', 'h:items', 'h:aslist', 'iter', 'h:raise', None, 'omit']
RELATED = {'Box': ['SubBox', 'SubSubBox', 'object'], 'SubBox': ['Box', 'SubSubBox'], 'SubSubBox': ['SubBox', 'Box'],
           'Bag': ['list', 'SubBag'], 'SubBag': ['Bag', 'list'], 'Acc': ['list'], 'Crate': ['Obj', 'object'],
           'Obj': ['Crate', 'object'], 'list': ['Bag', 'Acc', 'object'], 'tuple': ['object'],
           'dict': ['OrderedDict'], 'OrderedDict': ['dict'], 'generator': ['_AbstractIterable', 'object']}


def gen_reg(rng, tclasses, prog):
    """one `register(cls, iterate=handler, exact=…)` call: the class of a target, a class above or below
    it, a builtin, or (rarely) object / _AbstractIterable"""
    c = rng.random()
    if tclasses and c < 0.55:
        cls = rng.choice(tclasses)
    elif tclasses and c < 0.8:
        cls = rng.choice(RELATED.get(rng.choice(tclasses), ['list']))
    elif c < 0.93:
        cls = rng.choice(['list', 'tuple', 'dict', 'OrderedDict', 'Box', 'Bag', 'Crate', 'generator'])
    else:
        cls = rng.choice(['object', '_AbstractIterable', 'chain'])
    h = rng.choice(REG_HANDLERS)
    kw = [] if h == 'omit' else [['iterate', h]]
    if rng.random() < 0.1:
        kw = kw + [['get', 'getattr']]      # another op registered alongside: the memo is reset all the same
    return {'cls': cls, 'exact': rng.random() < 0.5, 'kw': kw}


def degenerate(hp, v):
    if isinstance(v, dict) and 'r' in v and hp.heap[v['r']]['c'] == 'generator':
        hp.heap[v['r']]['c'] = 'tuple'


def wrap_pool(rng, hp, t, other):
    """put the container `t` behind an instance of a harness class (or make it one): -> (target, class)"""
    if not (isinstance(t, dict) and 'r' in t):
        return t, None
    cell = hp.heap[t['r']]
    if cell['k'] == 'inst':
        return t, cell['c']           # `names` / `items` of a harness object are builtin containers
    c = rng.random()
    if c < 0.45:
        cls = rng.choice(['Box', 'Box', 'SubBox', 'SubSubBox'])
        o = other()
        degenerate(hp, t)
        degenerate(hp, o)
        return hp.alloc('inst', cls, [['names', t], ['items', o]]), cls
    if c < 0.6 and cell['k'] == 'list' and cell['c'] == 'list':
        cell['c'] = rng.choice(['Bag', 'SubBag'])
        return t, cell['c']
    if c < 0.72:
        cls = rng.choice(['Crate', 'Obj'])
        degenerate(hp, t)
        return hp.alloc('inst', cls, [['items', t]]), cls      # no __iter__: a target only once registered
    return t, cell['c']


def gen_seq_depth(rng, hp, leaf, depth, last=None):
    """exactly `depth` levels of sequences above the leaves (depth 0: a sequence of leaves)"""
    n = rng.choice([0, 1, 2, 2, 3]) if depth <= 4 else rng.choice([1, 1, 2])
    kinds = ('list', 'list', 'tuple', 'generator')
    if depth <= 0:
        kind = last or rng.choice(kinds)
        return container(hp, kind, [scalar(rng, leaf) for _ in range(n)])
    items = [gen_seq_depth(rng, hp, leaf, depth - 1, last) for _ in range(n)]
    if depth == 1 and last is None and items and rng.random() < 0.2:
        items.append(jval(rng.choice(STRS)) if leaf not in ('int', 'num') else items[0])   # a str is iterable too
    kind = rng.choice(kinds)
    return container(hp, kind, items)


def reaches_generator(heap, v, seen=None):
    seen = set() if seen is None else seen
    if not isinstance(v, dict) or 'r' not in v or v['r'] in seen:
        return False
    seen.add(v['r'])
    cell = heap[v['r']]
    if cell['c'] == 'generator':
        return True
    vals = cell['v']
    if cell['k'] in ('dict', 'inst'):
        vals = [x for kv in vals for x in kv if not isinstance(x, str)]
    return any(reaches_generator(heap, x, seen) for x in vals)


def generators_reached(heap, v, acc, seen):
    if not isinstance(v, dict) or 'r' not in v or v['r'] in seen:
        return
    seen.add(v['r'])
    cell = heap[v['r']]
    if cell['c'] == 'generator':
        acc.add(v['r'])
    vals = cell['v']
    if cell['k'] in ('dict', 'inst'):
        vals = [x for kv in vals for x in kv if not isinstance(x, str)]
    for x in vals:
        generators_reached(heap, x, acc, seen)


def dedup_generators(heap, targets):
    used, out = set(), []
    for t in targets:
        g = set()
        generators_reached(heap, t, g, set())
        if g & used:
            continue
        used |= g
        out.append(t)
    return out


def refs_in(cell):
    vals = cell['v']
    if cell['k'] == 'dict':
        vals = [x for kv in vals for x in kv]
    elif cell['k'] == 'inst':
        vals = [kv[1] for kv in vals]
    return [x for x in vals if isinstance(x, dict) and 'r' in x]


def reach_all(heap, v, seen):
    if not isinstance(v, dict) or 'r' not in v or v['r'] in seen:
        return
    seen.add(v['r'])
    for x in refs_in(heap[v['r']]):
        reach_all(heap, x, seen)


def count_paths(heap, v, acc, depth):
    if not isinstance(v, dict) or 'r' not in v or depth > 7:
        return
    cell = heap[v['r']]
    if cell['c'] == 'generator':
        acc[v['r']] = acc.get(v['r'], 0) + 1
    for x in refs_in(cell):
        count_paths(heap, x, acc, depth + 1)


def normalise(case, rng=None):
    """canonical form of a case: one cell stands for the empty tuple (CPython has a single `()`),
    and every generator object is reachable at most once (it can be consumed once only)"""
    heap = case['heap']
    events = events_of(case)
    targets = [e['t'] for e in events if 't' in e]
    count = {}
    for cell in heap:
        for x in refs_in(cell):
            count[x['r']] = count.get(x['r'], 0) + 1
    for t in targets:
        if isinstance(t, dict) and 'r' in t:
            count[t['r']] = count.get(t['r'], 0) + 1
    for a, cell in enumerate(heap):
        if cell['c'] == 'generator' and count.get(a, 0) > 1:
            cell['c'] = 'tuple'
    # a generator reached along two different paths from one target is met twice
    for t in targets:
        paths = {}
        count_paths(heap, t, paths, 0)
        for a, n in paths.items():
            if n > 1:
                heap[a]['c'] = 'tuple'
    # a generator below a cell that lies on a cycle is met again on the next round
    for a, cell in enumerate(heap):
        below = set()
        for x in refs_in(cell):
            reach_all(heap, x, below)
        if a in below:
            for b in below:
                if heap[b]['c'] == 'generator':
                    heap[b]['c'] = 'tuple'
    # evaluations that would meet an already consumed generator
    used, out = set(), []
    for ev in events:
        if 't' not in ev:
            out.append(ev)
            continue
        g = set()
        generators_reached(heap, ev['t'], g, set())
        if g & used:
            if rng is not None and rng.random() < 0.5:
                continue
            for a in g & used:
                heap[a]['c'] = 'tuple'
        used |= g
        out.append(ev)
    for cell in heap:
        if cell['c'] != 'generator' and cell['k'] in ('list', 'tuple'):
            cell['v'] = [x for x in cell['v'] if not (isinstance(x, dict) and 'sent' in x)]
    case.pop('targets', None)
    case['events'] = events = out
    case.setdefault('registry', 'module')
    first_empty = None
    remap = {}
    for a, cell in enumerate(heap):
        if cell['k'] == 'tuple' and cell['c'] == 'tuple' and not cell['v']:
            if first_empty is None:
                first_empty = a
            else:
                remap[a] = first_empty
    if remap:
        def fix(x):
            if isinstance(x, dict) and 'r' in x and x['r'] in remap:
                return {'r': remap[x['r']]}
            if isinstance(x, list):
                return [fix(y) for y in x]
            return x
        for cell in heap:
            cell['v'] = [fix(x) for x in cell['v']]
        case['events'] = [({'t': fix(e['t'])} if 't' in e else e) for e in events]
        p = case['prog']
        if isinstance(p.get('init'), dict):
            p['init'] = {k: fix(v) for k, v in p['init'].items()}
    return case


def generate(rng, tier, scale, kinds=None, regs=None, **focus):
    n = (1800 if tier == "quick" else 60000) * scale
    for _ in range(n):
        if not kinds and regs is None and rng.random() < PULL_SHARE:
            yield gen_pull_case(rng)
        else:
            yield gen_case(rng, tier, kinds, regs)
    if tier == 'thorough' and not kinds:
        yield from exhaustive()


def fixed_targets():
    rng = random.Random(4242)
    out = []
    fams = ['int', 'str', 'any', 'list', 'tuple', 'seq', 'dict', 'pairs']
    while len(out) < 30:
        hp = H()
        fam = fams[len(out) % len(fams)]
        t = gen_target(rng, hp, elem_for(fam, depth=len(out) % 2))
        out.append((hp.heap, t))
    for depth in (1, 2, 3):
        hp = H()
        out.append((hp.heap, gen_seq_depth(rng, hp, 'int', depth)))
    out.append(([], {'i': 3}))
    out.append(([], {'s': 'ab'}))
    out.append(([], None))
    return out


def exhaustive():
    """every prog shape over the fixed targets, each evaluated twice on the same target"""
    progs = []
    for init in INITS:
        for op in (None, 'add'):
            progs.append({'kind': 'fold', 'sub': [], 'init': init, 'op': op})
        progs.append({'kind': 'sum', 'sub': [], 'init': init})
        progs.append({'kind': 'flatten', 'sub': [], 'init': init})
        for op in (None, 'update', 'first_wins', 'iadd'):
            progs.append({'kind': 'merge', 'sub': [], 'init': init, 'op': op})
        for lv in (0, 1, 2, 3):
            progs.append({'kind': 'flatten_fn', 'sub': [], 'init': init, 'levels': lv})
    progs += [{'kind': 'sum', 'sub': []}, {'kind': 'count', 'sub': []}, {'kind': 'flatten', 'sub': []},
              {'kind': 'flatten', 'sub': [], 'init': 'lazy'}, {'kind': 'merge', 'sub': []},
              {'kind': 'merge_fn', 'sub': []}, {'kind': 'flatten_fn', 'sub': []},
              {'kind': 'flatten_fn', 'sub': [], 'levels': -1}]
    for lv in (1, 2, 3):
        progs.append({'kind': 'flatten_fn', 'sub': [], 'init': 'lazy', 'levels': lv})
    for init in ('int', 'float', 'list', 'Acc'):
        for op in ('append', 'cons'):
            progs.append({'kind': 'fold', 'sub': [], 'init': init, 'op': op})
    for heap, t in fixed_targets():
        for p in progs:
            yield normalise({'heap': json.loads(json.dumps(heap)), 'events': [{'t': t}, {'t': t}],
                             'registry': 'module', 'prog': dict(p)})
    yield from exhaustive_regs()


def exhaustive_regs():
    """every (instance class, registered class, handler, exact, registry) over three fixed progs, the
    registration placed before / between / after two evaluations of the same object"""
    progs = [{'kind': 'flatten', 'sub': []}, {'kind': 'fold', 'sub': [], 'init': 'list', 'op': 'append'},
             {'kind': 'flatten_fn', 'sub': [], 'levels': 2}]
    insts = ['Box', 'SubBox', 'SubSubBox', 'Bag', 'SubBag', 'Crate', 'list', 'tuple']
    regd = ['Box', 'SubBox', 'Bag', 'Crate', 'Obj', 'list', 'tuple', 'object']
    for p in progs:
        for ic in insts:
            for rc in regd:
                for h in ('h:rev', 'h:items', None, 'omit'):
                    for exact in (False, True):
                        for pos in (0, 1, 2):
                            for registry in (('module', 'glommer') if p['kind'] != 'flatten_fn' else ('module',)):
                                hp = H()
                                a = hp.alloc('list', 'list', [hp.alloc('list', 'list', [{'i': 1}, {'i': 2}]),
                                                              hp.alloc('tuple', 'tuple', [{'i': 3}])])
                                b = hp.alloc('list', 'list', [hp.alloc('list', 'list', [{'i': 4}]),
                                                              hp.alloc('list', 'list', [{'i': 5}, {'i': 6}])])
                                if ic in ('Box', 'SubBox', 'SubSubBox'):
                                    t = hp.alloc('inst', ic, [['names', a], ['items', b]])
                                elif ic == 'Crate':
                                    t = hp.alloc('inst', ic, [['items', a]])
                                elif ic in ('Bag', 'SubBag'):
                                    hp.heap[a['r']]['c'] = ic
                                    t = a
                                elif ic == 'tuple':
                                    hp.heap[a['r']]['k'] = hp.heap[a['r']]['c'] = 'tuple'
                                    t = a
                                else:
                                    t = a
                                events = [{'t': t}, {'t': t}]
                                events.insert(pos, {'reg': {'cls': rc, 'exact': exact,
                                                            'kw': [] if h == 'omit' else [['iterate', h]]}})
                                yield normalise({'heap': hp.heap, 'events': events, 'registry': registry,
                                                 'prog': dict(p)})


def corpus():
    p = os.path.join(os.path.dirname(os.path.dirname(os.path.dirname(os.path.abspath(__file__)))),
                     'corpus', 'C15.jsonl')
    out = []
    if os.path.exists(p):
        for line in open(p):
            if line.strip():
                out.append(json.loads(line))
    return out


def key(case):
    k = {'heap': case['heap'], 'events': events_of(case), 'registry': case.get('registry', 'module'),
         'prog': case['prog']}
    if case.get('pull'):
        k['pull'] = True
    return k


def nontrivial(case, verdict):
    impl = case.get('impl') or {}
    if case.get('pull'):
        return len(impl.get('pulls', [])) >= 2
    if any('err' in r for r in impl.get('results', [])):
        return True
    heap = case['heap']

    def size(v, depth=0):
        if not isinstance(v, dict) or 'r' not in v or depth > 3:
            return 0
        cell = heap[v['r']]
        vals = cell['v']
        if cell['k'] == 'list' or cell['k'] == 'tuple':
            return max([len(vals)] + [size(x, depth + 1) for x in vals])
        if cell['k'] == 'dict':
            return max([len(vals)] + [size(x, depth + 1) for kv in vals for x in kv])
        if cell['k'] == 'inst':
            return max([0] + [size(kv[1], depth + 1) for kv in vals])
        return 0
    return any(size(t) >= 2 for t in targets_of(case))


def compact(case):
    """drop the cells no target (and no shared init) reaches; renumber"""
    heap = case['heap']
    live = set()
    roots = targets_of(case)
    p = case['prog']
    if isinstance(p.get('init'), dict):
        roots += list(p['init'].values())
    for r in roots:
        reach_all(heap, r, live)
    if len(live) == len(heap):
        return case
    order = sorted(live)
    remap = {a: i for i, a in enumerate(order)}

    def fix(x):
        if isinstance(x, dict) and 'r' in x:
            return {'r': remap[x['r']]}
        if isinstance(x, list):
            return [fix(y) for y in x]
        return x
    out = dict(case)
    out['heap'] = [dict(heap[a], v=[fix(x) for x in heap[a]['v']]) for a in order]
    out.pop('targets', None)
    out['events'] = [({'t': fix(e['t'])} if 't' in e else e) for e in events_of(case)]
    if isinstance(p.get('init'), dict):
        out['prog'] = dict(p, init={k: fix(v) for k, v in p['init'].items()})
    return out


def shrink(case):
    base = {k: v for k, v in case.items() if not k.startswith('impl')}
    base['events'] = events_of(case)
    base.pop('targets', None)
    c0 = compact(json.loads(json.dumps(base)))
    if len(c0['heap']) < len(case['heap']):
        yield c0
    for c in _shrink(case):
        yield normalise(json.loads(json.dumps(c)))


def _shrink(case):
    base = {k: v for k, v in case.items() if not k.startswith('impl') and k != 'targets'}
    es = events_of(case)
    base['events'] = es
    for i in range(len(es)):
        if len(es) > 1:
            c = dict(base); c['events'] = es[:i] + es[i + 1:]
            yield c
    if case.get('registry') == 'glommer':
        c = dict(base); c['registry'] = 'module'
        yield c
    for i, e in enumerate(es):
        if 'reg' in e and e['reg']['kw'] and e['reg']['kw'][0][1] not in ('h:rev', None):
            c = dict(base)
            c['events'] = es[:i] + [{'reg': dict(e['reg'], kw=[['iterate', 'h:rev']])}] + es[i + 1:]
            yield c
    heap = case['heap']
    for a, cell in enumerate(heap):
        for i in range(len(cell['v'])):
            h2 = json.loads(json.dumps(heap))
            del h2[a]['v'][i]
            c = dict(base); c['heap'] = h2
            yield c
    p = case['prog']
    if p.get('levels') and p['levels'] > 1:
        c = dict(base); c['prog'] = dict(p, levels=p['levels'] - 1)
        yield c


def focus(disagreements, facts_changed):
    kinds = sorted({c['prog']['kind'] for c, _ in disagreements})
    out = {'kinds': kinds} if kinds else {}
    if disagreements and all(any('reg' in e for e in events_of(c)) for c, _ in disagreements):
        out['regs'] = True
    return out


def focus_changed(changed_funcs):
    """a function of the registry / of target_iter changed: histories with registrations only"""
    if any(('TargetRegistry' in f or 'register' in f or 'target_iter' in f or 'get_handler' in f)
           for f in changed_funcs):
        return {'regs': True}
    return {}
