"""C19 — the CLI prints what the library computes; default-format specs never execute (partial proof).

Generators, implementation runner (glom.cli.main in-process on the RAW argument list, captured stdio,
temp files; `python -m glom` as a process for a few cases), the oracle tables of the trusted
externals, the hostile-spec corpus.

Case shapes (all JSON-able, see lean/Glom/Driver/C19.lean):
  * flags as a dict (`argv`) — rendered to a command line by build_cmdline, which the model's parser
    must read back as the same flags; or a raw argument list (`raw`) with or without the dict;
  * channel mode (`req` + `vias`): ONE request — spec text, target text, flags — delivered through
    several pairs of channels in one case; the observation is the list of outcomes (`impl_vias`) and
    the property includes that they are all the same;
  * `stdin_state`: 'open' | 'closed' (sys.stdin.close()) | 'absent' (sys.stdin is None: fd 0 closed, `<&-`);
    `proc: true` (run as a child process)."""
import ast
import contextlib
import io
import itertools
import json
import os
import shutil
import sys

PROP = 'C19'
LEAN_MODULES = ['Glom.Props.C19']
FACT_FILES = ['C19Facts', 'c19']
READY = True
THEOREMS_PER_MODULE = {'Glom.Props.C19': 22}
MANIFEST = dict(
    text="PARTIAL proof. Lean 4 theorems over a code-shaped model of glom/cli.py AS A FUNCTION OF THE RAW ARGUMENT LIST, "
         "the files and standard input: face's parser (flag-name normalisation, `--flag=value` / `--flag value`, flags "
         "only before the first positional argument, `--`, duplicate / unknown / valueless flags, `--flagfile` with "
         "nesting and cycles, `--help` winning over errors found after the flags were read) run on the option table READ "
         "OFF the Command object get_command() builds (c19_facts_wf: tableWF — the ten flags, kinds, `missing` defaults, "
         "repetition policy, at most two positional arguments, who receives what); then mw_get_target (source selection "
         "and precedence, first-character rule, spec_format / target_format tables extracted from the AST), "
         "mw_handle_target, glom_cli (--debug / --inspect wrap the spec in Inspect, breakpoint / post-mortem only while "
         "stdin is open; GlomError -> exit 1; indent 0 -> None; --scalar), main. External functions are parameters. For ALL "
         "argument lists, file systems, standard inputs and ALL behaviours of the externals: the ten deliveries of a spec "
         "(argument / --spec-file) and target (argument / --target-file / - / --target-file - / piped stdin) print exactly "
         "dumps(glom(load(target), literal(spec)), indent, sort_keys)+newline with exit 0 (c19_output), and — for ANY spec "
         "format and flags, for every facts value — the same texts give the same outcome through every pair of channels "
         "(c19_delivery_independent; c19_channels_check is the checker theorem of the channel observation); a GlomError "
         "gives 'Class: message' and exit 1 (c19_glomerror_exit1); a target the loader rejects — with ANY class — or that "
         "cannot be read gives a UsageError (c19_bad_target_usage_error, c19_unreadable_target_usage_error); the model IS "
         "the manual-style decision table refMain for every flag combination (c19_main_total: order of the problems, each "
         "usage error kind, literal defaults, exact format names, {} for no / an empty target); the process status is 0 "
         "or 1 for every argument list, 1 with text on stdout only for a GlomError, 0 only with the help text or a rendered "
         "result (c19_exit_status, c19_status_zero); the canonical command line of any flags parses back to them "
         "(c19_parse_render), never more positional arguments than allowed (c19_parse_posargs). NEVER EXECUTES: decided on "
         "the call / reference graph extracted from cli.py (c19_never_executes: nothing dangerous reachable without the "
         "`spec_format == 'python-full'` edge; the spec file NAME is only opened / truth-tested / quoted, the spec format "
         "only compared with the three documented names — specNameWF); in the model the exec-based evaluator is irrelevant "
         "unless spec_format is EXACTLY 'python-full' (c19_exec_only_python_full: any other spelling is a usage error), "
         "for every raw argument list that does not carry that text (c19_argv_never_executes), whatever the spec file is "
         "called (c19_spec_file_name_irrelevant), and in the default format not even json.loads sees the spec "
         "(c19_model_no_exec). WHAT IS READ IS WHAT IS LOADED: textFlowWF (c19_facts_wf) — no call, method or slice "
         "between the read of a text (stdin, files, arguments) and its loader / parser. Model tied to the code by running "
         "glom.cli.main in-process (and `python -m glom` as a process) on generated targets x literal specs x deliveries x "
         "formats x flags, raw command lines with one-edit mutations at every parser position, flagfiles, --debug / "
         "--inspect, documents whose meaning changes under a text normalisation delivered through every channel in one "
         "case, and a hostile-spec corpus with planted side effects.",
    note="partial: the JSON/YAML/TOML parsers, ast.literal_eval, repr, int(), json.dumps, is_scalar, str(), glom.glom itself "
         "(C01-C18) with what it prints, Inspect(...), the help text, shlex / codecs for flagfiles are EXTERNAL: parameters "
         "of the model, exercised by the correspondence only (their outputs on the candidate texts are computed by the "
         "harness with the real functions and handed to the model as tables). face's parser is MODELLED (face 24.0 as "
         "installed; its source is not extracted — a different face version shows as a correspondence disagreement); the "
         "option table is extracted. Trusted facts about Python used by the proofs, each evaluated by the driver on every "
         "case: ast.literal_eval(repr(s)) == s (ReprOk); a loader raises Exception subclasses only (LoadErrOk); a failing "
         "text read raises an OSError or a UnicodeError (ReadErrOk); glom.glom prints nothing unless the spec is an "
         "Inspect (QuietOk); int(str(n)) == n (IntReprOk, for the canonical command line only). The PROBE "
         "(extract/facts/c19.py: the installed loaders on a catalogue of 245 malformed texts, 22 (loader, class) groups) is "
         "trusted to reach every class a loader can raise only where a handler does not name Exception — the code as it is "
         "does (c19_handlers_name_exception). The interactive debugger entered by --debug / --inspect is replaced by a "
         "marker line during the correspondence. Flag-name matching is modelled with ASCII lower-casing (no flag name "
         "contains a letter some non-ASCII character lower-cases to). A text file's text is what text-mode reading gives "
         "(universal newlines): files with carriage returns are read back by the oracle. 'never executes' is about "
         "cli.py's own code: that ast.literal_eval and json.loads do not execute code is CPython's guarantee, exercised by "
         "the hostile corpus. Trusted: Lean kernel + {propext, Classical.choice, Quot.sound}; extractor (AST patterns of "
         "cli.py, the call graph construction incl. references and aliases of dangerous names, the text-flow analysis, "
         "introspection of the Command object); harness/driver.",
    technique='Lean 4 refinement proof over an externals-parametric model from the raw argument list down (delivery '
              'independence; total decision table; parser lemmas by structural recursion) + reachability on the extracted '
              'call graph and text-flow / option-table facts by decide + differential correspondence through cli.main and '
              '`python -m glom`',
    ref='DESIGN.md §3 C19')
RULE = ('type-directed: a JSON-representable target (nested dicts/lists/strings/ints/bools/None/floats) is generated, '
        'literal specs (dotted paths, dicts, lists, tuples, nested) are derived from its shape so that most '
        'resolve, the target is serialised in the chosen --target-format (json, python, yaml, toml where '
        'expressible) and spec and target are delivered by argument / file / standard input in all combinations '
        'with --indent in {absent,0,1,2,4} and --scalar; a one-edit mutation stream truncates the target text, '
        'names a missing file, gives both an argument and a file, an unknown format, a missing path segment, an '
        'empty text, a target that is a complete document followed by garbage / a second document / a stray bracket '
        'or preceded by a BOM, a malformed literal, --spec-format json / python-full (benign specs only); '
        'CHANNEL EQUIVALENCE: one case = the same spec text and target text through several (all ten) pairs of '
        'channels, both files present in every delivery — for a sample of the ordinary cases and for '
        'NORMALISATION-SENSITIVE DOCUMENTS: per format x per text normalisation (strip / lstrip / rstrip / ASCII strip / '
        'final newline / splitlines / universal newlines / expandtabs / BOM / NFC / NFKC / dedent / trailing blanks / '
        'case folding) a document — generated, decorated with outer whitespace from a catalogue incl. form feed, NBSP, '
        'line separator, or whitespace only, YAML with block scalars / chomping indicators / an indented body, TOML '
        'multi-line strings — that the REAL loader gives another meaning once normalised (found by asking the loader); '
        'RAW COMMAND LINES: the flags of a generated case in random spellings (case, _ / -, 1-3 dashes), `=` or separate '
        'values, any order — the model\'s parser must arrive at the same flags — and one edit at every position face\'s '
        'parser looks at: unknown flag, valueless flag, duplicate, non-int / odd-int --indent, help among the flags / '
        'with a later error, too many positional arguments, `--` variants, flag after a positional argument, odd first '
        'arguments, constant flag with a value, flag-like values, empty argv, format names in another case, `=` in '
        'values; FLAGFILES (flags, comments, nesting, cycle, twice, missing, directory, not UTF-8, extra arguments, '
        'unknown flag, unbalanced quote, help, duplicates across file and command line); --debug / --inspect with '
        'standard input open or closed (the debugger replaced by a marker); `python -m glom` as a process (exit status '
        'of console_main); MALFORMED TARGETS BY RAISED CLASS: the real loaders are probed with the catalogue of '
        'extract/facts/c19.py and for every (loader, class it raises) a text of the group, bare or embedded as a leaf '
        'of a generated document when that keeps the class, is delivered by argument, file, -, --target-file - and '
        'piped stdin; UNREADABLE TARGETS: target file / standard input / spec file given as BYTES that are no UTF-8, '
        'as bytes that are UTF-8, as a directory; plus a corpus of hostile spec texts (calls, attribute access, '
        'lambdas, comprehensions, f-strings, dunder tricks), each planting a marker file, delivered by argument and '
        'by files named *.glom / *.py / *.PY / *.json / *.yml. non-trivial = the property speaks about the case '
        '(result / GlomError / target usage error / malformed spec / unserialisable result); distinct = distinct (argv, files, stdin). '
        'ADDED after the audit: standard input CLOSED or ABSENT (None) without --debug, in-process and `<&-` as a process; values '
        'outside / at the edge of JSON per format (dates, times, bytes, sets, complex, Ellipsis, mixed-type / tuple / None keys, '
        'NaN, infinities, 1e999) whole or as a leaf, with and without --scalar; specs with non-spec leaves, list specs on scalars, '
        '[] — GlomError classes beyond PathAccessError; spec texts with a trailing newline / leading blank by file and argument; '
        'bare-word attribute walks (dunders, methods) on scalars and containers; negative --indent; the spec file being '
        '/dev/stdin (process); the GlomError line is compared in full')
TRUSTED = ['externals (parsers, literal_eval, repr, int, dumps, glom.glom, Inspect, is_scalar, shlex, the help formatter) '
           'enter the model as tables computed by the harness with the real functions',
           'face 24.0\'s parser is modelled by hand (Model/C19Face.lean), its option table extracted']
READINGS = [
    'an EMPTY target text (an empty argument, file or standard input) and NO target at all (nothing given, standard input '
    'a terminal) are "no target": the empty dict {} — by design (glom\'s own test_cli_blank: `glom` alone prints {}); a '
    'blank text (" ", "\\n") is NOT empty: a malformed document, a usage error; likewise no / an empty spec text is the '
    'identity spec',
    'the command prints what json.dumps can print: for a result outside JSON\'s data model (a date / time from YAML or '
    'TOML, bytes, a set, a complex, Ellipsis, a class or a bound method reached by an attribute path, dict keys of '
    'mixed types under sort_keys, tuple keys) the exception of json.dumps (TypeError) ends the command with a traceback '
    'and status 1 — expected and checked as exactly that (branch unserialisable-*); NaN and the infinities are printed '
    'the way json.dumps prints them (NaN, Infinity)',
    'the spec IS the text that is given: a spec file that ends in a newline holds another text than the same words as '
    'an argument ("a.b\\n" is the path a → "b\\n"; a literal still parses; a leading blank or newline makes a literal a '
    'path string) — channel equivalence is about IDENTICAL texts',
    'the spec arrives by argument or by file; the CLI has no option that reads it from standard input (a spec file that '
    'IS the standard input, --spec-file /dev/stdin, is a file like any other and is exercised as a process)',
    'a default-format spec that is a bare word is taken as a PATH, and glom\'s path access reads attributes: '
    '`__class__.__name__` on 5 prints "int".  That is access, not execution: nothing is called, no side effect; such '
    'specs are expected to print what the library computes (or to end in json.dumps\' TypeError)',
    'a non-GlomError exception out of the library call (branch lib-other-*) and --spec-format python-full / an '
    'undocumented format name / --debug / --inspect / spec or target given twice are outside the statement: the '
    'reference is silent there, the complete decision table (refMain, c19_main_total) is not',
]
ASSUMPTIONS = [
    'environment: GLOM_CLI_DEBUG and GLOM_DEBUG are not set (console_main prints sys.argv and enters pdb under the first, '
    'glom.glom re-raises raw exceptions under the second); the standard streams are UTF-8 with strict error handling '
    '(PYTHONIOENCODING=latin-1 decodes standard input differently from a file; the C locale reads it with '
    'surrogateescape) — the process cases run with PYTHONIOENCODING=utf-8:strict and those variables removed',
    'standard output can encode what is printed: --scalar prints str(result) raw, a lone surrogate in it is a '
    'UnicodeEncodeError of print() — outside the statement; generated strings hold no surrogates',
    'arguments hold no NUL character (the OS cannot pass one to a process; in-process, open("a\\0b") raises a ValueError '
    'that is neither OSError nor UnicodeError)','standard input decodes strictly as UTF-8 (a UTF-8 locale; under the C locale CPython reads it with '
               'surrogateescape and every byte string is text)',
               'the interactive debugger of --debug / --inspect is not driven (replaced by a marker line)',
               'flagfile nesting + lines stay below the model bound (4096 steps)']
ASSUMPTIONS += ['READING: ' + r for r in READINGS]

TMP = '/tmp/c19_%d' % os.getpid()
T = '@T'


def real(p):
    return p.replace(T, TMP) if isinstance(p, str) else p


# ------------------------------------------------------------------ oracle tables
class Ids:
    def __init__(self):
        self.m = {}
        self.v = {}

    def of(self, tag, v, key=None):
        k = tag + ':' + type(v).__name__ + ':' + (key if key is not None else repr(v))
        if k not in self.m:
            self.m[k] = len(self.m)
            self.v[self.m[k]] = v
        return self.m[k]


MROS = {}      # class name -> names of its MRO, for every class an external raised on this case


ADDR = __import__('re').compile(r' at 0x[0-9a-fA-F]+')


def canon_text(s):
    """the text of an observation: the scratch directory and object addresses made run-independent"""
    return ADDR.sub(' at 0x?', s.replace(TMP, T))


def stdin_state(case):
    return case.get('stdin_state') or 'open'


def try_call(f, *a):
    try:
        return ('ok', f(*a))
    except (Exception, SystemExit, GeneratorExit) as e:
        MROS[type(e).__name__] = [c.__name__ for c in type(e).__mro__ if c is not object]
        return ('err', type(e).__name__)


def file_bytes(c):
    return bytes.fromhex(c['bytes'])


def read_text(path):
    with open(path) as f:         # text mode, default encoding: what the CLI does
        return f.read()


LONG_TEXT = 2000     # above this only the loader of the case's own format is run by the oracle
FMT_KIND = {'json': 'json', 'yaml': 'yaml-safe', 'yml': 'yaml-safe', 'toml': 'toml', 'python': 'python-literal'}


class _Marker:
    """stand-ins for pdb.set_trace / pdb.post_mortem while the CLI (or the oracle) runs: the
    interactive debugger is replaced by a line on standard output saying it would have been entered"""
    @staticmethod
    def set_trace(*a, **kw):
        print('<pdb.set_trace>')

    @staticmethod
    def post_mortem(*a, **kw):
        print('<pdb.post_mortem>')


@contextlib.contextmanager
def no_debugger():
    import pdb
    old = pdb.set_trace, pdb.post_mortem
    pdb.set_trace, pdb.post_mortem = _Marker.set_trace, _Marker.post_mortem
    try:
        yield
    finally:
        pdb.set_trace, pdb.post_mortem = old


def face_flags(raw):
    """the flags face's own parser reads from a raw argument list (None when it rejects it): used to
    choose the candidate texts of the oracle tables only"""
    from glom import cli
    try:
        cpr = cli.get_command().parse([real(x) for x in raw])
    except BaseException:
        return None
    fl = cpr.flags or {}
    return {'posargs': [x.replace(TMP, T) for x in (cpr.posargs or ())],
            'target_file': unreal(fl.get('target_file')), 'target_format': fl.get('target_format'),
            'spec_file': unreal(fl.get('spec_file')), 'spec_format': fl.get('spec_format'),
            'indent': fl.get('indent'), 'scalar': bool(fl.get('scalar')), 'debug': bool(fl.get('debug')),
            'inspect': bool(fl.get('inspect')), '_parsed': True}


def unreal(p):
    return p.replace(TMP, T) if isinstance(p, str) else p


def flagfile_table(case, raw):
    """what `--flagfile PATH` reads, the way face reads it (codecs.open utf-8, splitlines, shlex)"""
    import codecs
    import shlex
    paths = [p for p, _c in case['files']]
    toks = list(raw or [])
    for t in list(toks):
        if '=' in t:
            toks.append(t.split('=', 1)[1])
    seen, table, absp, alltoks = set(), [], [], []
    work = [t for t in toks if t.startswith(T)] + paths
    while work:
        p = work.pop()
        if p in seen or len(seen) > 40:
            continue
        seen.add(p)
        try:
            absp.append([p, os.path.abspath(real(p)).replace(TMP, T)])
        except ValueError:
            pass
        try:
            with codecs.open(real(p), 'r', 'utf-8') as f:
                text = f.read()
        except (UnicodeError, EnvironmentError) as e:       # what face turns into an ArgumentParseError
            table.append([p, {'err': type(e).__name__}])
            continue
        except Exception as e:                               # anything else leaves face as it is
            table.append([p, {'exc': type(e).__name__}])
            continue
        lines = []
        for line in text.splitlines():
            try:
                tk = [x.replace(TMP, T) for x in shlex.split(line, comments=True)]
                lines.append({'tok': tk})
                for x in tk:
                    alltoks.append(x)
                    if '=' in x:
                        alltoks.append(x.split('=', 1)[1])
                work += [x for x in alltoks if x.startswith(T)]
            except ValueError as e:
                lines.append({'err': type(e).__name__})
        table.append([p, {'lines': lines}])
    return table, absp, alltoks


def oracle(case, raw=None, more_targets=(), more_specs=()):
    import glom
    from boltons.iterutils import is_scalar
    av = case.get('argv')
    if av is None:
        av = face_flags(raw) or {'posargs': [], '_parsed': False}
    MROS.clear()
    ext = {'parse': [], 'load': [], 'repr': [], 'strspec': [], 'glom': [], 'dumps': [], 'scalar': [], 'read': [],
           'stdin_text': None, 'stdin_err': None, 'inspect': [], 'printed': [], 'parseint': []}
    if raw is not None:
        ext['flagfile'], ext['abspath'], fftoks = flagfile_table(case, raw)
        cands = []
        for t in raw[1:]:
            cands.append(t)
            if '=' in t:
                cands.append(t.split('=', 1)[1])
        for t in dict.fromkeys(cands + fftoks):
            if len(t) <= 40:
                try:
                    n = int(real(t))
                    ext['parseint'].append([t, n if abs(n) < 2 ** 62 else None])
                except ValueError:
                    ext['parseint'].append([t, None])
        if any(t.lstrip('-').split('=', 1)[0].lower() in ('h', 'help') for t in raw[1:] + fftoks):
            from glom import cli
            cmd = cli.get_command()
            prog = raw[0] if raw else 'glom'
            if case.get('proc'):       # `python -m glom`: face shows how the program was really started
                from face.utils import get_minimal_executable
                prog = '%s -m glom' % get_minimal_executable()
            ext['help'] = cmd.help_handler.formatter.get_help_text(cmd, subcmds=(), program_name=prog) + '\n'
    # what reading gives: files whose content is not a text of the case (bytes, a directory) are
    # read back the way the CLI reads them (a text with a carriage return too: text mode translates
    # it); standard input given as bytes is decoded strictly
    files = {}
    for p, c in case['files']:
        if isinstance(c, dict) or (isinstance(c, str) and '\r' in c):
            st, v = try_call(read_text, real(p))
            ext['read'].append([p, {'ok': v.replace(TMP, T)} if st == 'ok' else {'err': v}])
            files[p] = v.replace(TMP, T) if st == 'ok' else None
        else:
            files[p] = c
    stdin_text = case['stdin']
    if isinstance(stdin_text, dict):
        st, v = try_call(lambda: io.TextIOWrapper(io.BytesIO(file_bytes(case['stdin'])), encoding='utf-8',
                                                  errors='strict').read())
        stdin_text = v if st == 'ok' else ''
        ext['stdin_text'], ext['stdin_err'] = (v, None) if st == 'ok' else (None, v)
    # a closed / absent standard input: the classes its use raises are the model's; their MROs are Python's
    for cls in (ValueError, AttributeError):
        MROS[cls.__name__] = [c.__name__ for c in cls.__mro__ if c is not object]
    ids = Ids()
    loaders = {'json': json.loads, 'python-literal': ast.literal_eval}
    try:
        import yaml
        loaders['yaml-safe'] = yaml.safe_load
    except ImportError:
        pass
    try:
        import tomllib
        loaders['toml'] = tomllib.loads
    except ImportError:
        pass
    tcands = []
    if len(av['posargs']) == 2:
        tcands.append(av['posargs'][1])
    if av.get('target_file') and files.get(av['target_file']) is not None:
        tcands.append(files[av['target_file']])
    tcands.append(stdin_text)
    tcands += list(more_targets) + [files[p] for p, _c in case['files'] if p == TARGET_PATH and files.get(p) and more_targets]
    tcands = [t for t in dict.fromkeys(tcands) if t]
    scands = []
    if av['posargs']:
        scands.append(av['posargs'][0])
    if av.get('spec_file') and files.get(av['spec_file']) is not None:
        scands.append(files[av['spec_file']])
    scands += list(more_specs) + [files[p] for p, _c in case['files'] if p == SPEC_PATH and files.get(p) and more_specs]
    scands = [s for s in dict.fromkeys(scands) if s]
    targets = {}
    specs = {}
    e_spec = glom.Path()
    ext['empty_spec'] = ids.of('S', e_spec)
    specs[ext['empty_spec']] = e_spec
    ext['empty_target'] = ids.of('T', {})
    targets[ext['empty_target']] = {}
    own = FMT_KIND.get(av.get('target_format') or 'json')
    for text in tcands:
        for kind, f in loaders.items():
            if len(text) > LONG_TEXT and kind != own:
                continue
            st, v = try_call(f, real(text))
            if st == 'ok':
                i = ids.of('T', v)
                targets[i] = v
                ext['load'].append([kind, text, {'ok': i}])
            else:
                ext['load'].append([kind, text, {'err': v}])
    parsers = {'python-literal': ast.literal_eval, 'json': json.loads}
    if case.get('trusted_spec'):
        from glom import cli
        parsers['exec'] = cli._eval_python_full_spec
    for text in scands:
        r = repr(real(text)).replace(TMP, T)
        ext['repr'].append([text, r])
        i = ids.of('S', real(text))
        specs[i] = real(text)
        ext['strspec'].append([text, i])
        for variant in (text, r):
            for kind, f in parsers.items():
                if kind == 'exec' and variant is not text:
                    continue
                st, v = try_call(f, real(variant))
                if st == 'ok':
                    i = ids.of('S', v)
                    specs[i] = v
                    ext['parse'].append([kind, variant, {'ok': i}])
                else:
                    ext['parse'].append([kind, variant, {'err': v}])
    indents = [None, 2]
    if av.get('indent') not in (None, 0):
        indents.append(av['indent'])
    if av.get('indent') == 0:
        indents.append(None)
    results = {}
    if av.get('debug') or av.get('inspect'):
        dbg, insp = bool(av.get('debug')), bool(av.get('inspect'))
        is_open = stdin_state(case) == 'open'
        flags = [insp, insp, insp and is_open, dbg and is_open]
        for si, sp in list(specs.items()):
            w = glom.Inspect(sp, echo=flags[0], recursive=flags[1], breakpoint=flags[2], post_mortem=flags[3])
            wi = ids.of('S', w, key='Inspect(%d,%r)' % (si, flags))
            specs[wi] = w
            ext['inspect'].append([si] + flags + [wi])
    for ti, t in targets.items():
        for si, s in specs.items():
            buf = io.StringIO()
            try:
                with contextlib.redirect_stdout(buf):
                    r = glom.glom(t, s)
            except glom.GlomError as ge:
                ext['glom'].append([ti, si, {'glomerror': [type(ge).__name__, canon_text(str(ge))]}])
            except BaseException as e:
                ext['glom'].append([ti, si, {'other': type(e).__name__}])
            else:
                ri = ids.of('R', r)
                results[ri] = r
                ext['glom'].append([ti, si, {'ok': ri}])
            if buf.getvalue():
                ext['printed'].append([ti, si, canon_text(buf.getvalue())])
    for ri, r in results.items():
        for ind in dict.fromkeys(indents):
            st, v = try_call(lambda: json.dumps(r, indent=ind, sort_keys=True))
            ext['dumps'].append([ri, ind, {'ok': v} if st == 'ok' else {'err': v}])
        try:
            s = str(r)
        except Exception:
            s = '<str-raises>'
        ext['scalar'].append([ri, bool(is_scalar(r)), canon_text(s)])
    ext['mro'] = sorted([k, v] for k, v in MROS.items())
    ext.setdefault('help', None)
    ext.setdefault('flagfile', [])
    ext.setdefault('abspath', [])
    return ext


# ------------------------------------------------------------------ running the real CLI
class FakeStdin(io.StringIO):
    def __init__(self, text, tty):
        super().__init__(text)
        self._tty = tty

    def isatty(self):
        if self.closed:
            raise ValueError('I/O operation on closed file')
        return self._tty


class ByteStdin(io.TextIOWrapper):
    """a standard input of BYTES, decoded the way a UTF-8 locale decodes it (strictly)"""
    def __init__(self, data, tty):
        super().__init__(io.BytesIO(data), encoding='utf-8', errors='strict')
        self._tty = tty

    def isatty(self):
        if self.closed:
            raise ValueError('I/O operation on closed file')
        return self._tty


def make_stdin(case):
    if isinstance(case['stdin'], dict):
        return ByteStdin(file_bytes(case['stdin']), case['tty'])
    return FakeStdin(real(case['stdin']), case['tty'])


def build_cmdline(av):
    out = []
    for flag, key in (('--target-file', 'target_file'), ('--target-format', 'target_format'),
                      ('--spec-file', 'spec_file'), ('--spec-format', 'spec_format'), ('--indent', 'indent')):
        if av.get(key) is not None:
            out += [flag, str(real(av[key]))]
    for flag in ('scalar', 'debug', 'inspect'):
        if av.get(flag):
            out.append('--' + flag)
    return out + [real(p) for p in av['posargs']]


def write_files(case):
    shutil.rmtree(TMP, ignore_errors=True)
    os.makedirs(TMP)
    for p, c in case['files']:
        if not p.startswith(T):
            continue                      # a device (/dev/stdin): nothing to write
        if isinstance(c, dict) and c.get('dir'):
            os.makedirs(real(p))
        elif isinstance(c, dict):
            with open(real(p), 'wb') as f:
                f.write(file_bytes(c))
        elif c is not None:
            with open(real(p), 'w', newline='') as f:      # as it is: no newline translation on the way in
                f.write(real(c))


def run_cli(case, raw):
    """glom.cli.main(raw) in-process on the case's files and standard input → {'outcome', 'side_effect'}"""
    from glom import cli
    from face import UsageError, CommandLineError
    marker = os.path.join(TMP, 'MARK')
    so, se = io.StringIO(), io.StringIO()
    old_in = sys.stdin
    st = stdin_state(case)
    if st == 'absent':
        sys.stdin = None                  # what Python gives a process started with fd 0 closed
    else:
        sys.stdin = make_stdin(case)
        if st == 'closed':
            sys.stdin.close()
    try:
        with contextlib.redirect_stdout(so), contextlib.redirect_stderr(se), no_debugger():
            try:
                rc = cli.main([real(x) for x in raw])
                outcome = {'exit': [int(rc or 0), canon_text(so.getvalue())]}
            except UsageError as ue:
                # a usage error: non-zero status and NO result on standard output
                if so.getvalue():
                    outcome = {'exc': '<result-printed-before-usage-error>'}
                elif ue.code in (0, None):
                    outcome = {'exit': [0, '']}
                else:
                    outcome = {'usage': True}
            except CommandLineError as ce:
                # face rejected the command line: non-zero status, nothing on standard output
                outcome = {'cli': True} if (not so.getvalue() and ce.code not in (0, None)) \
                    else {'exc': '<command-line-error-with-output-or-status-0>'}
            except SystemExit as e:
                outcome = {'exit': [e.code if isinstance(e.code, int) else 1, canon_text(so.getvalue())]}
            except BaseException as e:
                outcome = {'exc': type(e).__name__}
    finally:
        sys.stdin = old_in
    return {'outcome': outcome, 'side_effect': os.path.exists(marker)}


def raw_of(case):
    if case.get('raw') is not None:
        return list(case['raw'])
    return ['glom'] + [x.replace(TMP, T) for x in build_cmdline(case['argv'])]


def run_impl(case):
    out = dict(case)
    out['stdin_state'] = stdin_state(case)
    out.setdefault('hostile', False)
    if isinstance(out.get('argv'), dict):
        av = dict(out['argv'])
        for k in ('debug', 'inspect', 'scalar'):
            av[k] = bool(av.get(k))
        for k in ('target_file', 'target_format', 'spec_file', 'spec_format', 'indent'):
            av.setdefault(k, None)
        out['argv'] = av
    try:
        if case.get('vias'):
            return run_channels(case, out)
        raw = raw_of(case)
        out['raw'] = raw
        write_files(case)
        with no_debugger():
            out['ext'] = oracle(case, raw)
        marker = os.path.join(TMP, 'MARK')
        if os.path.exists(marker):        # an oracle call must not have planted it either
            out['impl'] = {'outcome': {'exc': '<oracle-executed-spec>'}, 'side_effect': True}
            return out
        if case.get('proc'):
            out['impl'] = run_process(case, raw)
        else:
            out['impl'] = run_cli(case, raw)
    finally:
        shutil.rmtree(TMP, ignore_errors=True)
    return out


SPEC_PATH, TARGET_PATH = T + '/spec.glom', T + '/target.dat'


def via_case(req, sv, tv):
    """the request delivered through one pair of channels; BOTH files exist in every delivery"""
    c = assemble(req['spec'], req['target'], sv, tv, req['fmt'], req['indent'], req['scalar'], junk=req['junk'],
                 tty=req['tty'])
    c['argv']['spec_format'] = req.get('spec_format')
    c['files'] = [[SPEC_PATH, req['spec']], [TARGET_PATH, req['target']]]
    return c


def run_channels(case, out):
    """channel mode: the same spec text and target text through every pair of channels of `vias`"""
    req = case['req']
    subs = [via_case(req, sv, tv) for sv, tv in case['vias']]
    first = subs[0]
    for k in ('argv', 'files', 'stdin', 'tty'):
        out[k] = first[k]
    write_files(first)
    ext = oracle(first, None, more_targets=[req['target'], req['junk']], more_specs=[req['spec']])
    # the junk on standard input of the deliveries that do not use it is a candidate text as well
    out['ext'] = ext
    marker = os.path.join(TMP, 'MARK')
    if os.path.exists(marker):
        out['impl_vias'] = [{'outcome': {'exc': '<oracle-executed-spec>'}, 'side_effect': True} for _ in subs]
        return out
    res = []
    for sub in subs:
        write_files(sub)
        res.append(run_cli(sub, ['glom'] + [x.replace(TMP, T) for x in build_cmdline(sub['argv'])]))
    out['impl_vias'] = res
    out['impl'] = res[0]
    return out


def run_process(case, raw):
    """`python -m glom …` as a process: exit status and standard output of console_main"""
    import subprocess
    repo = os.environ.get('GLOM_REPO', '/repo')
    data = file_bytes(case['stdin']) if isinstance(case['stdin'], dict) else real(case['stdin']).encode('utf-8')
    # ASSUMPTIONS: no GLOM_CLI_DEBUG / GLOM_DEBUG in the environment, standard streams in strict UTF-8
    env = dict(os.environ, PYTHONPATH=repo, PYTHONIOENCODING='utf-8:strict', PYTHONDONTWRITEBYTECODE='1')
    for k in ('GLOM_CLI_DEBUG', 'GLOM_DEBUG', 'PYTHONUTF8', 'PYTHONCOERCECLOCALE'):
        env.pop(k, None)
    cmd = [sys.executable, '-m', 'glom'] + [real(x) for x in raw[1:]]
    if stdin_state(case) == 'absent':       # `python -m glom … <&-`: fd 0 closed before the interpreter starts
        p = subprocess.run(cmd, env=env, stdout=subprocess.PIPE, stderr=subprocess.PIPE, cwd=TMP, timeout=60,
                           stdin=None, preexec_fn=lambda: os.close(0))
    else:
        p = subprocess.run(cmd, input=data, env=env, stdout=subprocess.PIPE, stderr=subprocess.PIPE, cwd=TMP,
                           timeout=60)
    so = canon_text(p.stdout.decode('utf-8', 'replace'))
    se = p.stderr.decode('utf-8', 'replace')
    first = (se.strip().splitlines() or [''])[0]
    if p.returncode == 0 or (p.returncode == 1 and so):
        outcome = {'exit': [p.returncode, so]}
    elif 'Traceback (most recent call last)' in se:
        last = [ln for ln in se.strip().splitlines() if ln and not ln.startswith(' ')][-1]
        outcome = {'exc': last.split(':')[0].split('.')[-1]}
    elif first.startswith('error: ') and p.returncode == 1:
        # face names the program in the errors of its own parser, not in a UsageError of the application
        outcome = {'cli': True} if '__main__.py' in first.split(': ')[1] else {'usage': True}
    else:
        outcome = {'exc': '<status %d: %s>' % (p.returncode, se[-80:])}
    return {'outcome': outcome, 'side_effect': os.path.exists(os.path.join(TMP, 'MARK')), 'proc': True}


# ------------------------------------------------------------------ generators
KEYS = ['a', 'b', 'c', 'name', 'k0', 'x y']
STRS = ['', 'x', 'hello', 'a.b', 'ünï', '"q"', "it's", '-']


def gen_value(rng, depth, toml=False):
    p = rng.random()
    if depth <= 0 or p < 0.3:
        q = rng.random()
        if q < 0.3:
            return rng.choice([0, 1, -7, 42, 10 ** 12])
        if q < 0.6:
            return rng.choice(STRS)
        if q < 0.72:
            return rng.choice([True, False])
        if q < 0.82 and not toml:
            return None
        return rng.choice([1.5, -0.25, 3.0])
    if p < 0.7:
        ks = rng.sample(KEYS, rng.choice([1, 2, 2, 3]))
        return {k: gen_value(rng, depth - 1, toml) for k in ks}
    n = rng.choice([0, 1, 2, 3])
    if toml:      # TOML arrays: keep them homogeneous scalars / tables
        if rng.random() < 0.5:
            return [rng.choice([1, 2, 3]) for _ in range(n)]
        return [{'a': gen_value(rng, 0, True)} for _ in range(n)]
    return [gen_value(rng, depth - 1) for _ in range(n)]


def toml_dumps(d, prefix=''):
    """minimal TOML writer for dicts of scalars / arrays / tables (keys quoted)"""
    lines, tables = [], []

    def scalar(v):
        if isinstance(v, bool):
            return 'true' if v else 'false'
        if isinstance(v, (int, float)):
            return repr(v)
        if isinstance(v, str):
            return json.dumps(v)
        if isinstance(v, list):
            return '[' + ', '.join(scalar(x) for x in v) + ']'
        if isinstance(v, dict):
            return '{' + ', '.join('%s = %s' % (json.dumps(k), scalar(x)) for k, x in v.items()) + '}'
        raise TypeError(v)
    for k, v in d.items():
        if isinstance(v, dict):
            tables.append((k, v))
        else:
            lines.append('%s = %s' % (json.dumps(k), scalar(v)))
    out = '\n'.join(lines) + ('\n' if lines else '')
    for k, v in tables:
        name = (prefix + '.' if prefix else '') + json.dumps(k)
        out += '[%s]\n' % name + toml_dumps(v, name)
    return out


def paths_of(v, limit=3):
    """dotted paths that resolve in v"""
    out = []

    def rec(x, p, d):
        if p:
            out.append('.'.join(p))
        if d >= limit:
            return
        if isinstance(x, dict):
            for k, c in x.items():
                if k and '.' not in k and not k[0] in '"\'[{(-':
                    rec(c, p + [k], d + 1)
        elif isinstance(x, list):
            for i, c in enumerate(x[:2]):
                rec(c, p + [str(i)], d + 1)
    rec(v, [], 0)
    return out


def gen_spec(rng, target, depth=2):
    ps = paths_of(target) or ['a']
    p = rng.random()
    if depth <= 0 or p < 0.35:
        return rng.choice(ps)
    if p < 0.65:
        return {rng.choice(['x', 'y', 'out', 'a']): gen_spec(rng, target, depth - 1)
                for _ in range(rng.choice([1, 2, 3]))}
    if p < 0.8:
        return tuple(gen_spec(rng, target, 0) for _ in range(rng.choice([0, 1, 1])))
    if p < 0.9 and isinstance(target, list):
        return [rng.choice(['a', 'b', ()])]
    if p < 0.95:
        return {'k': (rng.choice(ps), )}
    return rng.choice([(), {}, {'n': ()}])


def spec_text(rng, spec):
    if isinstance(spec, str) and rng.random() < 0.6 and spec and spec[0] not in '"\'[{(-':
        return spec                      # bare word: taken as a path string
    r = repr(spec)
    if rng.random() < 0.3:
        try:
            j = json.dumps(spec)
            if ast.literal_eval(j) == spec:
                return j
        except Exception:
            pass
    return r


def serialise(rng, target, fmt):
    if fmt == 'json':
        return json.dumps(target, indent=rng.choice([None, None, 2]), ensure_ascii=rng.random() < 0.5)
    if fmt == 'python':
        return repr(target)
    if fmt in ('yaml', 'yml'):
        import yaml
        return yaml.safe_dump(target, default_flow_style=rng.choice([None, True, False]), allow_unicode=True)
    if fmt == 'toml':
        return toml_dumps(target)
    raise ValueError(fmt)


SPEC_VIAS = ['argv', 'argv', 'file']
TARGET_VIAS = ['argv', 'argv', 'file', 'dash', 'dashfile', 'piped']


SPEC_NAMES = ['spec.glom', 'spec.glom', 'spec.txt', 'spec.py', 'spec.PY', 'spec.json', 'spec.JSON', 'spec.yml',
              'spec.Py', 'spec', 'spec.py.txt']


def assemble(spec_txt, target_txt, sv, tv, fmt, indent, scalar, junk='{"junk": 1}', tty=True,
             spec_name='spec.glom'):
    files = []
    av = {'posargs': [], 'target_file': None, 'target_format': fmt, 'spec_file': None, 'spec_format': None,
          'indent': indent, 'scalar': scalar}
    sp = spec_txt if sv == 'argv' else ''
    if sv == 'file':
        av['spec_file'] = T + '/' + spec_name
        files.append([T + '/' + spec_name, spec_txt])
    if tv == 'argv':
        av['posargs'] = [sp, target_txt]
    elif tv == 'dash':
        av['posargs'] = [sp, '-']
    else:
        av['posargs'] = [sp] if sv == 'argv' else []
    if tv == 'file':
        av['target_file'] = T + '/target.dat'
        files.append([T + '/target.dat', target_txt])
    elif tv == 'dashfile':
        av['target_file'] = '-'
    stdin = target_txt if tv in ('dash', 'dashfile', 'piped') else junk
    if tv == 'piped':
        tty = False
    return {'argv': av, 'files': files, 'stdin': stdin, 'tty': tty, 'hostile': False}


def gen_case(rng):
    fmt = rng.choice(['json', 'json', 'json', None, 'python', 'yaml', 'yml', 'toml'])
    eff = fmt or 'json'
    target = gen_value(rng, rng.choice([1, 2, 3]), toml=(eff == 'toml'))
    if eff == 'toml' and not isinstance(target, dict):
        target = {'a': target}
    spec = gen_spec(rng, target)
    st = spec_text(rng, spec)
    tt = serialise(rng, target, eff)
    sv, tv = rng.choice(SPEC_VIAS), rng.choice(TARGET_VIAS)
    if tv == 'argv' and (not tt or tt[0] == '-'):
        tv = 'file'
    if sv == 'argv' and (not st or st[0] == '-'):
        sv = 'file'
    return assemble(st, tt, sv, tv, fmt, rng.choice([None, None, 0, 1, 2, 4, -1, -3]), rng.random() < 0.25,
                    junk=rng.choice(['', '{"junk": 1}', 'not json']), tty=rng.random() < 0.6,
                    spec_name=rng.choice(SPEC_NAMES))


def malform(rng, text):
    """a malformed variant of a target text: cut in the middle, or — the shapes a lenient
    parser lets through — a complete document followed / preceded by something else"""
    k = rng.randrange(9)
    if k < 2 or not text.strip():
        return text[:max(1, len(text) // 2)]
    t = text.rstrip()
    return [t + ' xyz', t + '\n' + t + '\n', t + t, t + ']', t + '}', t + ',', '\ufeff' + t][k - 2]


MALFORMED_JSON = ['{"a": {"b": 1}} trailing garbage', '{"a": {"b": 1}}\n{"a": {"b": 2}}\n',
                  '{"a": {"b": 1}}{"a": {"b": 1}}', '{"a": {"b": 1}}]', '{"a": {"b": 1}},', '[1, 2]]',
                  '\ufeff{"a": {"b": 1}}', '{"a": {"b": 1}} {', '1 2', '"a" "b"', 'null,']


def malformed_target_cases():
    """whole-text-malformed JSON whose prefix is a complete document, in every delivery"""
    for i, text in enumerate(MALFORMED_JSON):
        for tv in ('argv', 'file', 'dash', 'dashfile', 'piped'):
            yield assemble(['a.b', "{'out': 'a.b'}", 'a'][i % 3], text, ['argv', 'file'][i % 2], tv,
                           [None, 'json'][i % 2], None, False)


def mutate(rng, case):
    c = json.loads(json.dumps({k: v for k, v in case.items() if k not in ('impl', 'ext')}))
    av = c['argv']
    k = rng.randrange(13)
    if k in (0, 11):      # malformed target: whichever text is the target
        if av['target_file'] and av['target_file'] != '-' and c['files']:
            for f in c['files']:
                if f[0] == av['target_file'] and f[1] and isinstance(f[1], str):
                    f[1] = malform(rng, f[1])
        elif len(av['posargs']) == 2 and av['posargs'][1] != '-':
            av['posargs'][1] = malform(rng, av['posargs'][1])
            if av['posargs'][1][:1] == '-':
                av['posargs'][1] = ' ' + av['posargs'][1]
        elif isinstance(c['stdin'], str):
            c['stdin'] = malform(rng, c['stdin'])
    elif k == 1:    # missing target file
        if len(av['posargs']) == 2:
            av['posargs'] = av['posargs'][:1]
        av['target_file'] = T + '/missing.dat'
    elif k == 2:    # both a spec argument and a spec file
        av['spec_file'] = T + '/spec2.glom'
        c['files'].append([T + '/spec2.glom', "'a'"])
    elif k == 3:    # both a target argument and a target file
        if len(av['posargs']) == 2:
            av['target_file'] = T + '/t2.dat'
            c['files'].append([T + '/t2.dat', '{"a": 1}'])
    elif k == 4:
        av['target_format'] = rng.choice(['xml', 'JSON', '', 'python', 'toml', 'yaml'])
    elif k == 5:    # a path segment that does not exist: GlomError
        if av['posargs'] and av['posargs'][0] and not av['spec_file']:
            av['posargs'][0] = rng.choice(['zz', 'a.zz.q', "{'x': 'zz'}", "('a', 'zz')", '0.zz'])
    elif k == 6:    # empty target text
        if len(av['posargs']) == 2:
            av['posargs'][1] = ''
        else:
            c['stdin'] = ''
    elif k == 7:    # malformed literal
        if av['posargs'] and not av['spec_file']:
            av['posargs'][0] = rng.choice(["{'a': ", "['a'", "('a',", "'a", '{"a": b}', '[1 2]', "{'a': T}"])
    elif k == 8:    # other spec formats (benign text only)
        av['spec_format'] = rng.choice(['json', 'python-full', 'python', 'yaml'])
        c['trusted_spec'] = True
        if av['posargs'] and not av['spec_file']:
            av['posargs'][0] = rng.choice(['"a"', '{"x": "a"}', "T['a']", "'a'"])
    elif k == 9:    # leading blank / trailing newline in the spec text
        if av['posargs'] and av['posargs'][0] and not av['spec_file']:
            av['posargs'][0] = rng.choice([' ', '']) + av['posargs'][0] + rng.choice(['\n', ' ', ''])
    elif k == 10:   # unreadable / missing spec file
        av['spec_file'] = T + '/nospec.glom'
        if av['posargs']:
            av['posargs'][0] = ''
    else:
        c['tty'] = not c['tty']
    return c


HOSTILE = [
    "__import__('os').system('touch @T/MARK')",
    "(__import__('os').system('touch @T/MARK'))",
    "[__import__('os').system('touch @T/MARK')]",
    "{'a': __import__('os').system('touch @T/MARK')}",
    "{__import__('os').system('touch @T/MARK'): 'a'}",
    "(lambda: open('@T/MARK', 'w'))()",
    "[open('@T/MARK', 'w') for _ in (1,)]",
    "{x: open('@T/MARK', 'w') for x in (1,)}",
    "().__class__.__bases__[0].__subclasses__()",
    "\"a\".__class__.__mro__",
    "'%s' % open('@T/MARK', 'w')",
    "'a' + str(open('@T/MARK', 'w'))",
    "{1: 2}.get(open('@T/MARK', 'w'))",
    "(1).__add__(open('@T/MARK', 'w').fileno())",
    "eval(\"open('@T/MARK', 'w')\")",
    "exec(\"open('@T/MARK', 'w')\")",
    "f\"{open('@T/MARK', 'w')}\"",
    "open('@T/MARK', 'w')",
    "[].__class__.__init__.__globals__",
    "(open('@T/MARK', 'w'), 'a')",
    "{'a': (lambda x: open('@T/MARK', 'w'))}",
    "[x for x in ().__class__.__bases__]",
    "(yield open('@T/MARK', 'w'))",
    "(await open('@T/MARK', 'w'))",
    "[*open('@T/MARK', 'w')]",
    "{**{'a': open('@T/MARK', 'w')}}",
    "('a' if open('@T/MARK', 'w') else 'b')",
    "(a := open('@T/MARK', 'w'))",
    "T['a'].__class__",
    "Call(open, args=('@T/MARK', 'w'))",
    "Invoke(open).constants('@T/MARK', 'w')",
    "(Call(open, args=('@T/MARK', 'w')),)",
    "\"\\x5f_import__('os')\".system('touch @T/MARK')",
    "[1][open('@T/MARK', 'w').fileno()]",
    "-open('@T/MARK', 'w').fileno()"[1:],
    "{'a': 1}['a'].__class__(open('@T/MARK', 'w'))",
    "compile(\"open('@T/MARK','w')\", 'x', 'exec')",
    "__builtins__.__dict__['open']('@T/MARK', 'w')",
    "globals()['__builtins__']",
    "(lambda: 0).__globals__['os'].system('touch @T/MARK')",
]


def hostile_cases():
    for i, h in enumerate(HOSTILE):
        for sv in ('argv', 'file'):
            for tgt in ('{"a": {"b": 1}}', '{}'):
                c = assemble(h, tgt, sv, ['argv', 'file', 'piped'][i % 3], None, None, False)
                c['hostile'] = True
                yield c
        # the same text in spec files whose NAME suggests another language: the default format
        # is 'python' whatever the file is called
        for j, name in enumerate(('spec.py', 'spec.PY', 'spec.json', 'spec.yml')):
            c = assemble(h, '{"a": {"b": 1}}', 'file', ['argv', 'file', 'piped'][(i + j) % 3], None, None, False,
                         spec_name=name)
            c['hostile'] = True
            yield c


def named_spec_file_cases():
    """benign literal specs in files with every extension: parsed as literals all the same"""
    for name in sorted(set(SPEC_NAMES)):
        for st in ("{'out': 'a.b'}", 'a.b', "('a', 'b')", '{"out": "a.b"}'):
            yield assemble(st, '{"a": {"b": 1}}', 'file', 'argv', None, None, False, spec_name=name)


HOSTILE_TARGETS = [
    ('yaml', '!!python/object/apply:os.system ["touch @T/MARK"]'),
    ('yml', 'a: !!python/object/apply:os.system ["touch @T/MARK"]'),
    ('yaml', '!!python/object/new:os.system ["touch @T/MARK"]'),
    ('python', "__import__('os').system('touch @T/MARK')"),
    ('python', "{'a': open('@T/MARK', 'w')}"),
    ('python', "[x for x in (open('@T/MARK', 'w'),)]"),
]


def hostile_target_cases():
    """target texts that a safe loader must reject (usage error), never evaluate"""
    for i, (fmt, text) in enumerate(HOSTILE_TARGETS):
        for tv in ('argv', 'file', 'piped'):
            c = assemble('a', text, 'argv', tv, fmt, None, False)
            c['hostile'] = True
            yield c


# ------------------------------------------------------------------ malformed targets BY RAISED CLASS
_FACTS = []


def facts_mod():
    """extract/facts/c19.py: the catalogue of malformed texts and the probe (shared with the extractor,
    which turns the probe's classes into the fact the handler of mw_handle_target is checked against)"""
    if not _FACTS:
        import importlib.util
        fp = os.path.join(os.path.dirname(os.path.dirname(os.path.dirname(os.path.abspath(__file__)))),
                          'extract', 'facts', 'c19.py')
        spec = importlib.util.spec_from_file_location('c19_facts_for_harness', fp)
        m = importlib.util.module_from_spec(spec)
        spec.loader.exec_module(m)
        _FACTS.append(m)
    return _FACTS[0]


KIND_FMTS = {'json': [None, 'json'], 'python-literal': ['python'], 'yaml-safe': ['yaml', 'yml'], 'toml': ['toml']}
_GROUPS = []


def class_groups():
    """[(loader kind, raised class, [texts])]: the real loaders run on the catalogue, grouped by the class
    each raises (a text a loader accepts is no malformed target and is left to the ordinary stream)"""
    if not _GROUPS:
        for kind, groups in sorted(facts_mod().probe().items()):
            for cls, g in sorted(groups.items()):
                if cls != 'OK':
                    _GROUPS.append((kind, cls, g['texts']))
    return _GROUPS


def raised_class(kind, text):
    f = facts_mod().loaders().get(kind)
    try:
        f(text)
        return 'OK'
    except BaseException as e:      # measuring the loader
        return type(e).__name__


def embed(rng, kind, frag):
    """the malformed fragment inside a generated, otherwise well-formed document of the format"""
    if len(frag) > 200:
        return frag
    if kind in ('json', 'python-literal'):
        inner = gen_value(rng, rng.choice([0, 1, 2]))
        doc = rng.choice([{'a': inner, 'zz': '@@F@@'}, [inner, '@@F@@'], {'a': {'b': ['@@F@@']}}, {'zz': '@@F@@', 'a': inner}])
        text = json.dumps(doc) if kind == 'json' else repr(doc)
        return text.replace('"@@F@@"' if kind == 'json' else "'@@F@@'", frag)
    if kind == 'yaml-safe':
        ind = '  '
        body = '\n'.join(ind + ln for ln in frag.split('\n'))
        return rng.choice(['k0: 1\nzz:\n' + body + '\n', 'zz:\n' + body + '\nname: x\n', '- 1\n-\n' + body + '\n'])
    if kind == 'toml':
        return rng.choice(['"k0" = 1\n' + frag + '\n', '[t]\nx = "y"\n' + frag + '\n', frag + '\n"name" = "x"\n'])
    return frag


CLASS_SPECS = ['a', 'a.b', "{'x': 'a'}", "('a', 'b')", 'zz', "['a']", "'a'"]
DELIVERIES = ['argv', 'file', 'dash', 'dashfile', 'piped']


def malformed_by_class_cases(rng, reps=1, exhaustive_texts=False):
    """every class each loader raises on text, in every delivery of the target: the expected outcome is
    the usage error whatever the class"""
    for kind, cls, texts in class_groups():
        picks = texts if exhaustive_texts else [rng.choice(texts) for _ in range(reps)]
        for frag in picks:
            shift = rng.randrange(len(DELIVERIES))
            for i in range(len(DELIVERIES)):
                tv = DELIVERIES[(i + shift) % len(DELIVERIES)]
                text = frag
                if rng.random() < 0.5:
                    e = embed(rng, kind, frag)
                    if raised_class(kind, e) == cls:       # still the class this group is about
                        text = e
                if tv == 'argv' and (text[:1] == '-' or '\x00' in text):
                    tv = rng.choice(['file', 'piped'])     # not a positional argument a shell can pass
                spec = rng.choice(CLASS_SPECS)
                sv = rng.choice(SPEC_VIAS)
                yield assemble(spec, text, sv, tv, rng.choice(KIND_FMTS[kind]),
                               rng.choice([None, None, 0, 2]), rng.random() < 0.2,
                               junk=rng.choice(['', '{"junk": 1}']), tty=rng.random() < 0.6,
                               spec_name=rng.choice(SPEC_NAMES))


# ------------------------------------------------------------------ targets that cannot be read
def not_utf8(rng, text):
    """bytes that are no UTF-8 text, derived from a well-formed document"""
    b = text.encode('utf-8')
    k = rng.randrange(6)
    if k == 0:
        return ('\u00fc' + text).encode('latin-1', 'replace')           # a Latin-1 file
    if k == 1:
        return text.encode('utf-16')                                    # BOM ff fe + NULs
    if k == 2:
        i = rng.randrange(len(b) + 1)
        return b[:i] + rng.choice([b'\xff', b'\x80', b'\xc3', b'\xed\xa0\x80', b'\xf8\x88\x80\x80\x80']) + b[i:]
    if k == 3:
        return b + b'\xc3'                                              # truncated multi-byte sequence at the end
    if k == 4:
        return b'\xfe\xff' + b
    return b.replace(b'"', b'\x93', 1) if b'"' in b else b'\xa0' + b  # a cp1252 quote


def unreadable_cases(rng, n):
    """the target (file or standard input) or the spec file is not text / not a file: bytes that are no
    UTF-8, a directory; and — the other side of the same class — bytes that ARE UTF-8 (multi-byte
    characters, a BOM), which must be read like any text"""
    for i in range(n):
        fmt = rng.choice(['json', None, 'python', 'yaml', 'toml'])
        eff = fmt or 'json'
        target = gen_value(rng, rng.choice([1, 2]), toml=(eff == 'toml'))
        if eff == 'toml' and not isinstance(target, dict):
            target = {'a': target}
        if isinstance(target, dict):
            target.setdefault('name', '\u00fcn\u00ef')
        tt = serialise(rng, target, eff)
        st = spec_text(rng, gen_spec(rng, target))
        sv = rng.choice(SPEC_VIAS)
        if sv == 'argv' and (not st or st[0] == '-'):
            sv = 'file'
        k = i % 6
        tv = rng.choice(['file', 'dash', 'dashfile', 'piped'])
        c = assemble(st, tt, sv, tv, fmt, None, False, tty=rng.random() < 0.6, spec_name=rng.choice(SPEC_NAMES))
        if k in (0, 1, 2):          # undecodable target
            data = {'bytes': not_utf8(rng, tt).hex()}
        elif k == 3:                # decodable bytes: the same text, possibly with multi-byte characters
            data = {'bytes': tt.encode('utf-8').hex()}
        elif k == 4:                # a directory where the target file should be
            tv, data = 'file', {'dir': True}
            c = assemble(st, tt, sv, tv, fmt, None, False, spec_name=rng.choice(SPEC_NAMES))
        else:                       # the SPEC file is not text / a directory (the property is silent; the tie is not)
            c = assemble(st, tt, 'file', rng.choice(['argv', 'file', 'piped']), fmt, None, False,
                         spec_name=rng.choice(SPEC_NAMES))
            for f in c['files']:
                if f[0] == c['argv']['spec_file']:
                    f[1] = rng.choice([{'bytes': not_utf8(rng, st).hex()}, {'dir': True}, {'bytes': st.encode('utf-8').hex()}])
            yield c
            continue
        if tv == 'file':
            for f in c['files']:
                if f[0] == c['argv']['target_file']:
                    f[1] = data
        elif 'bytes' in data:
            c['stdin'] = data
        yield c


# ------------------------------------------------------------------ what is read is what is loaded
# Documents whose meaning changes under a NORMALISATION of the text (outer whitespace stripped, line
# ends unified, tabs expanded, a BOM dropped, Unicode normal forms …): found by asking the real loaders.
def _nfc(s):
    import unicodedata
    return unicodedata.normalize('NFC', s)


def _nfkc(s):
    import unicodedata
    return unicodedata.normalize('NFKC', s)


def _dedent(s):
    import textwrap
    return textwrap.dedent(s)


NORMALISATIONS = [
    ('strip', lambda s: s.strip()), ('lstrip', lambda s: s.lstrip()), ('rstrip', lambda s: s.rstrip()),
    ('strip-ascii', lambda s: s.strip(' \t\r\n')), ('rstrip-newline', lambda s: s.rstrip('\n')),
    ('one-final-newline', lambda s: s.rstrip('\n') + '\n'), ('splitlines', lambda s: '\n'.join(s.splitlines())),
    ('universal-newlines', lambda s: s.replace('\r\n', '\n').replace('\r', '\n')),
    ('expandtabs', lambda s: s.expandtabs()), ('drop-bom', lambda s: s.lstrip('\ufeff')),
    ('nfc', _nfc), ('nfkc', _nfkc), ('dedent', _dedent), ('strip-lines', lambda s: '\n'.join(l.rstrip() for l in s.split('\n'))),
    ('casefold', lambda s: s.lower()),
]
WS_UNITS = [' ', '\n', '\t', '\r\n', '\r', '\x0c', '\x0b', '\u00a0', '\u2028', '\x1c', '\x85', '  ', '\n\n', ' \n',
            '\n ', '\ufeff', '\u200b', '\n  ']
_INFEASIBLE = set()


def cli_value(kind, text):
    """what the CLI makes of a target text: an empty text is {} before any loader is asked"""
    if not text:
        return ('ok', '{}')
    f = facts_mod().loaders().get(kind)
    try:
        return ('ok', repr(f(text)))
    except BaseException as e:      # measuring the loader
        return ('err', type(e).__name__)


def decorated_doc(rng, kind):
    """a document of the format, possibly with significant outer / inner whitespace"""
    fmt = {'json': 'json', 'python-literal': 'python', 'yaml-safe': 'yaml', 'toml': 'toml'}[kind]
    k = rng.randrange(10)
    if k == 0:          # nothing but whitespace
        return ''.join(rng.choice(WS_UNITS) for _ in range(rng.choice([1, 1, 2, 3])))
    target = gen_value(rng, rng.choice([1, 2]), toml=(fmt == 'toml'))
    if fmt == 'toml' and not isinstance(target, dict):
        target = {'a': target}
    if isinstance(target, dict) and rng.random() < 0.6:
        target[rng.choice(['name', 'k0', 'log'])] = rng.choice(
            ['line one\nline two\n', 'x\n\n', ' padded ', 'tab\there', 'e\u0301', '\ufb01n', 'MiXed', 'a\u00a0b', 'trail  \nnext'])
    if fmt == 'yaml':
        import yaml
        style = rng.choice([None, '|', '|', '>', '"'])
        doc = yaml.safe_dump(target, default_style=style, default_flow_style=rng.choice([None, False]), allow_unicode=True)
        if rng.random() < 0.3:      # keep / strip chomping, extra blank lines at the end
            doc = doc.replace(': |\n', rng.choice([': |+\n', ': |-\n', ': |2\n', ': |\n']), 1) + rng.choice(['', '\n', '\n\n'])
        if rng.random() < 0.3:      # the whole document indented
            doc = ''.join(rng.choice(['  ', ' ', '\t']) + ln for ln in doc.splitlines(True))
    elif fmt == 'toml':
        doc = toml_dumps(target)
        if rng.random() < 0.4:
            doc += 'ml = """\nfirst\n  second  \n"""' + rng.choice(['', '\n'])
    elif fmt == 'python':
        doc = repr(target)
        if rng.random() < 0.3:
            doc = doc[:-1] + rng.choice(['\n', '\t', ' \\\n']) + doc[-1]
    else:
        doc = json.dumps(target, indent=rng.choice([None, 2, '\t']), ensure_ascii=rng.random() < 0.5)
    if k < 6:
        pre = ''.join(rng.choice(WS_UNITS) for _ in range(rng.choice([0, 1, 1, 2])))
        post = ''.join(rng.choice(WS_UNITS) for _ in range(rng.choice([0, 1, 1, 2])))
        doc = pre + doc + post
    if k == 6:
        doc = doc.replace('\n', rng.choice(['\r\n', '\r']))
    if k == 7:
        doc = doc.replace(' ', rng.choice(['\t', '  ', '\u00a0']), rng.choice([1, 2]))
    return doc


def sensitive_doc(rng, kind, name, f, tries=25):
    """a text of the format that the normalisation `name` changes the meaning of (None: none found)"""
    if (kind, name) in _INFEASIBLE:
        tries = 2
    for _ in range(tries):
        t = decorated_doc(rng, kind)
        u = f(t)
        if u != t and cli_value(kind, u) != cli_value(kind, t):
            _INFEASIBLE.discard((kind, name))
            return t
    _INFEASIBLE.add((kind, name))
    return None


ALL_VIAS = [[sv, tv] for sv in ('argv', 'file') for tv in ('argv', 'file', 'dash', 'dashfile', 'piped')]


def channel_case(rng, spec_txt, target_txt, fmt, indent=None, scalar=False, vias=None, junk='{"junk": 1}',
                 tty=True, hostile=False, spec_format=None):
    """ONE case = the same spec text and target text through several pairs of channels"""
    vias = [list(v) for v in (vias or ALL_VIAS)]
    if not spec_txt or spec_txt[0] == '-':
        vias = [v for v in vias if v[0] == 'file']          # not a first positional argument
    if '\x00' in target_txt:
        vias = [v for v in vias if v[1] != 'argv']
    if '\x00' in spec_txt:
        vias = [v for v in vias if v[0] != 'argv']
    req = {'spec': spec_txt, 'target': target_txt, 'fmt': fmt, 'indent': indent, 'scalar': scalar,
           'spec_format': spec_format, 'spec_path': SPEC_PATH, 'target_path': TARGET_PATH, 'junk': junk, 'tty': tty}
    c = via_case(req, vias[0][0], vias[0][1])
    c.update({'req': req, 'vias': vias, 'hostile': hostile})
    return c


def spec_for_value(rng, kind, text):
    """a spec that shows as much of the loaded target as possible (the whole of it, or a leaf)"""
    f = facts_mod().loaders().get(kind)
    try:
        v = f(text) if text else {}
    except BaseException:
        return rng.choice(['()', 'a', "{'x': ()}"])
    if isinstance(v, (dict, list)) and rng.random() < 0.4:
        return spec_text(rng, gen_spec(rng, v))
    return rng.choice(['()', '()', "{'x': ()}", "((), ())"])


def normalisation_cases(rng, reps=1):
    """every format x every normalisation that can change the meaning of some document of that format:
    such a document, through EVERY channel in one case"""
    for kind in ('json', 'python-literal', 'yaml-safe', 'toml'):
        for name, f in NORMALISATIONS:
            for _ in range(reps):
                t = sensitive_doc(rng, kind, name, f)
                if t is None:
                    break
                c = channel_case(rng, spec_for_value(rng, kind, t), t, rng.choice(KIND_FMTS[kind]),
                                 indent=rng.choice([None, None, 0, 2]), scalar=rng.random() < 0.2,
                                 junk=rng.choice(['', '{"junk": 1}']), tty=rng.random() < 0.6)
                c['sensitive'] = [kind, name]
                yield c


# representatives of the class, one per format x kind of significant outer whitespace (the generator
# above draws fresh ones on every run)
SENSITIVE_CORPUS = [
    ('yaml', 'log: |\n  one\n  two\n', 'log'), ('yaml', 'a: |+\n  x\n\n\n', '()'), ('yaml', 'a: >-\n  x\n  y\n\n', '()'),
    ('yml', '  a:\n    b: c\n  d: e\n', "{'x': 'a.b'}"), ('yaml', ' ', '()'), ('yaml', '\ta: 1', 'a'),
    ('yaml', '\x0ca: 1\n', 'a'), (None, ' \n', 'a'), ('json', '\t', '()'), ('json', '\x0c{"a": 1}', 'a'),
    ('json', '{"a": 1}\u00a0', 'a'), ('python', ' ', '()'), ('python', '\n', 'a'), ('python', "\u00a0{'a': 1}", 'a'),
    ('toml', '\x0c', '()'), ('toml', 'a = 1\n\x0c', 'a'), ('toml', '\u00a0a = 1', 'a'), ('toml', 'a = 1\r', 'a'),
]


def sensitive_corpus_cases():
    import random
    rng = random.Random(19)
    for fmt, text, spec in SENSITIVE_CORPUS:
        yield channel_case(rng, spec, text, fmt, junk='', tty=True)


def channel_sample(rng, case):
    """an ordinary generated case, re-delivered through a few pairs of channels"""
    tx = texts_of(case)
    if tx is None:
        return None
    st, tt = tx
    av = case['argv']
    vias = rng.sample(ALL_VIAS, 4)
    return channel_case(rng, st, tt, av['target_format'], av['indent'], av['scalar'], vias=vias,
                        junk=rng.choice(['', '{"junk": 1}', 'not json']), tty=case['tty'])


def texts_of(case):
    """(spec text, target text) of a case built by `assemble` (None when a mutation made that ambiguous)"""
    av = case['argv']
    files = dict((p, c) for p, c in case['files'])
    if av.get('spec_file'):
        st = files.get(av['spec_file'])
        if av['posargs'] and av['posargs'][0]:
            return None
    else:
        st = av['posargs'][0] if av['posargs'] else None
    if av.get('target_file') == '-' or (len(av['posargs']) == 2 and av['posargs'][1] == '-'):
        tt = case['stdin']
    elif av.get('target_file'):
        tt = files.get(av['target_file'])
        if len(av['posargs']) == 2:
            return None
    elif len(av['posargs']) == 2:
        tt = av['posargs'][1]
    else:
        tt = case['stdin'] if not case['tty'] else None
    if not isinstance(st, str) or not isinstance(tt, str) or not tt or tt == '-':
        return None
    return st, tt


# ------------------------------------------------------------------ the raw command line
FLAG_KEYS = [('target_file', 'str'), ('target_format', 'str'), ('spec_file', 'str'), ('spec_format', 'str'),
             ('indent', 'int'), ('scalar', 'const'), ('debug', 'const'), ('inspect', 'const')]


def spell(rng, name):
    """a spelling of the flag face's `normalize_flag_name` maps to the same key"""
    dashed = name.replace('_', '-')
    k = rng.randrange(10)
    if k < 5:
        return '--' + dashed
    if k == 5:
        return '--' + name
    if k == 6:
        return '--' + dashed.upper()
    if k == 7:
        return '-' + dashed                 # one dash: kept case-sensitive, so lower case it is
    if k == 8:
        return '---' + ''.join(rng.choice([c.upper(), c]) for c in dashed)
    return '--' + ''.join(rng.choice(['-', '_']) if c == '_' else c for c in name).title()


def render_raw(rng, av, shuffle=True):
    """the flags of `av` as a command line: random spellings, `=` or separate values, any order"""
    groups = []
    for key, kind in FLAG_KEYS:
        v = av.get(key)
        if kind == 'const':
            if v:
                groups.append([spell(rng, key) + rng.choice(['', '', '='])])
        elif v is not None:
            groups.append([spell(rng, key) + '=' + str(v)] if rng.random() < 0.35 else [spell(rng, key), str(v)])
    if shuffle:
        rng.shuffle(groups)
    return ['glom'] + [x for g in groups for x in g] + list(av['posargs'])


BAD_INTS = ['x', '', ' ', '4.0', '1e1', '0x10', '--2', '2 2', 'None', '٣x']
ODD_INTS = [' 4 ', '+3', '-1', '1_0', '007', '٣', '0', '-0', '12']
UNKNOWN_FLAGS = ['--nope', '-x', '--target', '--spec-format-x', '--target--file', '-H', '--indent2', '--sclar',
                 '--target.file', '--format', '-', '--=x', '-=']


def flag_region_end(raw):
    """index of the first argument that is not read as a flag (by position only: values are skipped
    by the caller that built the groups; here used on command lines whose values do not look like flags)"""
    i = 1
    while i < len(raw):
        a = raw[i]
        if not a or a[0] != '-' or a in ('-', '--'):
            break
        i += 1
        name = a.lstrip('-').split('=', 1)[0].lower().replace('-', '_')
        if '=' not in a and name in ('target_file', 'target_format', 'spec_file', 'spec_format', 'indent', 'flagfile'):
            i += 1
    return min(i, len(raw))


def mutate_raw(rng, case):
    """one edit of a well-formed command line at every position a parser looks at"""
    c = json.loads(json.dumps({k: v for k, v in case.items() if k not in ('impl', 'ext', 'argv')}))
    raw = c['raw']
    end = flag_region_end(raw)
    k = rng.randrange(16)
    if k == 0:        # an unknown flag among the flags
        raw.insert(rng.randrange(1, end + 1), rng.choice(UNKNOWN_FLAGS))
    elif k == 1:      # a flag that needs a value is the last argument
        raw[:] = raw[:end] + [rng.choice(['--target-file', '--indent', '--spec-format', '--flagfile'])]
    elif k == 2:      # the same flag twice
        key, kind = rng.choice(FLAG_KEYS)
        g = [spell(rng, key)] if kind == 'const' else [spell(rng, key), rng.choice(['json', '2', 'python', T + '/x'])]
        g2 = [spell(rng, key)] if kind == 'const' else [spell(rng, key), rng.choice(['json', '2', 'python', T + '/x'])]
        raw[1:1] = g
        raw[flag_region_end(raw):flag_region_end(raw)] = g2
    elif k == 3:      # --indent with something that is no int / an unusual int
        raw[1:1] = [spell(rng, 'indent'), rng.choice(BAD_INTS + ODD_INTS)] if rng.random() < 0.6 else \
            [spell(rng, 'indent') + '=' + rng.choice(BAD_INTS + ODD_INTS)]
        if any(x.lstrip('-').lower().startswith('indent') for x in raw[3:end + 2]):
            pass      # then it is a duplicate as well: whatever face says first
    elif k == 4:      # help, somewhere among the flags
        raw.insert(rng.randrange(1, end + 1), rng.choice(['-h', '--help', '--HELP', '--h', '--help=', '--help=x', '-help']))
    elif k == 5:      # help plus an error detected after the flags were read
        raw.insert(1, rng.choice(['-h', '--help']))
        raw += rng.choice([['x', 'y', 'z'], ['--', 'x'], []])
        if rng.random() < 0.4:
            raw[1:1] = ['--scalar', '--scalar']
    elif k == 6:      # too many positional arguments
        raw += ['extra'] * (3 - min(2, len(raw) - end))
    elif k == 7:      # `--` and what follows it
        tail = rng.choice([['--'], ['--', 'x'], ['--', '--'], ['a', '--'], ['a', '{"a": 1}', '--'], ['a', '--', '{"a": 1}']])
        raw[:] = raw[:end] + tail
    elif k == 8:      # a flag after the first positional argument is a positional argument
        raw += [rng.choice(['--scalar', '--indent', '--target-format=json', '-h'])]
    elif k == 9:      # odd first positional arguments
        raw[:] = raw[:end] + rng.choice([['-'], ['', ''], ['', '-'], ['-', '-'], [''], ['a', '']])
    elif k == 10:     # a constant flag with a value
        raw.insert(1, rng.choice(['--scalar=1', '--debug=x', '--inspect=0', '--scalar=', '--help=']))
    elif k == 11:     # the value of a flag looks like a flag
        raw[1:1] = [rng.choice(['--target-format', '--spec-format']), rng.choice(['--scalar', '-h', '--', '-', '--indent'])]
    elif k == 12:     # no arguments at all / not even a program name
        raw[:] = rng.choice([['glom'], []])
    elif k == 13:     # format names in another case / with blanks: not the documented names
        raw[1:1] = [spell(rng, rng.choice(['spec_format', 'target_format'])),
                    rng.choice(['JSON', 'Python', 'PYTHON-FULL', 'python_full', 'python-full ', ' python', 'Yaml', 'pythonfull', 'python-Full'])]
        c['trusted_spec'] = True
    elif k == 14:     # `=` inside a value, an empty value
        raw[1:1] = [rng.choice(['--target-format=', '--target-format=a=b', '--spec-file=', '--target-file=', '--indent='])]
    else:             # nothing: the well-formed line itself
        pass
    return c


FLAGFILE_BODIES = [
    lambda r: '--scalar\n',
    lambda r: '--indent 4\n# a comment\n\n--scalar\n',
    lambda r: '--target-format=%s\n' % r.choice(['json', 'python', 'yaml']),
    lambda r: '--indent 1 2\n',                         # excessive arguments
    lambda r: '--nope\n',                               # unknown flag
    lambda r: "--target-format 'json\n",                # shlex: no closing quotation
    lambda r: '--indent x\n',
    lambda r: '--indent\n',
    lambda r: 'positional\n',
    lambda r: '--flagfile @T/ff2\n--scalar\n',          # nested
    lambda r: '--flagfile @T/ff1\n',                    # a cycle (ff1 → ff1)
    lambda r: '--help\n',
    lambda r: '--spec-format python\n--spec-format python\n',
    lambda r: '',
    lambda r: '--target-format "json"   # quoted, with a comment\n',
]


def flagfile_case(rng, base):
    """--flagfile: flags from a file (one per line, nested files, every file once)"""
    c = json.loads(json.dumps({k: v for k, v in base.items() if k not in ('impl', 'ext', 'argv')}))
    raw = c['raw']
    body1 = rng.choice(FLAGFILE_BODIES)(rng)
    body2 = rng.choice(FLAGFILE_BODIES)(rng).replace('@T/ff2', '@T/ff1')
    c['files'] = [f for f in c['files'] if not f[0].startswith(T + '/ff')]
    k = rng.randrange(8)
    if k == 0:
        c['files'].append([T + '/ff1', {'bytes': b'--scalar \xff\n'.hex()}])     # not UTF-8
    elif k == 1:
        pass                                                                         # missing file
    elif k == 2:
        c['files'].append([T + '/ff1', {'dir': True}])
    else:
        c['files'].append([T + '/ff1', body1])
        c['files'].append([T + '/ff2', body2])
    ff = [rng.choice(['--flagfile', '--FLAGFILE', '-flagfile']), T + '/ff1'] if rng.random() < 0.7 else ['--flagfile=' + T + '/ff1']
    raw[1:1] = ff
    if rng.random() < 0.25:
        raw[1:1] = ['--flagfile', T + rng.choice(['/ff2', '/ff1'])]
    c['flagfiles'] = True
    return c


def raw_cases(rng, n):
    """command lines as the process receives them"""
    last = None
    for i in range(n):
        base = gen_case(rng)
        base['raw'] = render_raw(rng, base['argv'])
        r = rng.random()
        if r < 0.3:
            yield base                       # well-formed: the model's parser must arrive at base['argv']
        elif r < 0.8:
            yield mutate_raw(rng, base)
        else:
            yield flagfile_case(rng, base)


def debug_cases(rng, n):
    """--debug / --inspect: the spec is wrapped in Inspect(…); breakpoint / post-mortem only while standard
    input is open (the debugger itself is replaced by a marker line, see no_debugger)"""
    for i in range(n):
        c = gen_case(rng)
        if rng.random() < 0.3:
            c = mutate(rng, c)
        c['argv']['debug'] = rng.random() < 0.6
        c['argv']['inspect'] = rng.random() < 0.6 or not c['argv']['debug']
        if rng.random() < 0.4:
            c['stdin_state'] = rng.choice(['closed', 'closed', 'absent'])
        if rng.random() < 0.5:
            c['raw'] = render_raw(rng, c['argv'])
        yield c


def process_cases(rng, n):
    """`python -m glom …` as a process: console_main, the exit status"""
    for i in range(n):
        c = gen_case(rng)
        k = i % 6
        if k == 1:
            c = mutate(rng, c)
        c['tty'] = False                     # a pipe is what a child process gets
        if isinstance(c['stdin'], str) and texts_of(c) is None and not c['stdin']:
            c['stdin'] = ''
        c['raw'] = render_raw(rng, c['argv'])
        if k == 2:
            c = mutate_raw(rng, c)
            c['tty'] = False
            if not c['raw']:
                c['raw'] = ['glom']       # a process always has a program name
        c['proc'] = True
        yield c



# ------------------------------------------------------------------ standard input open / closed / absent
def stdin_state_cases(rng, n, procs=0):
    """a CLOSED standard input (sys.stdin.close(): every use raises ValueError) and an ABSENT one (sys.stdin is
    None — `glom … <&-`: every use raises AttributeError), WITHOUT --debug: where the target is to come from
    standard input (`-`, `--target-file -`, nothing given) that is an unreadable target — a usage error —; where
    it comes by argument or file standard input is not touched"""
    k = 0
    for i in range(n):
        c = gen_case(rng)
        if rng.random() < 0.25:
            c = mutate(rng, c)
        c['stdin_state'] = ['closed', 'absent'][i % 2]
        if rng.random() < 0.5:
            c['raw'] = render_raw(rng, c['argv'])
        if k < procs and c['stdin_state'] == 'absent' and isinstance(c['stdin'], str):
            c['raw'] = render_raw(rng, c['argv'])
            c['tty'] = False
            c['proc'] = True
            k += 1
        yield c


# ------------------------------------------------------------------ results json.dumps cannot print, odd floats
SPECIAL_DOCS = {
    # format -> [(document, specs)]: values of the format's own data model that are no JSON values
    # (READING: the command prints what json.dumps can print; otherwise json.dumps' exception ends it)
    'yaml': [('a: 2001-12-14\n', ['a', '()', "{'x': 'a'}"]), ('a: 2001-12-14T21:59:43Z\nb: 1\n', ['a', 'b', '()']),
             ('a: !!binary aGk=\n', ['a', '()']), ('a: !!set {x, y}\n', ['a', '()']), ('1: 1\na: 2\n', ['()', 'a']),
             ('a: .nan\nb: .inf\nc: -.inf\n', ['a', 'b', '()']), ('? [1, 2]\n: 3\n', ['()']), ('- 2001-12-14\n- 1\n', ['0', '1', '()']),
             ('a: 1e999\n', ['a']), ('~: 1\ntrue: 2\n', ['()'])],
    'toml': [('a = 2001-12-14\n', ['a', '()']), ('a = 07:32:00\nb = 1\n', ['a', 'b', '()']),
             ('a = 1979-05-27T07:32:00Z\n', ['a', '()']), ('a = nan\nb = inf\nc = -inf\n', ['a', 'b', 'c', '()']),
             ('a = [2001-12-14, 2001-12-15]\n', ['a.0', '()'])],
    'python': [("{'a': {1, 2}}", ['a', '()']), ("{'a': b'x'}", ['a', '()']), ("{1: 1, 'a': 2}", ['()', 'a']),
               ("{'a': 1j}", ['a', '()']), ("{'a': (1, 2)}", ['a', '()']), ("{None: 1, 'a': 2}", ['()']),
               ("{'a': ...}", ['a']), ("{(1, 2): 3}", ['()']), ("{'a': {'b': frozenset()}}", ['a.b']),
               ("[1e999, -1e999]", ['()', '0']), ("{True: 1, 2: 2}", ['()']), ("{1.5: 'x', 2: 'y'}", ['()'])],
    'json': [('{"a": NaN}', ['a', '()']), ('{"a": Infinity, "b": -Infinity}', ['a', 'b', '()']), ('[1e999]', ['0', '()']),
             ('{"a": 1E400}', ['a']), ('{"a": -0.0, "b": 1e-400}', ['()'])],
}


def special_value_cases(rng, reps=1):
    """every format x every kind of value outside JSON's data model (dates and times, bytes, sets, complex, Ellipsis,
    tuple / None / mixed-type keys under sort_keys) or at the edge of it (NaN, the infinities, huge and tiny floats),
    whole or as a leaf, through a random delivery, with and without --scalar"""
    for fmt, docs in SPECIAL_DOCS.items():
        for doc, specs in docs:
            for _ in range(reps):
                st = rng.choice(specs)
                tv = rng.choice(TARGET_VIAS)
                sv = rng.choice(SPEC_VIAS)
                yield assemble(st, doc, sv, tv, fmt if fmt != 'json' else rng.choice([None, 'json']),
                               rng.choice([None, 0, 2, -1]), rng.random() < 0.3, tty=rng.random() < 0.5,
                               spec_name=rng.choice(SPEC_NAMES))


# ------------------------------------------------------------------ GlomErrors other than PathAccessError
ODD_SPECS = ['["a"]', "['a']", '{"a": 1}', "{'a': None}", '(1,)', '{1, 2}', '[]', '[[]]', "[['a']]", "{'a': [1]}", '("a", 5)',
             "{'x': ('a', ['b'])}", "('a', [])", '[()]', '{"a": {"b": 2.5}}', "{'a': ('b', 'c', 7)}", '{"a": true}', '[1]']
ODD_TARGETS = ['5', '"x"', 'null', 'true', '[1]', '[]', '{"a": 5}', '{"a": [1, 2]}', '{"a": {"b": "x"}}', '1.5', '[[1], [2]]']


def odd_spec_cases(rng, n):
    """specs with leaves that are no specs (numbers, None, sets), list specs on scalars, `[]` on anything: the
    GlomError classes beyond PathAccessError (UnregisteredTarget, GlomError.wrap(TypeError / IndexError), BadSpec …)"""
    for i in range(n):
        st, tt = rng.choice(ODD_SPECS), rng.choice(ODD_TARGETS)
        yield assemble(st, tt, rng.choice(SPEC_VIAS), rng.choice(TARGET_VIAS), rng.choice([None, 'json', 'python' if 'null' not in tt and 'true' not in tt else 'json']),
                       rng.choice([None, 0, 2]), rng.random() < 0.2, tty=rng.random() < 0.5, spec_name=rng.choice(SPEC_NAMES))


# ------------------------------------------------------------------ the spec IS its text: blanks and newlines around it
def spec_whitespace_cases(rng, n):
    """READING: the spec is the text as it is given — a spec FILE that ends in a newline (as editors write it) holds
    another text than the same words as an argument: a bare path then ends in '\n', a literal still parses; a leading
    blank or newline makes a literal a path string.  The model must say what the code does for each."""
    for i in range(n):
        base = gen_case(rng)
        tx = texts_of(base)
        if tx is None:
            continue
        st, tt = tx
        v = rng.choice([st + '\n', st + '\r\n', '\n' + st, ' ' + st, st + ' ', st + '\n\n', '\t' + st, st + '\n'])
        av = base['argv']
        if i % 3 == 0:          # the same decorated text through both spec channels and several target channels
            yield channel_case(rng, v, tt, av['target_format'], av['indent'], av['scalar'],
                               vias=[['file', 'argv'], ['argv', 'argv'], ['file', 'piped'], ['argv', 'file']], tty=base['tty'])
        else:
            yield assemble(v, tt, 'file' if i % 3 == 1 or v[0] == '-' else 'argv', rng.choice(TARGET_VIAS), av['target_format'],
                           av['indent'], av['scalar'], tty=base['tty'], spec_name=rng.choice(SPEC_NAMES))


# ------------------------------------------------------------------ bare words are PATHS: attribute walks
ATTR_SPECS = ['__class__.__name__', 'a.__class__.__name__', 'a.__class__.__mro__', '__class__.__mro__.1.__name__', 'a.upper',
              'a.__len__', '__doc__', 'real', 'a.real', 'a.imag', '__class__.__base__', 'a.__class__.__base__.__subclasses__',
              '__init__.__globals__', 'a.__init__.__self__', 'keys', 'a.bit_length', '__class__.__dict__', 'a.__reduce__',
              '__sizeof__', 'a.__class__.__init__.__name__', 'numerator', 'a.denominator', '__dir__', 'a.__hash__']
ATTR_TARGETS = ['5', '{"a": "x"}', '{"a": 5}', '{"a": [1]}', '"x"', '{"a": null}', '{"a": 1.5}', '[1, 2]', '{"a": {"b": 1}}']


def attr_walk_cases(rng, n):
    """a default-format spec that is a bare word is TAKEN AS A PATH, and glom's path access reads attributes: dunder
    and method names walk the object graph of the target (classes, bound methods, dicts of types).  Nothing is
    CALLED — no side effect —; what comes out is printed when json.dumps can print it (a name, a docstring), else
    json.dumps' TypeError ends the command; with --scalar the str() of whatever it is (addresses canonicalised)."""
    for i in range(n):
        st, tt = rng.choice(ATTR_SPECS), rng.choice(ATTR_TARGETS)
        c = assemble(st, tt, rng.choice(SPEC_VIAS), rng.choice(TARGET_VIAS), rng.choice([None, 'json', 'python' if 'null' not in tt else None]),
                     rng.choice([None, 0, 2]), rng.random() < 0.3, tty=rng.random() < 0.5, spec_name=rng.choice(SPEC_NAMES))
        yield c


def spec_on_stdin_cases(rng, n):
    """the CLI has no option that reads the SPEC from standard input; the one way is a spec FILE that is the
    standard input (`--spec-file /dev/stdin`), the target then by argument or file: as a process"""
    for i in range(n):
        base = gen_case(rng)
        tx = texts_of(base)
        if tx is None or not os.path.exists('/dev/stdin'):
            continue
        st, tt = tx
        c = assemble(st, tt, 'file', rng.choice(['argv', 'file']), base['argv']['target_format'], base['argv']['indent'],
                     base['argv']['scalar'], tty=False)
        c['argv']['spec_file'] = '/dev/stdin'
        c['files'] = [f for f in c['files'] if f[0] != T + '/spec.glom'] + [['/dev/stdin', st]]
        c['stdin'] = st
        c['spec_stdin'] = True
        c['raw'] = render_raw(rng, c['argv'])
        c['proc'] = True
        yield c



def generate(rng, tier, scale, **focus):
    n = (520 if tier == 'quick' else 9000) * scale
    last = None
    for i in range(n):
        if last is not None and rng.random() < 0.35:
            yield mutate(rng, last)
            continue
        last = gen_case(rng)
        if rng.random() < 0.08:
            cc = channel_sample(rng, last)
            if cc is not None:
                yield cc
                continue
        yield last
    yield from normalisation_cases(rng, reps=1 if tier == 'quick' else 6)
    yield from raw_cases(rng, (260 if tier == 'quick' else 5000) * scale)
    yield from debug_cases(rng, (60 if tier == 'quick' else 1200) * scale)
    yield from stdin_state_cases(rng, (60 if tier == 'quick' else 1200) * scale, procs=0 if focus else (4 if tier == 'quick' else 40))
    yield from special_value_cases(rng, reps=1 if tier == 'quick' else 8)
    yield from odd_spec_cases(rng, (40 if tier == 'quick' else 800) * scale)
    yield from spec_whitespace_cases(rng, (40 if tier == 'quick' else 800) * scale)
    yield from attr_walk_cases(rng, (40 if tier == 'quick' else 800) * scale)
    yield from malformed_by_class_cases(rng, reps=1 if tier == 'quick' else 4, exhaustive_texts=False)
    yield from unreadable_cases(rng, (36 if tier == 'quick' else 600) * scale)
    if not focus:
        yield from process_cases(rng, 8 if tier == 'quick' else 150)
        yield from spec_on_stdin_cases(rng, 3 if tier == 'quick' else 40)
        if tier == 'thorough':
            yield from malformed_by_class_cases(rng, exhaustive_texts=True)
        yield from exhaustive(tier)


def exhaustive(tier):
    """one spec/target in every delivery x format x indent x scalar"""
    target = {'a': {'b': [1, 'x', {'c': True}]}, 'name': 'ünï', 'k0': 1.5}
    specs = ['a.b', {'out': 'a.b.1', 'n': ('a', 'b', '0')}, 'name'] if tier == 'thorough' else ['a.b']
    import random
    rng = random.Random(7)
    for spec in specs:
        for fmt in (None, 'json', 'python', 'yaml', 'toml'):
            tt = serialise(rng, target, fmt or 'json')
            for sv, tv in itertools.product(('argv', 'file'), ('argv', 'file', 'dash', 'dashfile', 'piped')):
                for indent, scalar in ((None, False), (0, False), (4, True)) if tier == 'thorough' else ((None, False),):
                    yield assemble(repr(spec) if not isinstance(spec, str) else spec, tt, sv, tv, fmt, indent, scalar)


def corpus():
    out = (list(hostile_cases()) + list(hostile_target_cases()) + list(malformed_target_cases())
           + list(named_spec_file_cases()) + list(sensitive_corpus_cases()))
    # the inputs that justify the hypotheses of c19_output (Props/C19.lean), on the real CLI
    out.append(assemble("'a'", '-', 'argv', 'argv', None, None, False))            # positional "-" is stdin
    out[-1]['stdin'] = '{"a": 1}'
    out.append(assemble("'a'", '', 'argv', 'argv', None, None, False))             # empty target text -> {}
    out.append(assemble('a', '{"a":', 'argv', 'argv', None, None, False))          # malformed target
    c = assemble('a', '', 'argv', 'file', None, None, False)
    c['files'] = []
    out.append(c)                                                                    # unreadable target file
    out.append(assemble('{', '{"a": 1}', 'argv', 'argv', None, None, False))       # malformed literal
    c = assemble("T['a']", '{"a": 5}', 'argv', 'argv', None, None, False)
    c['argv']['spec_format'] = 'python-full'
    c['trusted_spec'] = True
    out.append(c)                                                                    # python-full does evaluate
    p = os.path.join(os.path.dirname(os.path.dirname(os.path.dirname(os.path.abspath(__file__)))),
                     'corpus', 'C19.jsonl')
    if os.path.exists(p):
        for line in open(p):
            if line.strip():
                out.append(json.loads(line))
    return out


def key(case):
    return {k: case[k] for k in ('argv', 'raw', 'files', 'stdin', 'tty', 'hostile', 'stdin_state', 'req', 'vias', 'proc')
            if k in case}


def nontrivial(case, verdict):
    b = verdict.get('branch', '')
    return bool(b) and 'silent' not in b.split('/')


def shrink(case):
    base = {k: v for k, v in case.items() if k not in ('impl', 'ext', 'impl_vias')}
    if case.get('vias'):
        # a pair of deliveries that disagree says it best; else fewer deliveries, then simpler flags
        iv = case.get('impl_vias') or []
        if len(case['vias']) > 2 and len(iv) == len(case['vias']):
            outs = [json.dumps(x.get('outcome'), sort_keys=True) for x in iv]
            for i in range(len(outs)):
                j = next((j for j in range(len(outs)) if outs[j] != outs[i]), None)
                if j is not None:
                    c = json.loads(json.dumps(base))
                    c['vias'] = [case['vias'][min(i, j)], case['vias'][max(i, j)]]
                    yield c
                    break
        if len(case['vias']) > 2:
            for i in range(len(case['vias'])):
                c = json.loads(json.dumps(base))
                del c['vias'][i]
                yield c
        for k, v in (('indent', None), ('scalar', False), ('junk', ''), ('tty', True)):
            if case['req'].get(k) != v:
                c = json.loads(json.dumps(base))
                c['req'][k] = v
                yield c
        if case['req']['spec'] != '()':
            c = json.loads(json.dumps(base))
            c['req']['spec'] = '()'
            yield c
        return
    if case.get('raw') is not None and 'argv' not in case:
        for i in range(1, len(case['raw'])):
            c = json.loads(json.dumps(base))
            del c['raw'][i]
            yield c
    elif 'argv' in case:
        av = case['argv']
        for k, v in (('indent', None), ('scalar', False), ('target_format', None), ('spec_format', None),
                     ('debug', False), ('inspect', False)):
            if av.get(k, v) != v:
                c = json.loads(json.dumps(base))
                c['argv'][k] = v
                c.pop('raw', None)
                yield c
    for i in range(len(case['files'])):
        c = json.loads(json.dumps(base))
        del c['files'][i]
        yield c
    if case['stdin']:
        c = json.loads(json.dumps(base))
        c['stdin'] = ''
        yield c


def focus(disagreements, facts_changed):
    return {'focus': True}
