"""C19 — the CLI prints what the library computes; default-format specs never execute (partial proof).

Generators, implementation runner (glom.cli.main in-process, captured stdio, temp files), the
oracle tables of the trusted externals, the hostile-spec corpus."""
import ast
import contextlib
import io
import itertools
import json
import os
import shutil
import sys

PROP = 'C19'
LEAN_MODULES = ['Glom.Props.C19']
FACT_FILES = ['C19Facts', 'c19']
READY = True
THEOREMS_PER_MODULE = {'Glom.Props.C19': 9}
MANIFEST = dict(
    text="PARTIAL proof. Lean 4 theorems over a code-shaped model of glom/cli.py (mw_get_target's source selection "
         "and precedence, first-character rule, spec_format/target_format tables extracted from the AST; "
         "mw_handle_target; glom_cli; main) whose external functions are parameters: for ALL flags, file systems, "
         "standard inputs and ALL behaviours of the externals, the ten deliveries of a spec (argument / --spec-file) "
         "and target (argument / --target-file / - / --target-file - / piped stdin) print exactly "
         "dumps(glom(load(target), literal(spec)), indent, sort_keys)+newline with exit 0 (c19_output), a GlomError "
         "gives 'Class: message' and exit 1 (c19_glomerror_exit1), a target the loader rejects — with ANY class a "
         "loader raises on text — or that cannot be read (missing, a directory, bytes that are no UTF-8; file or "
         "standard input) gives a UsageError, never another exception (c19_bad_target_usage_error, "
         "c19_unreadable_target_usage_error: the model catches exactly the classes the `except` clauses of cli.py "
         "NAME, per target format and per read, extracted on every run; c19_facts_wf demands `Exception` or a class "
         "above every class the probe saw the format's loader raise, and OSError+UnicodeError around every read), "
         "and unless --spec-format is "
         "given the outcome is independent of the exec-based evaluator and of json.loads: only repr and "
         "ast.literal_eval see the spec text (c19_model_no_exec). c19_never_executes is decided on the call/"
         "reference graph extracted from cli.py on every run: no eval/exec/compile/__import__/unsafe loader/"
         "process spawning is reachable from any entry point without the `spec_format == 'python-full'` edge, the "
         "flag default is 'python'. Model tied to the code by running glom.cli.main in-process on generated "
         "targets x literal specs x deliveries x formats x flags and a hostile-spec corpus with planted side "
         "effects.",
    note="partial: the JSON/YAML/TOML parsers, ast.literal_eval, repr, json.dumps, is_scalar, str(), glom.glom itself "
         "(C01-C18) and face's argument parsing are EXTERNAL: parameters of the model, exercised by the "
         "correspondence only (their outputs on the candidate texts are computed by the harness with the real "
         "functions and handed to the model as tables). Trusted fact about Python used by the proof: "
         "ast.literal_eval(repr(s)) == s for every str s (hypothesis ReprOk, checked on every case); a loader "
         "raises Exception subclasses only (LoadErrOk) and a failing text read an OSError or a UnicodeError "
         "(ReadErrOk), both evaluated by the driver on every case. The PROBE (extract/facts/c19.py: the installed "
         "json/ast/yaml/tomllib loaders run on a catalogue of 245 malformed texts, grouped by raised class: 22 "
         "(loader, class) groups) is trusted to reach every class a loader can raise on text only where a handler does not "
         "name Exception itself — the code as it is does (c19_handlers_name_exception). --debug/"
         "--inspect are not modelled. 'never executes' is about cli.py's own code: that ast.literal_eval and "
         "json.loads do not execute code is CPython's guarantee, exercised by the hostile corpus. Trusted: Lean "
         "kernel + {propext, Classical.choice, Quot.sound}; extractor (AST patterns of cli.py, the call graph "
         "construction incl. references and aliases of dangerous names); harness/driver.",
    technique='Lean 4 refinement proof over an externals-parametric model (delivery independence by case analysis) '
              '+ reachability on the extracted call graph by decide + differential correspondence through cli.main',
    ref='DESIGN.md §3 C19')
RULE = ('type-directed: a JSON-representable target (nested dicts/lists/strings/ints/bools/None/floats) is generated, '
        'literal specs (dotted paths, dicts, lists, tuples, nested) are derived from its shape so that most '
        'resolve, the target is serialised in the chosen --target-format (json, python, yaml, toml where '
        'expressible) and spec and target are delivered by argument / file / standard input in all combinations '
        'with --indent in {absent,0,1,2,4} and --scalar; a one-edit mutation stream truncates the target text, '
        'names a missing file, gives both an argument and a file, an unknown format, a missing path segment, an '
        'empty text, a target that is a complete document followed by garbage / a second document / a stray bracket '
        'or preceded by a BOM, a malformed literal, --spec-format json / python-full (benign specs only); '
        'MALFORMED TARGETS BY RAISED CLASS: the real loaders are probed with the catalogue of extract/facts/c19.py '
        'and for every (loader, class it raises) — JSONDecodeError, plain ValueError of the digit limit, '
        'RecursionError, SyntaxError, IndentationError, TypeError of unhashable keys, MemoryError of the parser '
        'stack, the YAML Parser/Scanner/Composer/Reader/ConstructorError and the ValueError/AttributeError/KeyError/'
        'IndexError of its scalar constructors, TOMLDecodeError … — a text of the group, bare or embedded as a leaf '
        'of a generated document when that keeps the class, is delivered by argument, file, -, --target-file - and '
        'piped stdin; UNREADABLE TARGETS: target file / standard input / spec file given as BYTES that are no UTF-8 '
        '(Latin-1, UTF-16, a stray ff/80/c3, a truncated sequence, a cp1252 quote at a random position of a generated '
        'document), as bytes that are UTF-8 (read like any text), as a directory; plus a corpus of '
        'hostile spec texts (calls, attribute access, lambdas, comprehensions, f-strings, dunder tricks), each '
        'planting a marker file, delivered by argument and by files named *.glom / *.py / *.PY / *.json / *.yml (spec-file names with such '
        'extensions are also used for benign specs). non-trivial = the property speaks about the '
        'case (result / GlomError / target usage error / malformed spec); distinct = distinct (argv, files, stdin)')
TRUSTED = ['externals (parsers, literal_eval, repr, dumps, glom.glom, is_scalar, face) enter the model as tables '
           'computed by the harness with the real functions']
ASSUMPTIONS = ['--debug / --inspect not used', 'positional arguments do not start with "-" except the single "-"',
               'standard input decodes strictly as UTF-8 (a UTF-8 locale; under the C locale CPython reads it with '
               'surrogateescape and every byte string is text)']

TMP = '/tmp/c19_%d' % os.getpid()
T = '@T'


def real(p):
    return p.replace(T, TMP) if isinstance(p, str) else p


# ------------------------------------------------------------------ oracle tables
class Ids:
    def __init__(self):
        self.m = {}
        self.v = {}

    def of(self, tag, v):
        k = tag + ':' + type(v).__name__ + ':' + repr(v)
        if k not in self.m:
            self.m[k] = len(self.m)
            self.v[self.m[k]] = v
        return self.m[k]


MROS = {}      # class name -> names of its MRO, for every class an external raised on this case


def try_call(f, *a):
    try:
        return ('ok', f(*a))
    except (Exception, SystemExit, GeneratorExit) as e:
        MROS[type(e).__name__] = [c.__name__ for c in type(e).__mro__ if c is not object]
        return ('err', type(e).__name__)


def file_bytes(c):
    return bytes.fromhex(c['bytes'])


def read_text(path):
    with open(path) as f:         # text mode, default encoding: what the CLI does
        return f.read()


LONG_TEXT = 2000     # above this only the loader of the case's own format is run by the oracle
FMT_KIND = {'json': 'json', 'yaml': 'yaml-safe', 'yml': 'yaml-safe', 'toml': 'toml', 'python': 'python-literal'}


def oracle(case):
    import glom
    from boltons.iterutils import is_scalar
    av = case['argv']
    MROS.clear()
    ext = {'parse': [], 'load': [], 'repr': [], 'strspec': [], 'glom': [], 'dumps': [], 'scalar': [], 'read': [],
           'stdin_text': None, 'stdin_err': None}
    # what reading gives: files whose content is not a text of the case (bytes, a directory) are
    # read back the way the CLI reads them; standard input given as bytes is decoded strictly
    files = {}
    for p, c in case['files']:
        if isinstance(c, dict):
            st, v = try_call(read_text, real(p))
            ext['read'].append([p, {'ok': v.replace(TMP, T)} if st == 'ok' else {'err': v}])
            files[p] = v.replace(TMP, T) if st == 'ok' else None
        else:
            files[p] = c
    stdin_text = case['stdin']
    if isinstance(stdin_text, dict):
        st, v = try_call(lambda: io.TextIOWrapper(io.BytesIO(file_bytes(case['stdin'])), encoding='utf-8',
                                                  errors='strict').read())
        stdin_text = v if st == 'ok' else ''
        ext['stdin_text'], ext['stdin_err'] = (v, None) if st == 'ok' else (None, v)
    ids = Ids()
    loaders = {'json': json.loads, 'python-literal': ast.literal_eval}
    try:
        import yaml
        loaders['yaml-safe'] = yaml.safe_load
    except ImportError:
        pass
    try:
        import tomllib
        loaders['toml'] = tomllib.loads
    except ImportError:
        pass
    tcands = []
    if len(av['posargs']) == 2:
        tcands.append(av['posargs'][1])
    if av.get('target_file') and files.get(av['target_file']) is not None:
        tcands.append(files[av['target_file']])
    tcands.append(stdin_text)
    tcands = [t for t in dict.fromkeys(tcands) if t]
    scands = []
    if av['posargs']:
        scands.append(av['posargs'][0])
    if av.get('spec_file') and files.get(av['spec_file']) is not None:
        scands.append(files[av['spec_file']])
    scands = [s for s in dict.fromkeys(scands) if s]
    targets = {}
    specs = {}
    e_spec = glom.Path()
    ext['empty_spec'] = ids.of('S', e_spec)
    specs[ext['empty_spec']] = e_spec
    ext['empty_target'] = ids.of('T', {})
    targets[ext['empty_target']] = {}
    own = FMT_KIND.get(av.get('target_format') or 'json')
    for text in tcands:
        for kind, f in loaders.items():
            if len(text) > LONG_TEXT and kind != own:
                continue
            st, v = try_call(f, real(text))
            if st == 'ok':
                i = ids.of('T', v)
                targets[i] = v
                ext['load'].append([kind, text, {'ok': i}])
            else:
                ext['load'].append([kind, text, {'err': v}])
    parsers = {'python-literal': ast.literal_eval, 'json': json.loads}
    if case.get('trusted_spec'):
        from glom import cli
        parsers['exec'] = cli._eval_python_full_spec
    for text in scands:
        r = repr(real(text)).replace(TMP, T)
        ext['repr'].append([text, r])
        i = ids.of('S', real(text))
        specs[i] = real(text)
        ext['strspec'].append([text, i])
        for variant in (text, r):
            for kind, f in parsers.items():
                if kind == 'exec' and variant is not text:
                    continue
                st, v = try_call(f, real(variant))
                if st == 'ok':
                    i = ids.of('S', v)
                    specs[i] = v
                    ext['parse'].append([kind, variant, {'ok': i}])
                else:
                    ext['parse'].append([kind, variant, {'err': v}])
    indents = [None, 2]
    if av.get('indent') not in (None, 0):
        indents.append(av['indent'])
    results = {}
    for ti, t in targets.items():
        for si, s in specs.items():
            try:
                r = glom.glom(t, s)
            except glom.GlomError as ge:
                ext['glom'].append([ti, si, {'glomerror': [type(ge).__name__, '']}])
            except BaseException as e:
                ext['glom'].append([ti, si, {'other': type(e).__name__}])
            else:
                ri = ids.of('R', r)
                results[ri] = r
                ext['glom'].append([ti, si, {'ok': ri}])
    for ri, r in results.items():
        for ind in dict.fromkeys(indents):
            st, v = try_call(lambda: json.dumps(r, indent=ind, sort_keys=True))
            ext['dumps'].append([ri, ind, {'ok': v} if st == 'ok' else {'err': v}])
        try:
            s = str(r)
        except Exception:
            s = '<str-raises>'
        ext['scalar'].append([ri, bool(is_scalar(r)), s.replace(TMP, T)])
    ext['mro'] = sorted([k, v] for k, v in MROS.items())
    return ext


# ------------------------------------------------------------------ running the real CLI
class FakeStdin(io.StringIO):
    def __init__(self, text, tty):
        super().__init__(text)
        self._tty = tty

    def isatty(self):
        return self._tty


class ByteStdin(io.TextIOWrapper):
    """a standard input of BYTES, decoded the way a UTF-8 locale decodes it (strictly)"""
    def __init__(self, data, tty):
        super().__init__(io.BytesIO(data), encoding='utf-8', errors='strict')
        self._tty = tty

    def isatty(self):
        return self._tty


def make_stdin(case):
    if isinstance(case['stdin'], dict):
        return ByteStdin(file_bytes(case['stdin']), case['tty'])
    return FakeStdin(real(case['stdin']), case['tty'])


def build_cmdline(av):
    out = []
    for flag, key in (('--target-file', 'target_file'), ('--target-format', 'target_format'),
                      ('--spec-file', 'spec_file'), ('--spec-format', 'spec_format'), ('--indent', 'indent')):
        if av.get(key) is not None:
            out += [flag, str(real(av[key]))]
    if av.get('scalar'):
        out.append('--scalar')
    return out + [real(p) for p in av['posargs']]


def run_impl(case):
    from glom import cli
    from face import UsageError, CommandLineError
    out = dict(case)
    shutil.rmtree(TMP, ignore_errors=True)
    os.makedirs(TMP)
    try:
        for p, c in case['files']:
            if isinstance(c, dict) and c.get('dir'):
                os.makedirs(real(p))
            elif isinstance(c, dict):
                with open(real(p), 'wb') as f:
                    f.write(file_bytes(c))
            elif c is not None:
                with open(real(p), 'w') as f:
                    f.write(real(c))
        out['ext'] = oracle(case)
        marker = os.path.join(TMP, 'MARK')
        if os.path.exists(marker):        # an oracle call must not have planted it either
            out['impl'] = {'outcome': {'exc': '<oracle-executed-spec>'}, 'side_effect': True}
            return out
        so, se = io.StringIO(), io.StringIO()
        old_in = sys.stdin
        sys.stdin = make_stdin(case)
        try:
            with contextlib.redirect_stdout(so), contextlib.redirect_stderr(se):
                try:
                    rc = cli.main(['glom'] + build_cmdline(case['argv']))
                    outcome = {'exit': [int(rc or 0), so.getvalue().replace(TMP, T)]}
                except UsageError as ue:
                    # a usage error: non-zero status and NO result on standard output
                    if so.getvalue():
                        outcome = {'exc': '<result-printed-before-usage-error>'}
                    elif ue.code in (0, None):
                        outcome = {'exit': [0, '']}
                    else:
                        outcome = {'usage': True}
                except CommandLineError:
                    outcome = None
                except SystemExit as e:
                    outcome = {'exit': [e.code if isinstance(e.code, int) else 1, so.getvalue().replace(TMP, T)]}
                except BaseException as e:
                    outcome = {'exc': type(e).__name__}
        finally:
            sys.stdin = old_in
        if outcome is None:
            out['impl'] = {'clierror': True}
        else:
            out['impl'] = {'outcome': outcome, 'side_effect': os.path.exists(marker)}
    finally:
        shutil.rmtree(TMP, ignore_errors=True)
    return out


# ------------------------------------------------------------------ generators
KEYS = ['a', 'b', 'c', 'name', 'k0', 'x y']
STRS = ['', 'x', 'hello', 'a.b', 'ünï', '"q"', "it's", '-']


def gen_value(rng, depth, toml=False):
    p = rng.random()
    if depth <= 0 or p < 0.3:
        q = rng.random()
        if q < 0.3:
            return rng.choice([0, 1, -7, 42, 10 ** 12])
        if q < 0.6:
            return rng.choice(STRS)
        if q < 0.72:
            return rng.choice([True, False])
        if q < 0.82 and not toml:
            return None
        return rng.choice([1.5, -0.25, 3.0])
    if p < 0.7:
        ks = rng.sample(KEYS, rng.choice([1, 2, 2, 3]))
        return {k: gen_value(rng, depth - 1, toml) for k in ks}
    n = rng.choice([0, 1, 2, 3])
    if toml:      # TOML arrays: keep them homogeneous scalars / tables
        if rng.random() < 0.5:
            return [rng.choice([1, 2, 3]) for _ in range(n)]
        return [{'a': gen_value(rng, 0, True)} for _ in range(n)]
    return [gen_value(rng, depth - 1) for _ in range(n)]


def toml_dumps(d, prefix=''):
    """minimal TOML writer for dicts of scalars / arrays / tables (keys quoted)"""
    lines, tables = [], []

    def scalar(v):
        if isinstance(v, bool):
            return 'true' if v else 'false'
        if isinstance(v, (int, float)):
            return repr(v)
        if isinstance(v, str):
            return json.dumps(v)
        if isinstance(v, list):
            return '[' + ', '.join(scalar(x) for x in v) + ']'
        if isinstance(v, dict):
            return '{' + ', '.join('%s = %s' % (json.dumps(k), scalar(x)) for k, x in v.items()) + '}'
        raise TypeError(v)
    for k, v in d.items():
        if isinstance(v, dict):
            tables.append((k, v))
        else:
            lines.append('%s = %s' % (json.dumps(k), scalar(v)))
    out = '\n'.join(lines) + ('\n' if lines else '')
    for k, v in tables:
        name = (prefix + '.' if prefix else '') + json.dumps(k)
        out += '[%s]\n' % name + toml_dumps(v, name)
    return out


def paths_of(v, limit=3):
    """dotted paths that resolve in v"""
    out = []

    def rec(x, p, d):
        if p:
            out.append('.'.join(p))
        if d >= limit:
            return
        if isinstance(x, dict):
            for k, c in x.items():
                if k and '.' not in k and not k[0] in '"\'[{(-':
                    rec(c, p + [k], d + 1)
        elif isinstance(x, list):
            for i, c in enumerate(x[:2]):
                rec(c, p + [str(i)], d + 1)
    rec(v, [], 0)
    return out


def gen_spec(rng, target, depth=2):
    ps = paths_of(target) or ['a']
    p = rng.random()
    if depth <= 0 or p < 0.35:
        return rng.choice(ps)
    if p < 0.65:
        return {rng.choice(['x', 'y', 'out', 'a']): gen_spec(rng, target, depth - 1)
                for _ in range(rng.choice([1, 2, 3]))}
    if p < 0.8:
        return tuple(gen_spec(rng, target, 0) for _ in range(rng.choice([0, 1, 1])))
    if p < 0.9 and isinstance(target, list):
        return [rng.choice(['a', 'b', ()])]
    if p < 0.95:
        return {'k': (rng.choice(ps), )}
    return rng.choice([(), {}, {'n': ()}])


def spec_text(rng, spec):
    if isinstance(spec, str) and rng.random() < 0.6 and spec and spec[0] not in '"\'[{(-':
        return spec                      # bare word: taken as a path string
    r = repr(spec)
    if rng.random() < 0.3:
        try:
            j = json.dumps(spec)
            if ast.literal_eval(j) == spec:
                return j
        except Exception:
            pass
    return r


def serialise(rng, target, fmt):
    if fmt == 'json':
        return json.dumps(target, indent=rng.choice([None, None, 2]), ensure_ascii=rng.random() < 0.5)
    if fmt == 'python':
        return repr(target)
    if fmt in ('yaml', 'yml'):
        import yaml
        return yaml.safe_dump(target, default_flow_style=rng.choice([None, True, False]), allow_unicode=True)
    if fmt == 'toml':
        return toml_dumps(target)
    raise ValueError(fmt)


SPEC_VIAS = ['argv', 'argv', 'file']
TARGET_VIAS = ['argv', 'argv', 'file', 'dash', 'dashfile', 'piped']


SPEC_NAMES = ['spec.glom', 'spec.glom', 'spec.txt', 'spec.py', 'spec.PY', 'spec.json', 'spec.JSON', 'spec.yml',
              'spec.Py', 'spec', 'spec.py.txt']


def assemble(spec_txt, target_txt, sv, tv, fmt, indent, scalar, junk='{"junk": 1}', tty=True,
             spec_name='spec.glom'):
    files = []
    av = {'posargs': [], 'target_file': None, 'target_format': fmt, 'spec_file': None, 'spec_format': None,
          'indent': indent, 'scalar': scalar}
    sp = spec_txt if sv == 'argv' else ''
    if sv == 'file':
        av['spec_file'] = T + '/' + spec_name
        files.append([T + '/' + spec_name, spec_txt])
    if tv == 'argv':
        av['posargs'] = [sp, target_txt]
    elif tv == 'dash':
        av['posargs'] = [sp, '-']
    else:
        av['posargs'] = [sp] if sv == 'argv' else []
    if tv == 'file':
        av['target_file'] = T + '/target.dat'
        files.append([T + '/target.dat', target_txt])
    elif tv == 'dashfile':
        av['target_file'] = '-'
    stdin = target_txt if tv in ('dash', 'dashfile', 'piped') else junk
    if tv == 'piped':
        tty = False
    return {'argv': av, 'files': files, 'stdin': stdin, 'tty': tty, 'hostile': False}


def gen_case(rng):
    fmt = rng.choice(['json', 'json', 'json', None, 'python', 'yaml', 'yml', 'toml'])
    eff = fmt or 'json'
    target = gen_value(rng, rng.choice([1, 2, 3]), toml=(eff == 'toml'))
    if eff == 'toml' and not isinstance(target, dict):
        target = {'a': target}
    spec = gen_spec(rng, target)
    st = spec_text(rng, spec)
    tt = serialise(rng, target, eff)
    sv, tv = rng.choice(SPEC_VIAS), rng.choice(TARGET_VIAS)
    if tv == 'argv' and (not tt or tt[0] == '-'):
        tv = 'file'
    if sv == 'argv' and (not st or st[0] == '-'):
        sv = 'file'
    return assemble(st, tt, sv, tv, fmt, rng.choice([None, None, 0, 1, 2, 4]), rng.random() < 0.25,
                    junk=rng.choice(['', '{"junk": 1}', 'not json']), tty=rng.random() < 0.6,
                    spec_name=rng.choice(SPEC_NAMES))


def malform(rng, text):
    """a malformed variant of a target text: cut in the middle, or — the shapes a lenient
    parser lets through — a complete document followed / preceded by something else"""
    k = rng.randrange(9)
    if k < 2 or not text.strip():
        return text[:max(1, len(text) // 2)]
    t = text.rstrip()
    return [t + ' xyz', t + '\n' + t + '\n', t + t, t + ']', t + '}', t + ',', '\ufeff' + t][k - 2]


MALFORMED_JSON = ['{"a": {"b": 1}} trailing garbage', '{"a": {"b": 1}}\n{"a": {"b": 2}}\n',
                  '{"a": {"b": 1}}{"a": {"b": 1}}', '{"a": {"b": 1}}]', '{"a": {"b": 1}},', '[1, 2]]',
                  '\ufeff{"a": {"b": 1}}', '{"a": {"b": 1}} {', '1 2', '"a" "b"', 'null,']


def malformed_target_cases():
    """whole-text-malformed JSON whose prefix is a complete document, in every delivery"""
    for i, text in enumerate(MALFORMED_JSON):
        for tv in ('argv', 'file', 'dash', 'dashfile', 'piped'):
            yield assemble(['a.b', "{'out': 'a.b'}", 'a'][i % 3], text, ['argv', 'file'][i % 2], tv,
                           [None, 'json'][i % 2], None, False)


def mutate(rng, case):
    c = json.loads(json.dumps({k: v for k, v in case.items() if k not in ('impl', 'ext')}))
    av = c['argv']
    k = rng.randrange(13)
    if k in (0, 11):      # malformed target: whichever text is the target
        if av['target_file'] and av['target_file'] != '-' and c['files']:
            for f in c['files']:
                if f[0] == av['target_file'] and f[1] and isinstance(f[1], str):
                    f[1] = malform(rng, f[1])
        elif len(av['posargs']) == 2 and av['posargs'][1] != '-':
            av['posargs'][1] = malform(rng, av['posargs'][1])
            if av['posargs'][1][:1] == '-':
                av['posargs'][1] = ' ' + av['posargs'][1]
        elif isinstance(c['stdin'], str):
            c['stdin'] = malform(rng, c['stdin'])
    elif k == 1:    # missing target file
        if len(av['posargs']) == 2:
            av['posargs'] = av['posargs'][:1]
        av['target_file'] = T + '/missing.dat'
    elif k == 2:    # both a spec argument and a spec file
        av['spec_file'] = T + '/spec2.glom'
        c['files'].append([T + '/spec2.glom', "'a'"])
    elif k == 3:    # both a target argument and a target file
        if len(av['posargs']) == 2:
            av['target_file'] = T + '/t2.dat'
            c['files'].append([T + '/t2.dat', '{"a": 1}'])
    elif k == 4:
        av['target_format'] = rng.choice(['xml', 'JSON', '', 'python', 'toml', 'yaml'])
    elif k == 5:    # a path segment that does not exist: GlomError
        if av['posargs'] and av['posargs'][0] and not av['spec_file']:
            av['posargs'][0] = rng.choice(['zz', 'a.zz.q', "{'x': 'zz'}", "('a', 'zz')", '0.zz'])
    elif k == 6:    # empty target text
        if len(av['posargs']) == 2:
            av['posargs'][1] = ''
        else:
            c['stdin'] = ''
    elif k == 7:    # malformed literal
        if av['posargs'] and not av['spec_file']:
            av['posargs'][0] = rng.choice(["{'a': ", "['a'", "('a',", "'a", '{"a": b}', '[1 2]', "{'a': T}"])
    elif k == 8:    # other spec formats (benign text only)
        av['spec_format'] = rng.choice(['json', 'python-full', 'python', 'yaml'])
        c['trusted_spec'] = True
        if av['posargs'] and not av['spec_file']:
            av['posargs'][0] = rng.choice(['"a"', '{"x": "a"}', "T['a']", "'a'"])
    elif k == 9:    # leading blank / trailing newline in the spec text
        if av['posargs'] and av['posargs'][0] and not av['spec_file']:
            av['posargs'][0] = rng.choice([' ', '']) + av['posargs'][0] + rng.choice(['\n', ' ', ''])
    elif k == 10:   # unreadable / missing spec file
        av['spec_file'] = T + '/nospec.glom'
        if av['posargs']:
            av['posargs'][0] = ''
    else:
        c['tty'] = not c['tty']
    return c


HOSTILE = [
    "__import__('os').system('touch @T/MARK')",
    "(__import__('os').system('touch @T/MARK'))",
    "[__import__('os').system('touch @T/MARK')]",
    "{'a': __import__('os').system('touch @T/MARK')}",
    "{__import__('os').system('touch @T/MARK'): 'a'}",
    "(lambda: open('@T/MARK', 'w'))()",
    "[open('@T/MARK', 'w') for _ in (1,)]",
    "{x: open('@T/MARK', 'w') for x in (1,)}",
    "().__class__.__bases__[0].__subclasses__()",
    "\"a\".__class__.__mro__",
    "'%s' % open('@T/MARK', 'w')",
    "'a' + str(open('@T/MARK', 'w'))",
    "{1: 2}.get(open('@T/MARK', 'w'))",
    "(1).__add__(open('@T/MARK', 'w').fileno())",
    "eval(\"open('@T/MARK', 'w')\")",
    "exec(\"open('@T/MARK', 'w')\")",
    "f\"{open('@T/MARK', 'w')}\"",
    "open('@T/MARK', 'w')",
    "[].__class__.__init__.__globals__",
    "(open('@T/MARK', 'w'), 'a')",
    "{'a': (lambda x: open('@T/MARK', 'w'))}",
    "[x for x in ().__class__.__bases__]",
    "(yield open('@T/MARK', 'w'))",
    "(await open('@T/MARK', 'w'))",
    "[*open('@T/MARK', 'w')]",
    "{**{'a': open('@T/MARK', 'w')}}",
    "('a' if open('@T/MARK', 'w') else 'b')",
    "(a := open('@T/MARK', 'w'))",
    "T['a'].__class__",
    "Call(open, args=('@T/MARK', 'w'))",
    "Invoke(open).constants('@T/MARK', 'w')",
    "(Call(open, args=('@T/MARK', 'w')),)",
    "\"\\x5f_import__('os')\".system('touch @T/MARK')",
    "[1][open('@T/MARK', 'w').fileno()]",
    "-open('@T/MARK', 'w').fileno()"[1:],
    "{'a': 1}['a'].__class__(open('@T/MARK', 'w'))",
    "compile(\"open('@T/MARK','w')\", 'x', 'exec')",
    "__builtins__.__dict__['open']('@T/MARK', 'w')",
    "globals()['__builtins__']",
    "(lambda: 0).__globals__['os'].system('touch @T/MARK')",
]


def hostile_cases():
    for i, h in enumerate(HOSTILE):
        for sv in ('argv', 'file'):
            for tgt in ('{"a": {"b": 1}}', '{}'):
                c = assemble(h, tgt, sv, ['argv', 'file', 'piped'][i % 3], None, None, False)
                c['hostile'] = True
                yield c
        # the same text in spec files whose NAME suggests another language: the default format
        # is 'python' whatever the file is called
        for j, name in enumerate(('spec.py', 'spec.PY', 'spec.json', 'spec.yml')):
            c = assemble(h, '{"a": {"b": 1}}', 'file', ['argv', 'file', 'piped'][(i + j) % 3], None, None, False,
                         spec_name=name)
            c['hostile'] = True
            yield c


def named_spec_file_cases():
    """benign literal specs in files with every extension: parsed as literals all the same"""
    for name in sorted(set(SPEC_NAMES)):
        for st in ("{'out': 'a.b'}", 'a.b', "('a', 'b')", '{"out": "a.b"}'):
            yield assemble(st, '{"a": {"b": 1}}', 'file', 'argv', None, None, False, spec_name=name)


HOSTILE_TARGETS = [
    ('yaml', '!!python/object/apply:os.system ["touch @T/MARK"]'),
    ('yml', 'a: !!python/object/apply:os.system ["touch @T/MARK"]'),
    ('yaml', '!!python/object/new:os.system ["touch @T/MARK"]'),
    ('python', "__import__('os').system('touch @T/MARK')"),
    ('python', "{'a': open('@T/MARK', 'w')}"),
    ('python', "[x for x in (open('@T/MARK', 'w'),)]"),
]


def hostile_target_cases():
    """target texts that a safe loader must reject (usage error), never evaluate"""
    for i, (fmt, text) in enumerate(HOSTILE_TARGETS):
        for tv in ('argv', 'file', 'piped'):
            c = assemble('a', text, 'argv', tv, fmt, None, False)
            c['hostile'] = True
            yield c


# ------------------------------------------------------------------ malformed targets BY RAISED CLASS
_FACTS = []


def facts_mod():
    """extract/facts/c19.py: the catalogue of malformed texts and the probe (shared with the extractor,
    which turns the probe's classes into the fact the handler of mw_handle_target is checked against)"""
    if not _FACTS:
        import importlib.util
        fp = os.path.join(os.path.dirname(os.path.dirname(os.path.dirname(os.path.abspath(__file__)))),
                          'extract', 'facts', 'c19.py')
        spec = importlib.util.spec_from_file_location('c19_facts_for_harness', fp)
        m = importlib.util.module_from_spec(spec)
        spec.loader.exec_module(m)
        _FACTS.append(m)
    return _FACTS[0]


KIND_FMTS = {'json': [None, 'json'], 'python-literal': ['python'], 'yaml-safe': ['yaml', 'yml'], 'toml': ['toml']}
_GROUPS = []


def class_groups():
    """[(loader kind, raised class, [texts])]: the real loaders run on the catalogue, grouped by the class
    each raises (a text a loader accepts is no malformed target and is left to the ordinary stream)"""
    if not _GROUPS:
        for kind, groups in sorted(facts_mod().probe().items()):
            for cls, g in sorted(groups.items()):
                if cls != 'OK':
                    _GROUPS.append((kind, cls, g['texts']))
    return _GROUPS


def raised_class(kind, text):
    f = facts_mod().loaders().get(kind)
    try:
        f(text)
        return 'OK'
    except BaseException as e:      # measuring the loader
        return type(e).__name__


def embed(rng, kind, frag):
    """the malformed fragment inside a generated, otherwise well-formed document of the format"""
    if len(frag) > 200:
        return frag
    if kind in ('json', 'python-literal'):
        inner = gen_value(rng, rng.choice([0, 1, 2]))
        doc = rng.choice([{'a': inner, 'zz': '@@F@@'}, [inner, '@@F@@'], {'a': {'b': ['@@F@@']}}, {'zz': '@@F@@', 'a': inner}])
        text = json.dumps(doc) if kind == 'json' else repr(doc)
        return text.replace('"@@F@@"' if kind == 'json' else "'@@F@@'", frag)
    if kind == 'yaml-safe':
        ind = '  '
        body = '\n'.join(ind + ln for ln in frag.split('\n'))
        return rng.choice(['k0: 1\nzz:\n' + body + '\n', 'zz:\n' + body + '\nname: x\n', '- 1\n-\n' + body + '\n'])
    if kind == 'toml':
        return rng.choice(['"k0" = 1\n' + frag + '\n', '[t]\nx = "y"\n' + frag + '\n', frag + '\n"name" = "x"\n'])
    return frag


CLASS_SPECS = ['a', 'a.b', "{'x': 'a'}", "('a', 'b')", 'zz', "['a']", "'a'"]
DELIVERIES = ['argv', 'file', 'dash', 'dashfile', 'piped']


def malformed_by_class_cases(rng, reps=1, exhaustive_texts=False):
    """every class each loader raises on text, in every delivery of the target: the expected outcome is
    the usage error whatever the class"""
    for kind, cls, texts in class_groups():
        picks = texts if exhaustive_texts else [rng.choice(texts) for _ in range(reps)]
        for frag in picks:
            shift = rng.randrange(len(DELIVERIES))
            for i in range(len(DELIVERIES)):
                tv = DELIVERIES[(i + shift) % len(DELIVERIES)]
                text = frag
                if rng.random() < 0.5:
                    e = embed(rng, kind, frag)
                    if raised_class(kind, e) == cls:       # still the class this group is about
                        text = e
                if tv == 'argv' and (text[:1] == '-' or '\x00' in text):
                    tv = rng.choice(['file', 'piped'])     # not a positional argument a shell can pass
                spec = rng.choice(CLASS_SPECS)
                sv = rng.choice(SPEC_VIAS)
                yield assemble(spec, text, sv, tv, rng.choice(KIND_FMTS[kind]),
                               rng.choice([None, None, 0, 2]), rng.random() < 0.2,
                               junk=rng.choice(['', '{"junk": 1}']), tty=rng.random() < 0.6,
                               spec_name=rng.choice(SPEC_NAMES))


# ------------------------------------------------------------------ targets that cannot be read
def not_utf8(rng, text):
    """bytes that are no UTF-8 text, derived from a well-formed document"""
    b = text.encode('utf-8')
    k = rng.randrange(6)
    if k == 0:
        return ('\u00fc' + text).encode('latin-1', 'replace')           # a Latin-1 file
    if k == 1:
        return text.encode('utf-16')                                    # BOM ff fe + NULs
    if k == 2:
        i = rng.randrange(len(b) + 1)
        return b[:i] + rng.choice([b'\xff', b'\x80', b'\xc3', b'\xed\xa0\x80', b'\xf8\x88\x80\x80\x80']) + b[i:]
    if k == 3:
        return b + b'\xc3'                                              # truncated multi-byte sequence at the end
    if k == 4:
        return b'\xfe\xff' + b
    return b.replace(b'"', b'\x93', 1) if b'"' in b else b'\xa0' + b  # a cp1252 quote


def unreadable_cases(rng, n):
    """the target (file or standard input) or the spec file is not text / not a file: bytes that are no
    UTF-8, a directory; and — the other side of the same class — bytes that ARE UTF-8 (multi-byte
    characters, a BOM), which must be read like any text"""
    for i in range(n):
        fmt = rng.choice(['json', None, 'python', 'yaml', 'toml'])
        eff = fmt or 'json'
        target = gen_value(rng, rng.choice([1, 2]), toml=(eff == 'toml'))
        if eff == 'toml' and not isinstance(target, dict):
            target = {'a': target}
        if isinstance(target, dict):
            target.setdefault('name', '\u00fcn\u00ef')
        tt = serialise(rng, target, eff)
        st = spec_text(rng, gen_spec(rng, target))
        sv = rng.choice(SPEC_VIAS)
        if sv == 'argv' and (not st or st[0] == '-'):
            sv = 'file'
        k = i % 6
        tv = rng.choice(['file', 'dash', 'dashfile', 'piped'])
        c = assemble(st, tt, sv, tv, fmt, None, False, tty=rng.random() < 0.6, spec_name=rng.choice(SPEC_NAMES))
        if k in (0, 1, 2):          # undecodable target
            data = {'bytes': not_utf8(rng, tt).hex()}
        elif k == 3:                # decodable bytes: the same text, possibly with multi-byte characters
            data = {'bytes': tt.encode('utf-8').hex()}
        elif k == 4:                # a directory where the target file should be
            tv, data = 'file', {'dir': True}
            c = assemble(st, tt, sv, tv, fmt, None, False, spec_name=rng.choice(SPEC_NAMES))
        else:                       # the SPEC file is not text / a directory (the property is silent; the tie is not)
            c = assemble(st, tt, 'file', rng.choice(['argv', 'file', 'piped']), fmt, None, False,
                         spec_name=rng.choice(SPEC_NAMES))
            for f in c['files']:
                if f[0] == c['argv']['spec_file']:
                    f[1] = rng.choice([{'bytes': not_utf8(rng, st).hex()}, {'dir': True}, {'bytes': st.encode('utf-8').hex()}])
            yield c
            continue
        if tv == 'file':
            for f in c['files']:
                if f[0] == c['argv']['target_file']:
                    f[1] = data
        elif 'bytes' in data:
            c['stdin'] = data
        yield c


def generate(rng, tier, scale, **focus):
    n = (700 if tier == 'quick' else 12000) * scale
    last = None
    for i in range(n):
        if last is not None and rng.random() < 0.35:
            yield mutate(rng, last)
            continue
        last = gen_case(rng)
        yield last
    yield from malformed_by_class_cases(rng, reps=1 if tier == 'quick' else 4, exhaustive_texts=False)
    yield from unreadable_cases(rng, (36 if tier == 'quick' else 600) * scale)
    if not focus:
        if tier == 'thorough':
            yield from malformed_by_class_cases(rng, exhaustive_texts=True)
        yield from exhaustive(tier)


def exhaustive(tier):
    """one spec/target in every delivery x format x indent x scalar"""
    target = {'a': {'b': [1, 'x', {'c': True}]}, 'name': 'ünï', 'k0': 1.5}
    specs = ['a.b', {'out': 'a.b.1', 'n': ('a', 'b', '0')}, 'name'] if tier == 'thorough' else ['a.b']
    import random
    rng = random.Random(7)
    for spec in specs:
        for fmt in (None, 'json', 'python', 'yaml', 'toml'):
            tt = serialise(rng, target, fmt or 'json')
            for sv, tv in itertools.product(('argv', 'file'), ('argv', 'file', 'dash', 'dashfile', 'piped')):
                for indent, scalar in ((None, False), (0, False), (4, True)) if tier == 'thorough' else ((None, False),):
                    yield assemble(repr(spec) if not isinstance(spec, str) else spec, tt, sv, tv, fmt, indent, scalar)


def corpus():
    out = (list(hostile_cases()) + list(hostile_target_cases()) + list(malformed_target_cases())
           + list(named_spec_file_cases()))
    # the inputs that justify the hypotheses of c19_output (Props/C19.lean), on the real CLI
    out.append(assemble("'a'", '-', 'argv', 'argv', None, None, False))            # positional "-" is stdin
    out[-1]['stdin'] = '{"a": 1}'
    out.append(assemble("'a'", '', 'argv', 'argv', None, None, False))             # empty target text -> {}
    out.append(assemble('a', '{"a":', 'argv', 'argv', None, None, False))          # malformed target
    c = assemble('a', '', 'argv', 'file', None, None, False)
    c['files'] = []
    out.append(c)                                                                    # unreadable target file
    out.append(assemble('{', '{"a": 1}', 'argv', 'argv', None, None, False))       # malformed literal
    c = assemble("T['a']", '{"a": 5}', 'argv', 'argv', None, None, False)
    c['argv']['spec_format'] = 'python-full'
    c['trusted_spec'] = True
    out.append(c)                                                                    # python-full does evaluate
    p = os.path.join(os.path.dirname(os.path.dirname(os.path.dirname(os.path.abspath(__file__)))),
                     'corpus', 'C19.jsonl')
    if os.path.exists(p):
        for line in open(p):
            if line.strip():
                out.append(json.loads(line))
    return out


def key(case):
    return {k: case[k] for k in ('argv', 'files', 'stdin', 'tty', 'hostile') if k in case}


def nontrivial(case, verdict):
    b = verdict.get('branch', '')
    return bool(b) and not b.replace('hostile/', '').startswith('silent')


def shrink(case):
    base = {k: v for k, v in case.items() if k not in ('impl', 'ext')}
    av = case['argv']
    for k, v in (('indent', None), ('scalar', False), ('target_format', None), ('spec_format', None)):
        if av.get(k) != v:
            c = json.loads(json.dumps(base))
            c['argv'][k] = v
            yield c
    for i in range(len(case['files'])):
        c = json.loads(json.dumps(base))
        del c['files'][i]
        yield c
    if case['stdin']:
        c = json.loads(json.dumps(base))
        c['stdin'] = ''
        yield c


def focus(disagreements, facts_changed):
    return {'focus': True}
