"""C17 — Iter pipelines / Invoke builders: generators, implementation runner, shrinker."""
import itertools
import json
import os
import random

PROP = 'C17'
LEAN_MODULES = ['Glom.Props.C17']
FACT_FILES = ['C17Facts', 'c17']
READY = True
MANIFEST = dict(
    text="PARTIAL proof. Lean 4 theorems about an executable model of glom/streaming.py in which every "
         "Iter stage is a pull transducer over a source with a pull counter: (semantics) for every stage "
         "list of any length, every finite source and all user functions, draining the demand-driven chain "
         "yields exactly the composition of the list functions map/filter/takeWhile/dropWhile/slice/chunked/"
         "windowed/split/unique/join in chaining order, with SKIP/STOP/sentinel honoured by the base stage; "
         "(laziness) for every source, finite or infinite, every source item pulled while k outputs are "
         "requested lies in a prefix that does not yet determine k outputs (so pulls <= need(k), plus the "
         "size-1 items windowed_iter takes while glomit runs), runs depend only on the prefix pulled, "
         "first()/all() terminate exactly when a finite prefix determines their answer; (builders) on a heap "
         "of spec objects _add_op and Invoke.constants/specs/star allocate and never write an existing object, "
         "for every history of builder calls; (source) the effect of a run on the caller's source object is "
         "exactly the pulled prefix: a pipeline started at position p is the pipeline over the suffix, the "
         "position never moves back, next() afterwards finds the suffix after the pulled prefix, close() is never "
         "called, every later pipeline over the same object (a later glom call, another value of a dict spec) "
         "yields the composition over the remaining items, a suspended iterator resumed after others read from "
         "the source goes on as if their items had never been there. Per-run facts obligation by `decide` on tables regenerated from "
         "/repo (no builder method writes self, _add_op builds a new list and forwards the sentinel, _iterate's "
         "SKIP/STOP branches, _iterate uses the target's iterator as the iterable of its for loop and for nothing "
         "else, reversed-stack fold, callback table); model tied to the code by differential "
         "execution (items, end/exception class, number of source items pulled, what next() finds on the source "
         "object afterwards and whether close() was called on it, several pipelines and suspended iterators over "
         "one source object, repr/behaviour of a re-used prefix spec) through the compiled Lean driver.",
    note="partial because itertools' islice/takewhile/dropwhile/chain and boltons' chunked_iter/windowed_iter/"
         "split_iter/unique_iter/first are external code: their pull behaviour is modelled from documentation "
         "and observed behaviour (islice mirrors CPython's cnt/next counters) and validated only by the "
         "correspondence; Python's generator suspension is modelled by recursion with fuel. Trusted: Lean "
         "kernel + {propext, Classical.choice, Quot.sound}; extractor; harness/driver. Domain: stream elements "
         "are ints/None/lists/tuples (no SKIP/STOP objects as data, no bools/floats), chunked/windowed size "
         ">= 1, islice step >= 1, split maxsplit != 0, sentinel a small int or None (identity = equality).",
    technique='Lean 4 refinement proof (demand-driven transducer chain = composition of list functions; '
              'prefix-determinacy invariant for laziness; heap frame condition for builders) + facts obligation '
              'by decide + differential correspondence with pull counting',
    ref='DESIGN.md §3 C17')
RULE = ('type-directed: the element type (int / list / tuple) is tracked through the chain so that most '
        'stage functions apply (inc on ints, len on chunks, flatten on lists …); a one-edit mutation stream '
        'plants an ill-typed function, a flatten over scalars, an unhashable unique key, a raising function or '
        'a raising source at every position. Every case builds a prefix spec P, derives P.E1 from it, then '
        'P.E2 from the *same* object, and observes repr/behaviour of P before and after, P.E2 against a '
        'freshly built chain, and take-k / all() / first() of P.E2 over an instrumented source (finite, '
        'finite-then-raising, or infinite with a pull budget) that counts pulls. Also exhaustive: all stage '
        'sequences up to length 2 (quick) / 3, and 4 on one source (thorough) over the eleven builder methods '
        'x sources x every k <= 6; and Invoke.constants/specs/star histories. non-trivial = >= 2 chained '
        'stages, or a re-used prefix with a non-empty first derivation, or a run ending in an exception. '
        'Sources are objects that are their own iterator — a generator, an object with __next__ and close(), one '
        'without close() — instrumented to count pulls and record close(); after every run the harness calls '
        'next() on the source up to R times: the items must be those after the pulled prefix. Stop values '
        '(the sentinel, items on which the subspec returns STOP) are planted at 1-3 uniformly chosen positions. '
        'Reuse cases: 1-2 pipelines and 1-4 steps over ONE source object — take k (the iterator stays suspended '
        'and is resumed by a later step), all(), first() as separate glom calls, or all()/first() as the values of '
        'one dict spec — every step must yield the composition over the items remaining at that point. Parameter '
        'sweep: every builder method in every call form (each optional argument absent / present: chunked fill, '
        'split sep scalar / set / callable and maxsplit, slice arities with None, limit 0 / beyond the length, '
        'default keys of filter / takewhile / dropwhile / unique, first() / first(default=) / first(key, default=)) '
        'x sources shorter than / equal to / longer than the sizes, with consecutive separators and colliding keys; '
        'distinct = distinct (spec, source, k, mode)')
TRUSTED = ["itertools (islice, takewhile, dropwhile, chain, map, filter) and boltons.iterutils (chunked_iter, "
           "windowed_iter, split_iter, unique_iter, first): modelled from documentation/observed behaviour, "
           "validated only by the correspondence",
           "CPython generator suspension (modelled by structural recursion with fuel)"]
ASSUMPTIONS = ['stream elements are ints, None, lists, tuples; SKIP/STOP only as results of the base subspec',
               'chunked/windowed size >= 1, islice step >= 1, maxsplit != 0',
               'sentinel is None or an int in CPython\'s small-int range (so `is` coincides with ==)',
               'infinite sources are observed through a pull budget of %d items' % 40,
               'split(maxsplit=0) yields the iterator object itself: outside the value domain, not generated',
               'the source after a run is observed on targets that are their own iterator; a source that raises '
               'at its end is not asked beyond its last item']

BUDGET = 40


class Budget(Exception):
    pass


EXC = {'ValueError': ValueError, 'KeyError': KeyError, 'Budget': Budget}


def _bad3(x):
    if x == 3:
        raise ValueError('bad3')
    return x


def catalogue():
    from glom import T, SKIP, STOP
    return {
        'T': T,
        'inc': lambda x: x + 1,
        'dbl': lambda x: x * 2,
        'neg': lambda x: -x,
        'mod2': lambda x: x % 2,
        'mod3': lambda x: x % 3,
        'lt3': lambda x: int(x < 3),
        'wrap': lambda x: [x, x],
        'rng': lambda x: list(range(x % 3)),
        'pair': lambda x: (x, 0),
        'length': len,
        'head': T[0],
        'bad3': _bad3,
        'none': lambda x: None,
        'zero': lambda x: 0,
        'one': lambda x: 1,
        'skip_odd': lambda x: SKIP if (type(x) is int and x % 2) else x,
        'stop_ge4': lambda x: STOP if (type(x) is int and x >= 4) else x,
        'skip_stop': lambda x: ((STOP if x >= 5 else SKIP if x % 3 == 1 else x) if type(x) is int else x),
    }


KW_SPECS = {
    'kwd': lambda x: {'a': x, 'c': x + 1},
    'kwb': lambda x: {'b': x},
}

# ----------------------------------------------------------------------------- value codec


def enc(v):
    if v is None:
        return None
    if type(v) is int:
        return {'i': v}
    if type(v) is list:
        return {'l': [enc(x) for x in v]}
    if type(v) is tuple:
        return {'t': [enc(x) for x in v]}
    return {'x': repr(v)[:80]}


def dec(j):
    if j is None:
        return None
    if 'i' in j:
        return j['i']
    if 'l' in j:
        return [dec(x) for x in j['l']]
    if 't' in j:
        return tuple(dec(x) for x in j['t'])
    raise ValueError(j)


def exc_name(e):
    for c in type(e).__mro__:
        if not c.__name__.startswith('GlomError.wrap'):
            return c.__name__
    return type(e).__name__


# ----------------------------------------------------------------------------- building specs

def base_iter(case, cat):
    from glom import Iter
    kw = {}
    if case.get('sentinel') is not None:
        kw['sentinel'] = dec(case['sentinel']['v'])
    if case['sub'] == 'T':
        return Iter(**kw)
    return Iter(cat[case['sub']], **kw)


def apply_op(it, op, cat):
    n = op['op']
    if n in ('map', 'filter', 'takewhile', 'dropwhile', 'unique'):
        if op.get('f') is None:                    # the method's default argument (key=T)
            return getattr(it, n)()
        return getattr(it, n)(cat[op['f']])
    if n == 'flatten':
        return it.flatten()
    if n == 'limit':
        return it.limit(op['n'])
    if n == 'slice':
        return it.slice(*op['a'])
    if n == 'chunked':
        if 'fill' in op:
            return it.chunked(op['size'], fill=dec(op['fill']['v']))
        return it.chunked(op['size'])
    if n == 'windowed':
        return it.windowed(op['size'])
    if n == 'split':
        kw = {}
        sep = op.get('sep')
        if sep is not None:
            if 'scalar' in sep:
                kw['sep'] = dec(sep['scalar'])
            elif 'set' in sep:
                kw['sep'] = [dec(x) for x in sep['set']]
            elif 'fn' in sep:
                kw['sep'] = cat[sep['fn']]         # a callable separator (called by split_iter itself)
        if op.get('maxsplit') is not None:
            kw['maxsplit'] = op['maxsplit']
        return it.split(**kw)
    raise ValueError(op)


def chain(it, ops, cat):
    for op in ops:
        it = apply_op(it, op, cat)
    return it


R_DEFAULT = 3


class SrcState(object):
    """instrumentation of one source object: items handed out, whether close() was called on it"""
    def __init__(self):
        self.pulled = 0
        self.closed = False


class PlainSource(object):
    """an object that is its own iterator (like a file or a cursor), without close()"""
    def __init__(self, items, tail, st):
        self._items, self._tail, self._st = items, tail, st

    def __iter__(self):
        return self

    def __next__(self):
        st = self._st
        if st.closed:
            raise StopIteration
        if st.pulled < len(self._items):
            st.pulled += 1
            return self._items[st.pulled - 1]
        if self._tail:
            raise EXC[self._tail]('source')
        raise StopIteration


class ClosableSource(PlainSource):
    """... with close(): a closed source yields nothing more"""
    def close(self):
        self._st.closed = True


def make_source(src, st, kind='gen'):
    """the target of a run: a generator / an iterator object with close() / one without"""
    items = [dec(x) for x in src['fin']]
    tail = src.get('tail')
    if kind == 'obj':
        return ClosableSource(items, tail, st)
    if kind == 'plain':
        return PlainSource(items, tail, st)

    def gen():
        try:
            for x in items:
                st.pulled += 1
                yield x
        except GeneratorExit:          # close() on the suspended generator (or its disposal)
            st.closed = True
            raise
        if tail:
            raise EXC[tail]('source')
    return gen()


def probe(source, st, src, r):
    """what the caller finds on the source object after glom is done with it: up to r items by
    next() (a source that raises at its end is not asked beyond its last item)"""
    n = len(src['fin'])
    rest, ended = [], False
    for _ in range(r):
        if src.get('tail') and st.pulled >= n:
            break
        try:
            rest.append(enc(next(source)))
        except StopIteration:
            ended = True
            break
        except Exception as e:
            rest.append({'x': 'raised ' + exc_name(e)})
            break
    return {'rest': rest, 'ended': ended, 'closed': st.closed}


def take_from(it, st, k):
    items = []
    for _ in range(k):
        try:
            items.append(enc(next(it)))
        except StopIteration:
            return {'items': items, 'fin': 'exhausted', 'pulls': st.pulled}
        except Exception as e:
            return {'items': items, 'fin': {'raised': exc_name(e)}, 'pulls': st.pulled}
    return {'items': items, 'fin': 'gotK', 'pulls': st.pulled}


def run_take(spec, src, k, kind='gen', r=R_DEFAULT):
    import glom
    st = SrcState()
    source = make_source(src, st, kind)
    try:
        it = glom.glom(source, spec)
    except Exception as e:
        out = {'items': [], 'fin': {'raised': exc_name(e)}, 'pulls': st.pulled}
    else:
        out = take_from(it, st, k)
    out['src_after'] = probe(source, st, src, r)
    return out


def run_all(spec, src, kind='gen', r=R_DEFAULT):
    import glom
    st = SrcState()
    source = make_source(src, st, kind)
    try:
        res = glom.glom(source, spec.all())
    except Exception as e:
        out = {'fin': {'raised': exc_name(e)}, 'pulls': st.pulled}
    else:
        out = {'items': [enc(x) for x in res], 'fin': 'exhausted', 'pulls': st.pulled}
    out['src_after'] = probe(source, st, src, r)
    return out


_DEFAULT = object()


def first_spec(spec, mode, cat):
    """spec.first(key, default=…) in each of its call forms: `first()` (key=T, default=None),
    `first(default=D)`, `first(key, default=D)`.  Without a key only truthy items are found, so
    a result of None can only be the default."""
    name = mode['first']
    if name is None:
        if mode.get('nodefault'):
            return spec.first(), None
        return spec.first(default=_DEFAULT), _DEFAULT
    return spec.first(cat[name], default=_DEFAULT), _DEFAULT


def run_first(spec, src, mode, cat, kind='gen', r=R_DEFAULT):
    import glom
    st = SrcState()
    source = make_source(src, st, kind)
    try:
        fs, dflt = first_spec(spec, mode, cat)
        res = glom.glom(source, fs)
    except Exception as e:
        out = {'first': {'raised': exc_name(e)}, 'pulls': st.pulled}
    else:
        if res is dflt:
            out = {'first': 'default', 'pulls': st.pulled}
        else:
            out = {'first': {'found': enc(res)}, 'pulls': st.pulled}
    out['src_after'] = probe(source, st, src, r)
    return out


def run_impl(case):
    if case.get('kind') == 'invoke':
        return run_invoke(case)
    if case.get('kind') == 'reuse':
        return run_reuse(case)
    cat = catalogue()
    src, k = case['src'], case['k']
    sk, r = case.get('srckind', 'gen'), case.get('R', R_DEFAULT)
    out = dict(case)
    p = chain(base_iter(case, cat), case['p'], cat)
    r0 = repr(p)
    before = run_take(p, src, k, sk, r)
    d1 = chain(p, case['e1'], cat)
    if case['e1']:
        run_take(d1, src, k, sk, r)               # use the first derivation, too
    d2 = chain(p, case['e2'], cat)
    r1 = repr(p)
    after = run_take(p, src, k, sk, r)
    reused = run_take(d2, src, k, sk, r)
    fresh = run_take(chain(base_iter(case, cat), case['p'] + case['e2'], cat), src, k, sk, r)
    mode = case['mode']
    if mode == 'take':
        main = None
    elif mode == 'all':
        main = run_all(d2, src, sk, r)
    else:
        main = run_first(d2, src, mode, cat, sk, r)
    out['impl'] = {'main': main, 'repr_same': r0 == r1, 'before': before, 'after': after,
                   'reused': reused, 'fresh': fresh}
    return out


# ----------------------------------------------------------------------------- one source, several pipelines

def run_reuse(case):
    """several pipelines consume ONE source object, one after the other: separate glom calls
    (take k from an iterator that stays suspended and may be resumed later / all() / first()),
    or the values of one dict spec.  Every step records what it yielded and the number of
    source items handed out so far; the sequence ends at the first exception."""
    import glom
    cat = catalogue()
    src, r = case['src'], case.get('R', R_DEFAULT)
    st = SrcState()
    source = make_source(src, st, case.get('srckind', 'gen'))
    specs = [chain(base_iter(p, cat), p['ops'], cat) for p in case['pipes']]
    obs = []

    def terminal(step):
        spec = specs[step['pipe']]
        if step['mode'] == 'all':
            return spec.all()
        return first_spec(spec, step['mode'], cat)[0]

    def record(step, res):
        if step['mode'] == 'all':
            obs.append({'items': [enc(x) for x in res], 'fin': 'exhausted', 'pulls': st.pulled})
        elif res is (None if step['mode'].get('nodefault') else _DEFAULT):
            obs.append({'first': 'default', 'pulls': st.pulled})
        else:
            obs.append({'first': {'found': enc(res)}, 'pulls': st.pulled})
        return res

    def failed(step, e):
        if step['mode'] == 'take' or step['mode'] == 'all':
            o = {'fin': {'raised': exc_name(e)}, 'pulls': st.pulled}
            if step['mode'] == 'take':
                o['items'] = []
            obs.append(o)
        else:
            obs.append({'first': {'raised': exc_name(e)}, 'pulls': st.pulled})

    steps = case['steps']
    if case['form'] == 'dict':
        # {'s0': (spec0, recorder0), 's1': (spec1, recorder1), …}: values are evaluated in order
        spec = {}
        for n, step in enumerate(steps):
            spec['s%d' % n] = (terminal(step), (lambda res, step=step: record(step, res)))
        try:
            glom.glom(source, spec)
        except Exception as e:
            if len(obs) < len(steps):
                failed(steps[len(obs)], e)
    else:
        live = {}
        for step in steps:
            i = step['pipe']
            try:
                if step['mode'] == 'take':
                    if i not in live:
                        live[i] = glom.glom(source, specs[i])
                else:
                    res = glom.glom(source, terminal(step))
            except Exception as e:
                failed(step, e)
                break
            if step['mode'] == 'take':
                o = take_from(live[i], st, step['k'])
                obs.append(o)
                if isinstance(o['fin'], dict):
                    break
            else:
                record(step, res)
    out = dict(case)
    out['impl'] = {'steps': obs, 'src_after': probe(source, st, src, r)}
    return out


# ----------------------------------------------------------------------------- Invoke

def collect(*a, **kw):
    return (list(a), sorted(kw.items()))


def apply_call(inv, c, cat):
    if c['op'] == 'C':
        return inv.constants(*[dec(x) for x in c['a']], **{k: dec(v) for k, v in c['kw']})
    if c['op'] == 'S':
        return inv.specs(*[cat[x] for x in c['a']], **{k: cat[v] for k, v in c['kw']})
    kw = {}
    if c.get('args'):
        kw['args'] = cat[c['args']]
    if c.get('kwargs'):
        kw['kwargs'] = KW_SPECS[c['kwargs']]
    return inv.star(**kw)


def run_inv(inv, target):
    import glom
    try:
        a, kw = glom.glom(target, inv)
    except Exception as e:
        return {'raised': exc_name(e)}
    return {'ok': [[enc(x) for x in a], [[k, enc(v)] for k, v in kw]]}


def run_invoke(case):
    from glom import Invoke
    cat = catalogue()
    target = dec(case['target'])
    out = dict(case)

    def build(calls, start=None):
        inv = start if start is not None else Invoke(collect)
        for c in calls:
            inv = apply_call(inv, c, cat)
        return inv
    p = build(case['p'])
    r0 = repr(p)
    before = run_inv(p, target)
    d1 = build(case['e1'], p)
    if case['e1']:
        run_inv(d1, target)
    d2 = build(case['e2'], p)
    r1 = repr(p)
    after = run_inv(p, target)
    reused = run_inv(d2, target)
    fresh = run_inv(build(case['p'] + case['e2']), target)
    out['impl'] = {'repr_same': r0 == r1, 'before': before, 'after': after, 'reused': reused, 'fresh': fresh}
    return out


# ----------------------------------------------------------------------------- generators

INT_FNS = ['inc', 'dbl', 'neg', 'mod2', 'mod3', 'lt3', 'T', 'bad3']
INT_TO_SEQ = ['wrap', 'rng', 'pair']
SEQ_FNS = ['length', 'head', 'T', 'dbl']
PREDS_INT = ['mod2', 'mod3', 'lt3', 'T', 'one', 'zero']
PREDS_SEQ = ['length', 'T', 'one', 'zero', 'head']
ALL_FNS = ['T', 'inc', 'dbl', 'neg', 'mod2', 'mod3', 'lt3', 'wrap', 'rng', 'pair', 'length', 'head',
           'bad3', 'none', 'zero', 'one']
BASE_SUBS = ['skip_odd', 'stop_ge4', 'skip_stop']
# callable separators of split(): plain functions (split_iter calls them; a T-expression would not do)
SEP_FNS_INT = ['mod2', 'mod3', 'lt3', 'zero', 'one', 'none']
SEP_FNS_SEQ = ['length', 'zero', 'one', 'none']
SEP_FNS_ALL = ['mod2', 'mod3', 'lt3', 'zero', 'one', 'none', 'length', 'bad3', 'inc']


def jv(v):
    return enc(v)


def gen_op(rng, ty, mutate):
    """one builder call for elements of type `ty` ('int' | 'seq'); returns (op, new_ty)"""
    kinds = ['map', 'filter', 'takewhile', 'dropwhile', 'slice', 'limit', 'chunked', 'windowed',
             'split', 'unique', 'flatten']
    weights = [3, 2, 1, 1, 2, 1, 2, 2, 2, 2, 2 if ty == 'seq' else (1 if mutate else 0)]
    kind = rng.choices(kinds, weights)[0]
    if kind == 'map':
        if mutate:
            return {'op': 'map', 'f': rng.choice(ALL_FNS)}, 'any'
        if ty == 'int':
            if rng.random() < 0.3:
                return {'op': 'map', 'f': rng.choice(INT_TO_SEQ)}, 'seq'
            return {'op': 'map', 'f': rng.choice(INT_FNS)}, 'int'
        f = rng.choice(SEQ_FNS)
        return {'op': 'map', 'f': f}, ('seq' if f in ('T', 'dbl') else 'int')
    if kind in ('filter', 'takewhile', 'dropwhile'):
        if rng.random() < 0.12:
            return {'op': kind}, ty                 # the default key (T)
        f = rng.choice(ALL_FNS if mutate else (PREDS_INT if ty == 'int' else PREDS_SEQ))
        return {'op': kind, 'f': f}, ty
    if kind == 'slice':
        form = rng.randrange(3)
        stop = rng.choice([None, 0, 1, 2, 3, 4, 5])
        if form == 0:
            a = [stop]
        elif form == 1:
            a = [rng.choice([None, 0, 1, 2, 3]), stop]
        else:
            a = [rng.choice([None, 0, 1, 2, 6]), stop, rng.choice([None, 1, 2, 3])]
        return {'op': 'slice', 'a': a}, ty
    if kind == 'limit':
        return {'op': 'limit', 'n': rng.choice([0, 1, 2, 3, 5, 20, None])}, ty
    if kind == 'chunked':
        op = {'op': 'chunked', 'size': rng.choice([1, 2, 2, 3, 4])}
        if rng.random() < 0.45:
            op['fill'] = {'v': jv(rng.choice([None, 0, 9]))}
        return op, 'seq'
    if kind == 'windowed':
        return {'op': 'windowed', 'size': rng.choice([1, 2, 2, 3, 4])}, 'seq'
    if kind == 'split':
        op = {'op': 'split'}
        r = rng.random()
        if r < 0.3:
            pass
        elif r < 0.55:
            op['sep'] = {'scalar': jv(rng.choice([0, 1, 2, None]))}
        elif r < 0.8:
            op['sep'] = {'set': [jv(x) for x in rng.sample([None, 0, 1, 2, 3], rng.randint(0, 2))]}
        else:
            op['sep'] = {'fn': rng.choice(SEP_FNS_ALL if mutate else (SEP_FNS_INT if ty == 'int' else SEP_FNS_SEQ))}
        if rng.random() < 0.45:
            op['maxsplit'] = rng.choice([1, 1, 2, 3])
        return op, 'seq'
    if kind == 'unique':
        if rng.random() < 0.15:
            return {'op': 'unique'}, ty             # the default key (T)
        if mutate:
            return {'op': 'unique', 'f': rng.choice(ALL_FNS)}, ty
        f = rng.choice(['T', 'mod2', 'mod3', 'lt3'] if ty == 'int' else ['length', 'head', 'length'])
        return {'op': 'unique', 'f': f}, ty
    return {'op': 'flatten'}, 'any'


def gen_source(rng, ty, infinite):
    pool_int = [0, 1, 2, 3, 4, 5, 1, 2, -1, 7]
    if ty == 'seq':
        def item():
            n = rng.choice([0, 1, 2, 2, 3])
            xs = [rng.choice(pool_int) for _ in range(n)]
            return xs if rng.random() < 0.7 else tuple(xs)
    else:
        def item():
            if rng.random() < 0.08:
                return None
            return rng.choice(pool_int)
    if infinite:
        style = rng.random()
        if ty == 'int' and style < 0.5:
            start = rng.choice([0, 0, 1, -2])
            items = [start + i for i in range(BUDGET)]            # itertools.count(start)
        else:
            pat = [item() for _ in range(rng.randint(1, 4))]
            items = [pat[i % len(pat)] for i in range(BUDGET)]      # itertools.cycle(pattern)
        return {'fin': [jv(x) for x in items], 'tail': 'Budget'}
    n = rng.choice([0, 1, 2, 3, 4, 5, 6, 7, 8, 10])
    if rng.random() < 0.25:                          # runs of equal items
        items = []
        while len(items) < n:
            items += [item()] * rng.randint(1, 3)
        items = items[:n]
    else:
        items = [item() for _ in range(n)]
    src = {'fin': [jv(x) for x in items], 'tail': None}
    if rng.random() < 0.06:
        src['tail'] = rng.choice(['ValueError', 'KeyError'])
    return src


def gen_iter_case(rng, maxlen, focus):
    mutate = rng.random() < 0.25
    ty0 = 'seq' if rng.random() < 0.2 else 'int'
    infinite = rng.random() < 0.3
    case = {'kind': 'iter', 'sub': 'T', 'sentinel': None}
    r = rng.random()
    ty = ty0
    if r < 0.15:
        case['sub'] = rng.choice(BASE_SUBS)
    elif r < 0.3:
        f = rng.choice(INT_FNS if ty0 == 'int' else SEQ_FNS)
        case['sub'] = f
        if ty0 == 'seq':
            ty = 'seq' if f in ('T', 'dbl') else 'int'
    if rng.random() < (0.5 if focus.get('sentinel') else 0.15):
        case['sentinel'] = {'v': jv(rng.choice([None, 0, 1, 2, 3, 4]))}
    n = rng.randint(0, maxlen)
    ops = []
    mut_at = rng.randrange(n) if (mutate and n) else -1
    for i in range(n):
        op, ty2 = gen_op(rng, 'int' if ty == 'any' else ty, i == mut_at)
        ops.append(op)
        ty = ty2
    cut = rng.randint(0, len(ops))
    case['p'], case['e2'] = ops[:cut], ops[cut:]
    case['e1'] = []
    if rng.random() < (0.7 if focus.get('reuse') else 0.45):
        case['e1'] = [gen_op(rng, 'int', rng.random() < 0.2)[0] for _ in range(rng.randint(1, 2))]
    case['src'] = gen_source(rng, ty0, infinite)
    if case['sentinel'] is not None and rng.random() < 0.6:
        plant(rng, case['src'], dec(case['sentinel']['v']))
    case['k'] = rng.randint(0, 6)
    m = rng.random()
    case['mode'] = 'take' if m < 0.6 else 'all' if m < 0.8 else gen_first_mode(rng)
    case['srckind'] = gen_srckind(rng)
    case['R'] = rng.choice(R_CHOICES)
    return case


def gen_first_mode(rng):
    r = rng.random()
    if r < 0.15:
        return {'first': None, 'nodefault': True}     # first()
    if r < 0.3:
        return {'first': None}                        # first(default=D)
    return {'first': rng.choice(['T', 'mod2', 'lt3', 'zero', 'one', 'length', 'bad3'])}


SRCKINDS = ['gen', 'obj', 'plain']
R_CHOICES = [0, 1, 2, 3, 5]


def gen_srckind(rng):
    return rng.choices(SRCKINDS, [5, 3, 2])[0]


def plant(rng, src, v):
    """put the stop value `v` into the source, at 1-3 positions chosen uniformly (so that a run
    stops before the end of its source at every position, and more than once per source)"""
    items = src['fin']
    for _ in range(rng.choice([1, 1, 2, 3])):
        items.insert(rng.randint(0, min(len(items), 12)), jv(v))


def gen_pipe(rng, ty0, src):
    """one pipeline of a reuse case; most of them end before their source does: at a sentinel
    planted in the source, at STOP from the subspec, or by a limiting stage"""
    pipe = {'sub': 'T', 'sentinel': None, 'ops': []}
    ty = ty0
    r = rng.random()
    if r < 0.4 or (0.6 <= r < 0.7):
        v = rng.choice([None, 0, 1, 2, 3, 4])
        pipe['sentinel'] = {'v': jv(v)}
        plant(rng, src, v)
    if ty0 == 'int' and 0.4 <= r < 0.7:
        pipe['sub'] = rng.choice(BASE_SUBS)
    elif r >= 0.9:
        f = rng.choice(INT_FNS if ty0 == 'int' else SEQ_FNS)
        pipe['sub'] = f
        if ty0 == 'seq':
            ty = 'seq' if f in ('T', 'dbl') else 'int'
    for _ in range(rng.choice([0, 0, 1, 1, 2])):
        op, ty = gen_op(rng, 'int' if ty == 'any' else ty, rng.random() < 0.1)
        pipe['ops'].append(op)
    return pipe


def gen_reuse_case(rng):
    ty0 = 'seq' if rng.random() < 0.15 else 'int'
    src = gen_source(rng, ty0, rng.random() < 0.2)
    pipes = [gen_pipe(rng, ty0, src) for _ in range(rng.choice([1, 2, 2]))]
    form = 'dict' if rng.random() < 0.3 else 'calls'
    steps = []
    for _ in range(rng.choice([1, 2, 2, 3, 3, 4])):
        i = rng.randrange(len(pipes))
        m = rng.random()
        if form != 'dict' and m < 0.5:
            steps.append({'pipe': i, 'mode': 'take', 'k': rng.randint(0, 4)})
        elif m < 0.85:
            steps.append({'pipe': i, 'mode': 'all'})
        else:
            steps.append({'pipe': i, 'mode': gen_first_mode(rng)})
    return {'kind': 'reuse', 'srckind': gen_srckind(rng), 'src': src, 'R': rng.choice(R_CHOICES),
            'pipes': pipes, 'form': form, 'steps': steps}


DEFAULT_OPS = [
    {'op': 'map', 'f': 'inc'}, {'op': 'filter', 'f': 'mod2'}, {'op': 'takewhile', 'f': 'lt3'},
    {'op': 'dropwhile', 'f': 'lt3'}, {'op': 'slice', 'a': [1, 5, 2]}, {'op': 'limit', 'n': 3},
    {'op': 'chunked', 'size': 2}, {'op': 'windowed', 'size': 2}, {'op': 'split', 'sep': {'scalar': {'i': 2}}},
    {'op': 'unique', 'f': 'T'}, {'op': 'flatten'},
]
ALT_OPS = [
    {'op': 'map', 'f': 'wrap'}, {'op': 'filter', 'f': 'T'}, {'op': 'takewhile', 'f': 'one'},
    {'op': 'dropwhile', 'f': 'mod2'}, {'op': 'slice', 'a': [2]}, {'op': 'limit', 'n': 0},
    {'op': 'chunked', 'size': 3, 'fill': {'v': None}}, {'op': 'windowed', 'size': 3}, {'op': 'split'},
    {'op': 'unique', 'f': 'length'}, {'op': 'map', 'f': 'length'},
]
EXH_SOURCES = [
    {'fin': [jv(x) for x in [1, 2, 0, 3, 2, 4, 5, 0, 1]], 'tail': None},
    {'fin': [jv(x) for x in range(BUDGET)], 'tail': 'Budget'},
    {'fin': [jv(x) for x in [3, None, 1]], 'tail': None},
    {'fin': [jv(x) for x in [[1, 2], [], (3,), [0, 0]]], 'tail': None},
    {'fin': [jv([i % 3, i]) for i in range(BUDGET)], 'tail': 'Budget'},
]


def _sl(*a):
    return {'op': 'slice', 'a': list(a)}


def param_ops():
    """every builder method in every call form, each optional parameter absent and present, at
    values whose effect shows on the PARAM_SOURCES (lengths below / at / above chunk and window
    sizes and slice bounds, consecutive separators, colliding keys)"""
    ops = []
    for size in (1, 2, 3, 4):
        ops.append({'op': 'chunked', 'size': size})
        for fill in (None, 0):
            ops.append({'op': 'chunked', 'size': size, 'fill': {'v': jv(fill)}})
        ops.append({'op': 'windowed', 'size': size})
    seps = [None, {'scalar': jv(0)}, {'scalar': None}, {'set': [None]}, {'set': [jv(0), jv(1)]}, {'set': []},
            {'fn': 'mod2'}, {'fn': 'zero'}, {'fn': 'one'}, {'fn': 'none'}]
    for sep in seps:
        for ms in (None, 1, 2):
            op = {'op': 'split'}
            if sep is not None:
                op['sep'] = sep
            if ms is not None:
                op['maxsplit'] = ms
            ops.append(op)
    ops.append({'op': 'flatten'})
    for f in (None, 'T', 'mod2', 'mod3', 'lt3', 'zero'):
        ops.append({'op': 'unique'} if f is None else {'op': 'unique', 'f': f})
    for kind in ('filter', 'takewhile', 'dropwhile'):
        for f in (None, 'zero', 'one', 'lt3', 'mod2'):
            ops.append({'op': kind} if f is None else {'op': kind, 'f': f})
    ops += [_sl(None), _sl(0), _sl(2), _sl(9), _sl(None, None), _sl(1, None), _sl(None, 3), _sl(1, 3), _sl(3, 1),
            _sl(0, 9), _sl(None, None, None), _sl(None, None, 2), _sl(1, None, 2), _sl(1, 5, 2), _sl(None, 4, 3),
            _sl(0, 9, 1), _sl(2, 2, 1), _sl(2, None, 3)]
    for n in (0, 1, 3, 20, None):
        ops.append({'op': 'limit', 'n': n})
    ops += [{'op': 'map', 'f': 'inc'}, {'op': 'map', 'f': 'wrap'}, {'op': 'map', 'f': 'rng'}]
    return ops


PARAM_SOURCES = [[], [1], [0, 0], [1, 2, 0], [1, 0, 0, 2], [3, 1, 2, 0, 2], [1, 2, 0, None, None, 3, 0, 4],
                 [[1, 2], [], (3,), [], [0, 0]]]
PARAM_FIRSTS = [{'first': None, 'nodefault': True}, {'first': None}, {'first': 'mod2'}, {'first': 'zero'},
                {'first': 'one'}, {'first': 'lt3'}]


def param_sweep(tier):
    n = 0
    for op in param_ops():
        for si, xs in enumerate(PARAM_SOURCES):
            for k in ((2, 9) if tier == 'quick' else (0, 1, 2, 3, 9)):
                n += 1
                yield {'kind': 'iter', 'sub': 'T', 'sentinel': None, 'p': [], 'e1': [], 'e2': [op],
                       'src': {'fin': [jv(x) for x in xs], 'tail': None}, 'k': k,
                       'mode': 'all' if n % 3 == 0 else 'take', 'srckind': SRCKINDS[n % 3], 'R': n % 3}
    for mode in PARAM_FIRSTS:
        for xs in PARAM_SOURCES:
            for sub in ('T', 'skip_odd'):
                yield {'kind': 'iter', 'sub': sub, 'sentinel': None, 'p': [], 'e1': [], 'e2': [],
                       'src': {'fin': [jv(x) for x in xs], 'tail': None}, 'k': 1, 'mode': mode,
                       'srckind': 'gen', 'R': 2}


def exhaustive(tier):
    yield from param_sweep(tier)
    if tier == 'quick':
        plan = [(0, EXH_SOURCES[:2], [0, 1, 2, 3, 4, 5, 6], DEFAULT_OPS),
                (1, EXH_SOURCES[:4], [0, 1, 2, 3, 4, 5, 6], DEFAULT_OPS),
                (2, EXH_SOURCES[:2], [0, 2, 5], DEFAULT_OPS)]
    else:
        plan = [(0, EXH_SOURCES, range(7), DEFAULT_OPS), (1, EXH_SOURCES, range(7), DEFAULT_OPS + ALT_OPS),
                (2, EXH_SOURCES, range(7), DEFAULT_OPS), (3, EXH_SOURCES, range(7), DEFAULT_OPS),
                (2, EXH_SOURCES[:2], [1, 4], ALT_OPS), (4, EXH_SOURCES[:1], [2, 6], DEFAULT_OPS)]
    for L, sources, ks, ops in plan:
        for seq in itertools.product(ops, repeat=L):
            for si, src in enumerate(sources):
                for k in ks:
                    cut = (len(seq) + k + si) % (len(seq) + 1)
                    yield {'kind': 'iter', 'sub': 'T', 'sentinel': None, 'p': list(seq[:cut]),
                           'e1': [DEFAULT_OPS[(k + si) % len(DEFAULT_OPS)]] if (k + si) % 3 == 0 else [],
                           'e2': list(seq[cut:]), 'src': src, 'k': k, 'mode': 'take'}


def gen_call(rng):
    r = rng.random()
    names = ['a', 'b', 'c']
    if r < 0.45:
        return {'op': 'C', 'a': [jv(rng.choice([0, 1, 5, None])) for _ in range(rng.randint(0, 2))],
                'kw': [[k, jv(rng.choice([0, 1, 7]))] for k in rng.sample(names, rng.randint(0, 2))]}
    if r < 0.8:
        return {'op': 'S', 'a': [rng.choice(['T', 'inc', 'wrap', 'neg']) for _ in range(rng.randint(0, 2))],
                'kw': [[k, rng.choice(['T', 'inc', 'dbl'])] for k in rng.sample(names, rng.randint(0, 2))]}
    c = {'op': '*'}
    if rng.random() < 0.7:
        c['args'] = rng.choice(['wrap', 'pair', 'rng', 'inc'])
    if rng.random() < 0.5 or 'args' not in c:
        c['kwargs'] = rng.choice(['kwd', 'kwb'])
    return c


def gen_invoke_case(rng):
    calls = [gen_call(rng) for _ in range(rng.randint(0, 4))]
    cut = rng.randint(0, len(calls))
    return {'kind': 'invoke', 'p': calls[:cut], 'e2': calls[cut:],
            'e1': [gen_call(rng) for _ in range(rng.randint(0, 2))],
            'target': jv(rng.choice([0, 1, 2, 4, 7, None]))}


def generate(rng, tier, scale, **focus):
    n = (1600 if tier == 'quick' else 30000) * scale
    maxlen = 3 if tier == 'quick' else 4
    for i in range(n):
        if i % 8 == 7:
            yield gen_invoke_case(rng)
        elif i % 8 in (2, 5):
            yield gen_reuse_case(rng)
        else:
            yield gen_iter_case(rng, maxlen, focus)
    if not focus:
        yield from exhaustive(tier)


def corpus():
    p = os.path.join(os.path.dirname(os.path.dirname(os.path.dirname(os.path.abspath(__file__)))),
                     'corpus', 'C17.jsonl')
    out = []
    if os.path.exists(p):
        for line in open(p):
            if line.strip():
                out.append(json.loads(line))
    return out


def key(case):
    return {k: case.get(k) for k in ('kind', 'sub', 'sentinel', 'p', 'e1', 'e2', 'src', 'k', 'mode', 'target',
                                     'srckind', 'R', 'pipes', 'form', 'steps')}


def _raised(o):
    return isinstance(o, dict) and (isinstance(o.get('fin'), dict) or isinstance(o.get('first'), dict)
                                    and 'raised' in o['first'] or 'raised' in o)


def nontrivial(case, verdict):
    impl = case.get('impl') or {}
    if case.get('kind') == 'reuse':
        return len(case['steps']) >= 2 or any(p['ops'] for p in case['pipes']) or \
            any(_raised(o) for o in impl.get('steps', []))
    if len(case['p']) + len(case['e2']) >= 2:
        return True
    if case['e1'] and (case['p'] or case['e2']):
        return True
    return any(_raised(impl.get(k)) for k in ('main', 'reused', 'before'))


def focus(disagreements, facts_changed):
    f = {}
    if 'C17Facts' in (facts_changed or []):
        f['sentinel'] = True
        f['reuse'] = True
    for c, _ in disagreements or []:
        if c.get('kind') == 'reuse':
            continue
        if c.get('sentinel') is not None:
            f['sentinel'] = True
        if c.get('e1'):
            f['reuse'] = True
    return f


def shrink_reuse(case):
    base = {k: v for k, v in case.items() if not k.startswith('impl')}
    steps, pipes = case['steps'], case['pipes']
    for i in range(len(steps)):
        if len(steps) > 1:
            yield dict(base, steps=steps[:i] + steps[i + 1:])
    for pi, p in enumerate(pipes):
        for i in range(len(p['ops'])):
            q = dict(p, ops=p['ops'][:i] + p['ops'][i + 1:])
            yield dict(base, pipes=pipes[:pi] + [q] + pipes[pi + 1:])
        if p['sub'] != 'T':
            yield dict(base, pipes=pipes[:pi] + [dict(p, sub='T')] + pipes[pi + 1:])
    items = case['src']['fin']
    for i in range(len(items)):
        yield dict(base, src=dict(case['src'], fin=items[:i] + items[i + 1:]))
    if items:
        yield dict(base, src=dict(case['src'], fin=items[:len(items) // 2]))
    for i, st in enumerate(steps):
        if st['mode'] == 'take' and st['k'] > 0:
            yield dict(base, steps=steps[:i] + [dict(st, k=st['k'] - 1)] + steps[i + 1:])
        if st['mode'] != 'all':
            yield dict(base, steps=steps[:i] + [{'pipe': st['pipe'], 'mode': 'all'}] + steps[i + 1:])
    if case.get('R', R_DEFAULT) > 1:
        yield dict(base, R=1)
    if case['form'] == 'dict':
        yield dict(base, form='calls')
    if case.get('srckind', 'gen') != 'gen':
        yield dict(base, srckind='gen')


def shrink(case):
    if case.get('kind') == 'reuse':
        yield from shrink_reuse(case)
        return
    base = {k: v for k, v in case.items() if not k.startswith('impl')}
    for part in ('e1', 'p', 'e2'):
        ops = case[part]
        for i in range(len(ops)):
            c = dict(base)
            c[part] = ops[:i] + ops[i + 1:]
            yield c
    if case.get('kind') == 'invoke':
        return
    items = case['src']['fin']
    if len(items) > 0:
        for i in range(len(items)):
            c = dict(base)
            c['src'] = dict(case['src'], fin=items[:i] + items[i + 1:])
            yield c
        c = dict(base)
        c['src'] = dict(case['src'], fin=items[:len(items) // 2])
        yield c
    if case['k'] > 0:
        c = dict(base)
        c['k'] = case['k'] - 1
        yield c
    if case['mode'] != 'take':
        c = dict(base)
        c['mode'] = 'take'
        yield c
    if case.get('sentinel') is not None:
        c = dict(base)
        c['sentinel'] = None
        yield c
    if case.get('R', R_DEFAULT) > 1:
        yield dict(base, R=1)
    if case.get('srckind', 'gen') != 'gen':
        yield dict(base, srckind='gen')
