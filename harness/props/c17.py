"""C17 — Iter pipelines / Invoke builders: generators, implementation runner, shrinker."""
import itertools
import json
import os
import random

PROP = 'C17'
LEAN_MODULES = ['Glom.Props.C17']
FACT_FILES = ['C17Facts', 'c17']
READY = True
MANIFEST = dict(
    text="PARTIAL proof. Lean 4 theorems about an executable model of glom/streaming.py in which every "
         "Iter stage is a pull transducer over a source with a pull counter: (semantics) for every stage "
         "list of any length, every finite source and all user functions, draining the demand-driven chain "
         "yields exactly the composition of the list functions map/filter/takeWhile/dropWhile/slice/chunked/"
         "windowed/split/unique/join in chaining order, with SKIP/STOP/sentinel honoured by the base stage; "
         "(laziness) for every source, finite or infinite, every source item pulled while k outputs are "
         "requested lies in a prefix that does not yet determine k outputs (so pulls <= need(k), plus the "
         "size-1 items windowed_iter takes while glomit runs), runs depend only on the prefix pulled, "
         "first()/all() terminate exactly when a finite prefix determines their answer; (builders) on a heap "
         "of spec objects _add_op and Invoke.constants/specs/star allocate and never write an existing object, "
         "for every history of builder calls. Per-run facts obligation by `decide` on tables regenerated from "
         "/repo (no builder method writes self, _add_op builds a new list and forwards the sentinel, _iterate's "
         "SKIP/STOP branches, reversed-stack fold, callback table); model tied to the code by differential "
         "execution (items, end/exception class, number of source items pulled, repr/behaviour of a re-used "
         "prefix spec) through the compiled Lean driver.",
    note="partial because itertools' islice/takewhile/dropwhile/chain and boltons' chunked_iter/windowed_iter/"
         "split_iter/unique_iter/first are external code: their pull behaviour is modelled from documentation "
         "and observed behaviour (islice mirrors CPython's cnt/next counters) and validated only by the "
         "correspondence; Python's generator suspension is modelled by recursion with fuel. Trusted: Lean "
         "kernel + {propext, Classical.choice, Quot.sound}; extractor; harness/driver. Domain: stream elements "
         "are ints/None/lists/tuples (no SKIP/STOP objects as data, no bools/floats), chunked/windowed size "
         ">= 1, islice step >= 1, split maxsplit != 0, sentinel a small int or None (identity = equality).",
    technique='Lean 4 refinement proof (demand-driven transducer chain = composition of list functions; '
              'prefix-determinacy invariant for laziness; heap frame condition for builders) + facts obligation '
              'by decide + differential correspondence with pull counting',
    ref='DESIGN.md §3 C17')
RULE = ('type-directed: the element type (int / list / tuple) is tracked through the chain so that most '
        'stage functions apply (inc on ints, len on chunks, flatten on lists …); a one-edit mutation stream '
        'plants an ill-typed function, a flatten over scalars, an unhashable unique key, a raising function or '
        'a raising source at every position. Every case builds a prefix spec P, derives P.E1 from it, then '
        'P.E2 from the *same* object, and observes repr/behaviour of P before and after, P.E2 against a '
        'freshly built chain, and take-k / all() / first() of P.E2 over an instrumented source (finite, '
        'finite-then-raising, or infinite with a pull budget) that counts pulls. Also exhaustive: all stage '
        'sequences up to length 2 (quick) / 3, and 4 on one source (thorough) over the eleven builder methods '
        'x sources x every k <= 6; and Invoke.constants/specs/star histories. non-trivial = >= 2 chained '
        'stages, or a re-used prefix with a non-empty first derivation, or a run ending in an exception; '
        'distinct = distinct (spec, source, k, mode)')
TRUSTED = ["itertools (islice, takewhile, dropwhile, chain, map, filter) and boltons.iterutils (chunked_iter, "
           "windowed_iter, split_iter, unique_iter, first): modelled from documentation/observed behaviour, "
           "validated only by the correspondence",
           "CPython generator suspension (modelled by structural recursion with fuel)"]
ASSUMPTIONS = ['stream elements are ints, None, lists, tuples; SKIP/STOP only as results of the base subspec',
               'chunked/windowed size >= 1, islice step >= 1, maxsplit != 0',
               'sentinel is None or an int in CPython\'s small-int range (so `is` coincides with ==)',
               'infinite sources are observed through a pull budget of %d items' % 40]

BUDGET = 40


class Budget(Exception):
    pass


EXC = {'ValueError': ValueError, 'KeyError': KeyError, 'Budget': Budget}


def _bad3(x):
    if x == 3:
        raise ValueError('bad3')
    return x


def catalogue():
    from glom import T, SKIP, STOP
    return {
        'T': T,
        'inc': lambda x: x + 1,
        'dbl': lambda x: x * 2,
        'neg': lambda x: -x,
        'mod2': lambda x: x % 2,
        'mod3': lambda x: x % 3,
        'lt3': lambda x: int(x < 3),
        'wrap': lambda x: [x, x],
        'rng': lambda x: list(range(x % 3)),
        'pair': lambda x: (x, 0),
        'length': len,
        'head': T[0],
        'bad3': _bad3,
        'none': lambda x: None,
        'zero': lambda x: 0,
        'one': lambda x: 1,
        'skip_odd': lambda x: SKIP if (type(x) is int and x % 2) else x,
        'stop_ge4': lambda x: STOP if (type(x) is int and x >= 4) else x,
        'skip_stop': lambda x: ((STOP if x >= 5 else SKIP if x % 3 == 1 else x) if type(x) is int else x),
    }


KW_SPECS = {
    'kwd': lambda x: {'a': x, 'c': x + 1},
    'kwb': lambda x: {'b': x},
}

# ----------------------------------------------------------------------------- value codec


def enc(v):
    if v is None:
        return None
    if type(v) is int:
        return {'i': v}
    if type(v) is list:
        return {'l': [enc(x) for x in v]}
    if type(v) is tuple:
        return {'t': [enc(x) for x in v]}
    return {'x': repr(v)[:80]}


def dec(j):
    if j is None:
        return None
    if 'i' in j:
        return j['i']
    if 'l' in j:
        return [dec(x) for x in j['l']]
    if 't' in j:
        return tuple(dec(x) for x in j['t'])
    raise ValueError(j)


def exc_name(e):
    for c in type(e).__mro__:
        if not c.__name__.startswith('GlomError.wrap'):
            return c.__name__
    return type(e).__name__


# ----------------------------------------------------------------------------- building specs

def base_iter(case, cat):
    from glom import Iter
    kw = {}
    if case.get('sentinel') is not None:
        kw['sentinel'] = dec(case['sentinel']['v'])
    if case['sub'] == 'T':
        return Iter(**kw)
    return Iter(cat[case['sub']], **kw)


def apply_op(it, op, cat):
    n = op['op']
    if n in ('map', 'filter', 'takewhile', 'dropwhile', 'unique'):
        return getattr(it, n)(cat[op['f']])
    if n == 'flatten':
        return it.flatten()
    if n == 'limit':
        return it.limit(op['n'])
    if n == 'slice':
        return it.slice(*op['a'])
    if n == 'chunked':
        if 'fill' in op:
            return it.chunked(op['size'], fill=dec(op['fill']['v']))
        return it.chunked(op['size'])
    if n == 'windowed':
        return it.windowed(op['size'])
    if n == 'split':
        kw = {}
        sep = op.get('sep')
        if sep is not None:
            if 'scalar' in sep:
                kw['sep'] = dec(sep['scalar'])
            elif 'set' in sep:
                kw['sep'] = [dec(x) for x in sep['set']]
        if op.get('maxsplit') is not None:
            kw['maxsplit'] = op['maxsplit']
        return it.split(**kw)
    raise ValueError(op)


def chain(it, ops, cat):
    for op in ops:
        it = apply_op(it, op, cat)
    return it


def make_source(src, counter):
    items = [dec(x) for x in src['fin']]
    tail = src.get('tail')

    def gen():
        for x in items:
            counter[0] += 1
            yield x
        if tail:
            raise EXC[tail]('source')
    return gen()


def run_take(spec, src, k):
    import glom
    counter = [0]
    try:
        it = glom.glom(make_source(src, counter), spec)
    except Exception as e:
        return {'items': [], 'fin': {'raised': exc_name(e)}, 'pulls': counter[0]}
    items = []
    for _ in range(k):
        try:
            items.append(enc(next(it)))
        except StopIteration:
            return {'items': items, 'fin': 'exhausted', 'pulls': counter[0]}
        except Exception as e:
            return {'items': items, 'fin': {'raised': exc_name(e)}, 'pulls': counter[0]}
    return {'items': items, 'fin': 'gotK', 'pulls': counter[0]}


def run_all(spec, src):
    import glom
    counter = [0]
    try:
        res = glom.glom(make_source(src, counter), spec.all())
    except Exception as e:
        return {'fin': {'raised': exc_name(e)}, 'pulls': counter[0]}
    return {'items': [enc(x) for x in res], 'fin': 'exhausted', 'pulls': counter[0]}


_DEFAULT = object()


def run_first(spec, src, key):
    import glom
    counter = [0]
    try:
        res = glom.glom(make_source(src, counter), spec.first(key, default=_DEFAULT))
    except Exception as e:
        return {'first': {'raised': exc_name(e)}, 'pulls': counter[0]}
    if res is _DEFAULT:
        return {'first': 'default', 'pulls': counter[0]}
    return {'first': {'found': enc(res)}, 'pulls': counter[0]}


def run_impl(case):
    if case.get('kind') == 'invoke':
        return run_invoke(case)
    cat = catalogue()
    src, k = case['src'], case['k']
    out = dict(case)
    p = chain(base_iter(case, cat), case['p'], cat)
    r0 = repr(p)
    before = run_take(p, src, k)
    d1 = chain(p, case['e1'], cat)
    if case['e1']:
        run_take(d1, src, k)                      # use the first derivation, too
    d2 = chain(p, case['e2'], cat)
    r1 = repr(p)
    after = run_take(p, src, k)
    reused = run_take(d2, src, k)
    fresh = run_take(chain(base_iter(case, cat), case['p'] + case['e2'], cat), src, k)
    mode = case['mode']
    if mode == 'take':
        main = None
    elif mode == 'all':
        main = run_all(d2, src)
    else:
        main = run_first(d2, src, cat[mode['first']])
    out['impl'] = {'main': main, 'repr_same': r0 == r1, 'before': before, 'after': after,
                   'reused': reused, 'fresh': fresh}
    return out


# ----------------------------------------------------------------------------- Invoke

def collect(*a, **kw):
    return (list(a), sorted(kw.items()))


def apply_call(inv, c, cat):
    if c['op'] == 'C':
        return inv.constants(*[dec(x) for x in c['a']], **{k: dec(v) for k, v in c['kw']})
    if c['op'] == 'S':
        return inv.specs(*[cat[x] for x in c['a']], **{k: cat[v] for k, v in c['kw']})
    kw = {}
    if c.get('args'):
        kw['args'] = cat[c['args']]
    if c.get('kwargs'):
        kw['kwargs'] = KW_SPECS[c['kwargs']]
    return inv.star(**kw)


def run_inv(inv, target):
    import glom
    try:
        a, kw = glom.glom(target, inv)
    except Exception as e:
        return {'raised': exc_name(e)}
    return {'ok': [[enc(x) for x in a], [[k, enc(v)] for k, v in kw]]}


def run_invoke(case):
    from glom import Invoke
    cat = catalogue()
    target = dec(case['target'])
    out = dict(case)

    def build(calls, start=None):
        inv = start if start is not None else Invoke(collect)
        for c in calls:
            inv = apply_call(inv, c, cat)
        return inv
    p = build(case['p'])
    r0 = repr(p)
    before = run_inv(p, target)
    d1 = build(case['e1'], p)
    if case['e1']:
        run_inv(d1, target)
    d2 = build(case['e2'], p)
    r1 = repr(p)
    after = run_inv(p, target)
    reused = run_inv(d2, target)
    fresh = run_inv(build(case['p'] + case['e2']), target)
    out['impl'] = {'repr_same': r0 == r1, 'before': before, 'after': after, 'reused': reused, 'fresh': fresh}
    return out


# ----------------------------------------------------------------------------- generators

INT_FNS = ['inc', 'dbl', 'neg', 'mod2', 'mod3', 'lt3', 'T', 'bad3']
INT_TO_SEQ = ['wrap', 'rng', 'pair']
SEQ_FNS = ['length', 'head', 'T', 'dbl']
PREDS_INT = ['mod2', 'mod3', 'lt3', 'T', 'one', 'zero']
PREDS_SEQ = ['length', 'T', 'one', 'zero', 'head']
ALL_FNS = ['T', 'inc', 'dbl', 'neg', 'mod2', 'mod3', 'lt3', 'wrap', 'rng', 'pair', 'length', 'head',
           'bad3', 'none', 'zero', 'one']
BASE_SUBS = ['skip_odd', 'stop_ge4', 'skip_stop']


def jv(v):
    return enc(v)


def gen_op(rng, ty, mutate):
    """one builder call for elements of type `ty` ('int' | 'seq'); returns (op, new_ty)"""
    kinds = ['map', 'filter', 'takewhile', 'dropwhile', 'slice', 'limit', 'chunked', 'windowed',
             'split', 'unique', 'flatten']
    weights = [3, 2, 1, 1, 2, 1, 2, 2, 2, 2, 2 if ty == 'seq' else (1 if mutate else 0)]
    kind = rng.choices(kinds, weights)[0]
    if kind == 'map':
        if mutate:
            return {'op': 'map', 'f': rng.choice(ALL_FNS)}, 'any'
        if ty == 'int':
            if rng.random() < 0.3:
                return {'op': 'map', 'f': rng.choice(INT_TO_SEQ)}, 'seq'
            return {'op': 'map', 'f': rng.choice(INT_FNS)}, 'int'
        f = rng.choice(SEQ_FNS)
        return {'op': 'map', 'f': f}, ('seq' if f in ('T', 'dbl') else 'int')
    if kind in ('filter', 'takewhile', 'dropwhile'):
        f = rng.choice(ALL_FNS if mutate else (PREDS_INT if ty == 'int' else PREDS_SEQ))
        return {'op': kind, 'f': f}, ty
    if kind == 'slice':
        form = rng.randrange(3)
        stop = rng.choice([None, 0, 1, 2, 3, 4, 5])
        if form == 0:
            a = [stop]
        elif form == 1:
            a = [rng.choice([None, 0, 1, 2, 3]), stop]
        else:
            a = [rng.choice([None, 0, 1, 2, 6]), stop, rng.choice([None, 1, 2, 3])]
        return {'op': 'slice', 'a': a}, ty
    if kind == 'limit':
        return {'op': 'limit', 'n': rng.choice([0, 1, 2, 3, 5, None])}, ty
    if kind == 'chunked':
        op = {'op': 'chunked', 'size': rng.choice([1, 2, 2, 3])}
        if rng.random() < 0.4:
            op['fill'] = {'v': jv(rng.choice([None, 0, 9]))}
        return op, 'seq'
    if kind == 'windowed':
        return {'op': 'windowed', 'size': rng.choice([1, 2, 2, 3])}, 'seq'
    if kind == 'split':
        op = {'op': 'split'}
        r = rng.random()
        if r < 0.35:
            pass
        elif r < 0.65:
            op['sep'] = {'scalar': jv(rng.choice([0, 1, 2]))}
        else:
            op['sep'] = {'set': [jv(x) for x in rng.sample([None, 0, 1, 2, 3], rng.randint(0, 2))]}
        if rng.random() < 0.4:
            op['maxsplit'] = rng.choice([1, 2, 3])
        return op, 'seq'
    if kind == 'unique':
        if mutate:
            return {'op': 'unique', 'f': rng.choice(ALL_FNS)}, ty
        f = rng.choice(['T', 'mod2', 'mod3', 'lt3'] if ty == 'int' else ['length', 'head', 'length'])
        return {'op': 'unique', 'f': f}, ty
    return {'op': 'flatten'}, 'any'


def gen_source(rng, ty, infinite):
    pool_int = [0, 1, 2, 3, 4, 5, 1, 2, -1, 7]
    if ty == 'seq':
        def item():
            n = rng.choice([0, 1, 2, 2, 3])
            xs = [rng.choice(pool_int) for _ in range(n)]
            return xs if rng.random() < 0.7 else tuple(xs)
    else:
        def item():
            if rng.random() < 0.08:
                return None
            return rng.choice(pool_int)
    if infinite:
        style = rng.random()
        if ty == 'int' and style < 0.5:
            start = rng.choice([0, 0, 1, -2])
            items = [start + i for i in range(BUDGET)]            # itertools.count(start)
        else:
            pat = [item() for _ in range(rng.randint(1, 4))]
            items = [pat[i % len(pat)] for i in range(BUDGET)]      # itertools.cycle(pattern)
        return {'fin': [jv(x) for x in items], 'tail': 'Budget'}
    n = rng.choice([0, 1, 2, 3, 4, 5, 6, 7, 8, 10])
    src = {'fin': [jv(item()) for _ in range(n)], 'tail': None}
    if rng.random() < 0.06:
        src['tail'] = rng.choice(['ValueError', 'KeyError'])
    return src


def gen_iter_case(rng, maxlen, focus):
    mutate = rng.random() < 0.25
    ty0 = 'seq' if rng.random() < 0.2 else 'int'
    infinite = rng.random() < 0.3
    case = {'kind': 'iter', 'sub': 'T', 'sentinel': None}
    r = rng.random()
    ty = ty0
    if r < 0.15:
        case['sub'] = rng.choice(BASE_SUBS)
    elif r < 0.3:
        f = rng.choice(INT_FNS if ty0 == 'int' else SEQ_FNS)
        case['sub'] = f
        if ty0 == 'seq':
            ty = 'seq' if f in ('T', 'dbl') else 'int'
    if rng.random() < (0.5 if focus.get('sentinel') else 0.15):
        case['sentinel'] = {'v': jv(rng.choice([None, 0, 1, 2, 3, 4]))}
    n = rng.randint(0, maxlen)
    ops = []
    mut_at = rng.randrange(n) if (mutate and n) else -1
    for i in range(n):
        op, ty2 = gen_op(rng, 'int' if ty == 'any' else ty, i == mut_at)
        ops.append(op)
        ty = ty2
    cut = rng.randint(0, len(ops))
    case['p'], case['e2'] = ops[:cut], ops[cut:]
    case['e1'] = []
    if rng.random() < (0.7 if focus.get('reuse') else 0.45):
        case['e1'] = [gen_op(rng, 'int', rng.random() < 0.2)[0] for _ in range(rng.randint(1, 2))]
    case['src'] = gen_source(rng, ty0, infinite)
    case['k'] = rng.randint(0, 6)
    m = rng.random()
    case['mode'] = 'take' if m < 0.6 else 'all' if m < 0.8 else {'first': rng.choice(['T', 'mod2', 'lt3', 'zero', 'one', 'length', 'bad3'])}
    return case


DEFAULT_OPS = [
    {'op': 'map', 'f': 'inc'}, {'op': 'filter', 'f': 'mod2'}, {'op': 'takewhile', 'f': 'lt3'},
    {'op': 'dropwhile', 'f': 'lt3'}, {'op': 'slice', 'a': [1, 5, 2]}, {'op': 'limit', 'n': 3},
    {'op': 'chunked', 'size': 2}, {'op': 'windowed', 'size': 2}, {'op': 'split', 'sep': {'scalar': {'i': 2}}},
    {'op': 'unique', 'f': 'T'}, {'op': 'flatten'},
]
ALT_OPS = [
    {'op': 'map', 'f': 'wrap'}, {'op': 'filter', 'f': 'T'}, {'op': 'takewhile', 'f': 'one'},
    {'op': 'dropwhile', 'f': 'mod2'}, {'op': 'slice', 'a': [2]}, {'op': 'limit', 'n': 0},
    {'op': 'chunked', 'size': 3, 'fill': {'v': None}}, {'op': 'windowed', 'size': 3}, {'op': 'split'},
    {'op': 'unique', 'f': 'length'}, {'op': 'map', 'f': 'length'},
]
EXH_SOURCES = [
    {'fin': [jv(x) for x in [1, 2, 0, 3, 2, 4, 5, 0, 1]], 'tail': None},
    {'fin': [jv(x) for x in range(BUDGET)], 'tail': 'Budget'},
    {'fin': [jv(x) for x in [3, None, 1]], 'tail': None},
    {'fin': [jv(x) for x in [[1, 2], [], (3,), [0, 0]]], 'tail': None},
    {'fin': [jv([i % 3, i]) for i in range(BUDGET)], 'tail': 'Budget'},
]


def exhaustive(tier):
    if tier == 'quick':
        plan = [(0, EXH_SOURCES[:2], [0, 1, 2, 3, 4, 5, 6], DEFAULT_OPS),
                (1, EXH_SOURCES[:4], [0, 1, 2, 3, 4, 5, 6], DEFAULT_OPS),
                (2, EXH_SOURCES[:2], [0, 2, 5], DEFAULT_OPS)]
    else:
        plan = [(0, EXH_SOURCES, range(7), DEFAULT_OPS), (1, EXH_SOURCES, range(7), DEFAULT_OPS + ALT_OPS),
                (2, EXH_SOURCES, range(7), DEFAULT_OPS), (3, EXH_SOURCES, range(7), DEFAULT_OPS),
                (2, EXH_SOURCES[:2], [1, 4], ALT_OPS), (4, EXH_SOURCES[:1], [2, 6], DEFAULT_OPS)]
    for L, sources, ks, ops in plan:
        for seq in itertools.product(ops, repeat=L):
            for si, src in enumerate(sources):
                for k in ks:
                    cut = (len(seq) + k + si) % (len(seq) + 1)
                    yield {'kind': 'iter', 'sub': 'T', 'sentinel': None, 'p': list(seq[:cut]),
                           'e1': [DEFAULT_OPS[(k + si) % len(DEFAULT_OPS)]] if (k + si) % 3 == 0 else [],
                           'e2': list(seq[cut:]), 'src': src, 'k': k, 'mode': 'take'}


def gen_call(rng):
    r = rng.random()
    names = ['a', 'b', 'c']
    if r < 0.45:
        return {'op': 'C', 'a': [jv(rng.choice([0, 1, 5, None])) for _ in range(rng.randint(0, 2))],
                'kw': [[k, jv(rng.choice([0, 1, 7]))] for k in rng.sample(names, rng.randint(0, 2))]}
    if r < 0.8:
        return {'op': 'S', 'a': [rng.choice(['T', 'inc', 'wrap', 'neg']) for _ in range(rng.randint(0, 2))],
                'kw': [[k, rng.choice(['T', 'inc', 'dbl'])] for k in rng.sample(names, rng.randint(0, 2))]}
    c = {'op': '*'}
    if rng.random() < 0.7:
        c['args'] = rng.choice(['wrap', 'pair', 'rng', 'inc'])
    if rng.random() < 0.5 or 'args' not in c:
        c['kwargs'] = rng.choice(['kwd', 'kwb'])
    return c


def gen_invoke_case(rng):
    calls = [gen_call(rng) for _ in range(rng.randint(0, 4))]
    cut = rng.randint(0, len(calls))
    return {'kind': 'invoke', 'p': calls[:cut], 'e2': calls[cut:],
            'e1': [gen_call(rng) for _ in range(rng.randint(0, 2))],
            'target': jv(rng.choice([0, 1, 2, 4, 7, None]))}


def generate(rng, tier, scale, **focus):
    n = (1600 if tier == 'quick' else 30000) * scale
    maxlen = 3 if tier == 'quick' else 4
    for i in range(n):
        if i % 8 == 7:
            yield gen_invoke_case(rng)
        else:
            yield gen_iter_case(rng, maxlen, focus)
    if not focus:
        yield from exhaustive(tier)


def corpus():
    p = os.path.join(os.path.dirname(os.path.dirname(os.path.dirname(os.path.abspath(__file__)))),
                     'corpus', 'C17.jsonl')
    out = []
    if os.path.exists(p):
        for line in open(p):
            if line.strip():
                out.append(json.loads(line))
    return out


def key(case):
    return {k: case.get(k) for k in ('kind', 'sub', 'sentinel', 'p', 'e1', 'e2', 'src', 'k', 'mode', 'target')}


def _raised(o):
    return isinstance(o, dict) and (isinstance(o.get('fin'), dict) or isinstance(o.get('first'), dict)
                                    and 'raised' in o['first'] or 'raised' in o)


def nontrivial(case, verdict):
    impl = case.get('impl') or {}
    if len(case['p']) + len(case['e2']) >= 2:
        return True
    if case['e1'] and (case['p'] or case['e2']):
        return True
    return any(_raised(impl.get(k)) for k in ('main', 'reused', 'before'))


def focus(disagreements, facts_changed):
    f = {}
    if 'C17Facts' in (facts_changed or []):
        f['sentinel'] = True
        f['reuse'] = True
    for c, _ in disagreements or []:
        if c.get('sentinel') is not None:
            f['sentinel'] = True
        if c.get('e1'):
            f['reuse'] = True
    return f


def shrink(case):
    base = {k: v for k, v in case.items() if not k.startswith('impl')}
    for part in ('e1', 'p', 'e2'):
        ops = case[part]
        for i in range(len(ops)):
            c = dict(base)
            c[part] = ops[:i] + ops[i + 1:]
            yield c
    if case.get('kind') == 'invoke':
        return
    items = case['src']['fin']
    if len(items) > 0:
        for i in range(len(items)):
            c = dict(base)
            c['src'] = dict(case['src'], fin=items[:i] + items[i + 1:])
            yield c
        c = dict(base)
        c['src'] = dict(case['src'], fin=items[:len(items) // 2])
        yield c
    if case['k'] > 0:
        c = dict(base)
        c['k'] = case['k'] - 1
        yield c
    if case['mode'] != 'take':
        c = dict(base)
        c['mode'] = 'take'
        yield c
    if case.get('sentinel') is not None:
        c = dict(base)
        c['sentinel'] = None
        yield c
