"""C17 — Iter pipelines / Invoke builders: generators, implementation runner, shrinker."""
import itertools
import json
import types
import os
import random

PROP = 'C17'
LEAN_MODULES = ['Glom.Props.C17']
FACT_FILES = ['C17Facts', 'c17']
READY = True
MANIFEST = dict(
    text="PARTIAL proof. Lean 4 theorems about an executable model of glom/streaming.py in which every "
         "Iter stage is a pull transducer over a source with a pull counter: (semantics) for every stage "
         "list of any length, every finite source and all user functions, draining the demand-driven chain "
         "yields exactly the composition of the list functions map/filter/takeWhile/dropWhile/slice/chunked/"
         "windowed/split/unique/join in chaining order, with SKIP/STOP/sentinel honoured by the base stage — the "
         "sentinel as an OBJECT: values carry identity, and `is` (the sentinel test), the `==` operator (split's "
         "separator test) and equality inside sets (unique, separator sets) are three relations of the model, over "
         "ints, bools, floats, strings, tuples, lists and instances whose __eq__ says yes to everything / raises / "
         "returns a non-bool; (laziness) for every source, finite or infinite, every source item pulled while k "
         "outputs are requested lies in a prefix that does not yet determine k outputs (so pulls <= need(k), plus the "
         "size-1 items windowed_iter takes while glomit runs), runs depend only on the prefix pulled, "
         "first()/all() terminate exactly when a finite prefix determines their answer; in closed form: per-stage "
         "lookahead bounds (subspec without SKIP, map, takewhile: n; chunked: n*size; windowed: n+size-1; slice: "
         "start+(n-1)*step+1) and their composition bound take-k on every source; (streams) stage states live on a "
         "heap, every glomit allocates fresh cells and writes no existing one, and for any number of live streams "
         "(same spec object, derived specs, any specs) under ANY schedule of open/next/all/first events each stream's "
         "outputs and final state equal those of its solo run (induction over the schedule), the heap model passes the "
         "stream checker; counter-example theorem for stage state kept per spec; (boltons) unique_iter, chunked_iter, "
         "split_iter, windowed_iter (tee + zip) transcribed from boltons' source as generators: on every finite upstream "
         "(ending or raising) each yields the trace of its transducer, hence the list function, and moves the upstream as "
         "the transducer does; (builders) on a heap "
         "of spec objects _add_op and Invoke.constants/specs/star allocate and never write an existing object, "
         "for every history of builder calls; (source) the effect of a run on the caller's source object is "
         "exactly the pulled prefix: a pipeline started at position p is the pipeline over the suffix, the "
         "position never moves back, next() afterwards finds the suffix after the pulled prefix, close() is never "
         "called, every later pipeline over the same object (a later glom call, another value of a dict spec) "
         "yields the composition over the remaining items, a suspended iterator resumed after others read from "
         "the source goes on as if their items had never been there. Per-run facts obligation by `decide` on tables regenerated from "
         "/repo (no builder method writes self, _add_op builds a new list and forwards the sentinel, _iterate's "
         "SKIP/STOP branches are identity tests, _iterate uses the target's iterator as the iterable of its for loop and for nothing "
         "else, reversed-stack fold, every callback is a lambda that calls its iterator function); model tied to the code by differential "
         "execution (items with their identities, end/exception class, number of source items pulled, what next() finds on the source "
         "object afterwards and whether close() was called on it, several pipelines and suspended iterators over "
         "one source object, several LIVE streams of one spec / derived specs pulled in interleaved order each against its solo "
         "reference, the boltons generator models against the installed boltons called directly, repr/behaviour of a re-used "
         "prefix spec) through the compiled Lean driver. Since the audit: (independent reference) the per-prefix traces are monotone "
         "and prefixes of the composition of the list functions, checkTake/checkAll accept only that composition whenever it evaluates, "
         "the driver also compares the implementation with composeE directly; slice/chunked/windowed/split/unique list functions are "
         "characterised element-wise / by first occurrence / by group contents; (SKIP/STOP) only Iter(subspec) gives them a meaning, "
         "map yields them, filter/takewhile see a falsy key — in the model and in generated cases; (arguments) what slice/limit/chunked/"
         "windowed/split make of None/bools/negative/zero/fractional/string arguments and WHEN a bad one is rejected (builder call, "
         "glomit, first next) with the pulls made by earlier stages; first(default=<spec-like>) evaluates the default against the stream; "
         "filter(Check(…)), keys without a truth value; type of all()'s result; class of chained specs.",
    note="partial because itertools' islice/takewhile/dropwhile/chain/tee/zip are C code modelled from documentation "
         "and observed behaviour (islice mirrors CPython's cnt/next counters; tee as a shared buffer with one read index per tee), "
         "validated only by the correspondence; boltons' four helpers are modelled from their source and proved equal to the "
         "transducers on finite upstreams (the model itself is tied to the installed boltons by differential execution); "
         "Python's generator suspension is modelled by recursion with fuel; a resumed take over a source others read in between "
         "is proved piecewise (c17_resume + c17_model_checks_take), the whole step checker only for fresh steps; all()/first() are "
         "terminal methods checked by facts (Pipe(self, list) / (self, First(key, default))), not builder operations of the heap model; "
         "keys are adapted per stage by Model functions (Fn.asFilterKey / asPredicate / ofCheck), Check's other conditions (type, "
         "instance_of, equal_to, one_of) are not modelled; exact pull counts are compared with the model (agree), the property "
         "checker bounds them by the data-dependent least prefix. Trusted: Lean "
         "kernel + {propext, Classical.choice, Quot.sound}; extractor; harness/driver. Domain: stream elements "
         "are None/ints/bools/integral floats/strings/lists/tuples/instances of four user classes, with object identity "
         "(no SKIP/STOP objects as data, no NaN), chunked/windowed size "
         ">= 1, islice step >= 1, split maxsplit != 0, a single split separator is an atom; identity of values written without an "
         "identity follows CPython (None, True/False, ints in [-5,256], the empty tuple and strings of <= 1 character are one object per value).",
    technique='Lean 4 refinement proof (demand-driven transducer chain = composition of list functions; '
              'prefix-determinacy invariant for laziness + closed-form lookahead bounds; heap frame conditions for builders and '
              'for per-stream stage state with induction over schedules; code-shaped generator models of boltons refined to the '
              'transducers) + facts obligation by decide + differential correspondence with pull counting and object identity',
    ref='DESIGN.md §3 C17')
RULE = ('type-directed: the element type (int / list / tuple) is tracked through the chain so that most '
        'stage functions apply (inc on ints, len on chunks, flatten on lists …); a one-edit mutation stream '
        'plants an ill-typed function, a flatten over scalars, an unhashable unique key, a raising function or '
        'a raising source at every position. Every case builds a prefix spec P, derives P.E1 from it, then '
        'P.E2 from the *same* object, and observes repr/behaviour of P before and after, P.E2 against a '
        'freshly built chain, and take-k / all() / first() of P.E2 over an instrumented source (finite, '
        'finite-then-raising, or infinite with a pull budget) that counts pulls. Also exhaustive: all stage '
        'sequences up to length 2 (quick) / 3, and 4 on one source (thorough) over the eleven builder methods '
        'x sources x every k <= 6; and Invoke.constants/specs/star histories. non-trivial = >= 2 chained '
        'stages, or a re-used prefix with a non-empty first derivation, or a run ending in an exception. '
        'Sources are objects that are their own iterator — a generator, an object with __next__ and close(), one '
        'without close() — instrumented to count pulls and record close(); after every run the harness calls '
        'next() on the source up to R times: the items must be those after the pulled prefix. Stop values '
        '(the sentinel, items on which the subspec returns STOP) are planted at 1-3 uniformly chosen positions. '
        'Reuse cases: 1-2 pipelines and 1-4 steps over ONE source object — take k (the iterator stays suspended '
        'and is resumed by a later step), all(), first() as separate glom calls, or all()/first() as the values of '
        'one dict spec — every step must yield the composition over the items remaining at that point. Parameter '
        'sweep: every builder method in every call form (each optional argument absent / present: chunked fill, '
        'split sep scalar / set / callable and maxsplit, slice arities with None, limit 0 / beyond the length, '
        'default keys of filter / takewhile / dropwhile / unique, first() / first(default=) / first(key, default=)) '
        'x sources shorter than / equal to / longer than the sizes, with consecutive separators and colliding keys. '
        'Identity: a case value {"ref": n, …} is ONE Python object wherever it occurs (source, sentinel, outputs are '
        'encoded back with their identity); values without ref are built afresh per occurrence (float(), str.join, '
        'int(str) outside the small-int cache). Twin cases: 19 sentinel kinds (small / big int, float, bool, string, tuple, '
        'list, empty tuple, one-character string, None, default STOP, instances with identity / permissive / raising __eq__) '
        'x items EQUAL to the sentinel but not identical with it (1 / 1.0 / True, an equal string or tuple built at run time, '
        'another object, objects equal to everything, objects whose == raises or has no truth value) planted at 1-3 random positions '
        'before or instead of the sentinel object itself, also as results of the base subspec; exhaustive sweep sentinel kind x twin x '
        'position 0..3, bare and chained; every catalogue callable on every value kind as map / filter / unique key / split '
        'separator / subspec. Streams cases: one base spec object and 0-2 specs derived from it (or from each other), 2-4 streams '
        'each over its own source, events open / next / all() / first() in a random interleaving; exhaustive: every stateful stage '
        '(unique, chunked +-fill, windowed, slice, limit, takewhile, dropwhile, split +-maxsplit, filter, map) x (same spec | spec + '
        'derived | two derived) x ALL interleavings of 2+2 (quick) / 3+3, 2+2+2, 1+4 (thorough) pulls, streams opened lazily or up front; '
        'after every event the stream is checked against its solo reference. Boltons cases: chunked_iter / windowed_iter / split_iter / '
        'unique_iter of the installed boltons called directly on an instrumented iterator vs the code-shaped Lean generators '
        '(items, end, pulls per next, pulls by the call itself) and vs the list function. READINGS of the property text: '
        '(R1) "honouring SKIP, STOP": the SKIP / STOP objects mean something where Iter(subspec) looks at what the subspec gave '
        '(for Iter() the item itself) and nowhere else — map yields them as items, for filter / takewhile / dropwhile / first a key '
        'that gives them is a falsy key, unique / split treat them as values; generated: skip2 / stop3 as subspec, map function and key of '
        'every stage, SKIP / STOP objects lying in the source, sentinel=SKIP / STOP. (R2) the sentinel is an object (is, not ==). '
        '(R3) "returns a new spec": of the class of the spec it was called on (a user subclass of Iter is generated; type(self)(…) is a '
        'fact), all() returns a LIST (type(res) is list is observed), first(key, default) hands default to a Call as an ARGUMENT: a '
        'spec-like default (T, Val(c)) is evaluated against the stream (generated: default=T gives the live iterator). (R4) arguments: '
        'every value kind (None, bools, negative / zero / positive ints, whole and fractional floats, numeric and other strings) for '
        'slice (all arities) / limit / chunked / windowed / split maxsplit, bare, after a windowed stage and before another stage: the '
        'class of the exception AND when it is raised (builder call / inside glom() / at the first next()) AND how far the source was '
        'pulled by then. (R5) filter(key) keeps an item iff Check(key, default=SKIP) passes and the item is not the SKIP object: a key '
        'result whose bool() raises is dropped silently by filter and raises in takewhile / dropwhile / first / split; filter(Check(validate, '
        'default)) uses the Check itself (fails only on `is False` or an exception; default other than SKIP keeps the item, none raises '
        'CheckError). (R6) quantifier: random chains up to length 3 (quick) / 4 (thorough), exhaustive up to 2 / 3 (+4 on one source); '
        '"infinite" sources are 40 items followed by a Budget exception. (R7) laziness is checked as pulls <= the least prefix that '
        'determines the answer (data-dependent); equality of pull counts with the model is part of the correspondence. '
        '(R8) a consumer that catches an exception and calls next() again on the same iterator (events cases: n pulls, every exception '
        'caught): the itertools composition is made of map / filter / takewhile / dropwhile OBJECTS, which go on with the next '
        'element, and of generators / islice / chain, which are finished by the first exception that reaches them; every stage kind '
        'whose function can raise (map, filter, base subspec, takewhile / dropwhile predicates, unique key, callable split separator, '
        'flatten) raising mid-stream, alone, below and above every other stage kind; events, pulls per event and the source afterwards. '
        'distinct = distinct (spec, source, k, mode / schedule)')
TRUSTED = ["itertools (islice, takewhile, dropwhile, chain, map, filter, tee, zip): modelled from documentation/observed behaviour, "
           "validated only by the correspondence",
           "boltons.iterutils chunked_iter / windowed_iter / split_iter / unique_iter: modelled from their source (Model/C17Boltons.lean), "
           "proved equal to the transducers; the transcription itself is validated by differential execution against the installed boltons; "
           "boltons.iterutils.first: next(filter(key, it), default), from its source",
           "CPython generator suspension (modelled by structural recursion with fuel)",
           "CPython object identity for values without an explicit identity (small-int cache, interned one-character strings, empty tuple)"]
ASSUMPTIONS = ['stream elements are None, ints, bools, integral floats, strings, lists, tuples, the SKIP / STOP objects, a live '
               'iterator object (opaque), instances of five harness classes (plain / __eq__ always True / __eq__ raises / __eq__ '
               'returns an object without a truth value / __bool__ raises); no NaN',
               'a single split separator is None, a number or a string; stages after split(sep, 0) do not look into the iterator it '
               'hands out; T-expressions are not used as callable separators / Check validators (they are callable objects, not predicates)',
               'no hash collision between an identity-hashed instance and another key',
               'infinite sources are observed through a pull budget of %d items' % 40,
               'split(maxsplit=0) yields the iterator object itself: outside the value domain, not generated',
               'the source after a run is observed on targets that are their own iterator; a source that raises '
               'at its end is not asked beyond its last item',
               'reuse and streams cases use stages whose callbacks do not raise inside glomit (limit(-1), windowed(-1) are '
               'exercised by the args cases, where the timing is modelled by runTakeG)',
               'pulling on after an exception that passed through a windowed stage is not modelled (zip(*tees) goes on with its tees '
               'out of step: windows like (4, 4)); events cases have no windowed stage',
               'in streams cases every stream has its own source object (a source shared by suspended iterators is the reuse class); '
               'a stream that has ended is not asked again']

BUDGET = 40


class Budget(Exception):
    pass


EXC = {'ValueError': ValueError, 'KeyError': KeyError, 'Budget': Budget}


def _bad3(x):
    if x == 3:
        raise ValueError('bad3')
    return x


def catalogue():
    from glom import T, SKIP, STOP
    return {
        'T': T,
        'inc': lambda x: x + 1,
        'dbl': lambda x: x * 2,
        'neg': lambda x: -x,
        'mod2': lambda x: x % 2,
        'mod3': lambda x: x % 3,
        'lt3': lambda x: int(x < 3),
        'wrap': lambda x: [x, x],
        'rng': lambda x: list(range(x % 3)),
        'pair': lambda x: (x, 0),
        'length': len,
        'head': T[0],
        'bad3': _bad3,
        'none': lambda x: None,
        'zero': lambda x: 0,
        'one': lambda x: 1,
        'skip2': lambda x: SKIP if (type(x) is int and x == 2) else x,    # SKIP / STOP as the RESULT of a function:
        'stop3': lambda x: STOP if (type(x) is int and x == 3) else x,    # only Iter(f) itself gives them a meaning
        'nobool2': lambda x: dec(NOBOOL) if (type(x) is int and x == 2) else x,   # a key result without a truth value
        'pos': lambda x: x > 0,                                                  # a validator for Check: a bool, or TypeError
        'tofloat': lambda x: float(x) if type(x) is int else x,      # a subspec result that EQUALS an int
        'tobool': lambda x: bool(x) if type(x) is int else x,
        'skip_odd': lambda x: SKIP if (type(x) is int and x % 2) else x,
        'stop_ge4': lambda x: STOP if (type(x) is int and x >= 4) else x,
        'skip_stop': lambda x: ((STOP if x >= 5 else SKIP if x % 3 == 1 else x) if type(x) is int else x),
    }


KW_SPECS = {
    'kwd': lambda x: {'a': x, 'c': x + 1},
    'kwb': lambda x: {'b': x},
}

# ----------------------------------------------------------------------------- value codec


# Values carry *identity*: {'ref': n, 'v': V} is THE object number n of the case — every
# occurrence (in the source, as the sentinel, in an output) is the same Python object; a value
# written without 'ref' is built afresh at every occurrence (floats by float(), strings by
# ''.join, ints outside CPython's small-int cache by int(str), tuples / lists element-wise),
# so that it is EQUAL to its other occurrences but not identical with them.

class Plain(object):
    """object(): equal to itself only"""


class Wild(object):
    """equal to everything (like unittest.mock.ANY)"""
    def __eq__(self, other):
        return True

    def __ne__(self, other):
        return False

    __hash__ = object.__hash__


class EqRaises(object):
    """comparing it raises"""
    def __eq__(self, other):
        raise ValueError('this object cannot be compared')

    __ne__ = __eq__
    __hash__ = object.__hash__


class NoTruth(object):
    def __bool__(self):
        raise ValueError('the truth value of a comparison result is ambiguous')


class EqOdd(object):
    """array-like: == gives an object that has no truth value"""
    def __eq__(self, other):
        return NoTruth()

    __ne__ = __eq__
    __hash__ = object.__hash__


class NoBool(object):
    """array-like: it has no truth value"""
    def __bool__(self):
        raise ValueError('the truth value of this object is ambiguous')


CLASSES = [Plain, Wild, EqRaises, EqOdd, NoBool]
_MEMO = {}       # ref number -> object            (one case)
_REG = {}        # id(object) -> ref number


def begin_case():
    _MEMO.clear()
    _REG.clear()


def _enc_plain(v):
    if v is None:
        return None
    import glom
    if v is glom.SKIP:
        return {'k': 'SKIP'}
    if v is glom.STOP:
        return {'k': 'STOP'}
    if isinstance(v, types.GeneratorType) or (hasattr(v, '__next__') and hasattr(v, '__iter__')):
        return {'g': True}              # a live iterator object that turned up as a value
    if type(v) is bool:
        return {'b': v}
    if type(v) is int:
        return {'i': v}
    if type(v) is float and v == v and abs(v) < 1e15 and v == int(v):
        return {'f': int(v)}
    if type(v) is str:
        return {'s': v}
    if type(v) is list:
        return {'l': [enc(x) for x in v]}
    if type(v) is tuple:
        return {'t': [enc(x) for x in v]}
    if type(v) in CLASSES:
        return {'o': CLASSES.index(type(v))}
    return {'x': repr(v)[:80]}


def enc(v):
    n = _REG.get(id(v))
    if n is not None and _MEMO.get(n) is v:
        return {'ref': n, 'v': _enc_plain(v)}
    return _enc_plain(v)


def _dec_fresh(j):
    if j is None:
        return None
    if 'k' in j:
        import glom
        return glom.SKIP if j['k'] == 'SKIP' else glom.STOP
    if 'i' in j:
        v = j['i']
        return v if -5 <= v <= 256 else int(str(v))
    if 'b' in j:
        return bool(j['b'])
    if 'f' in j:
        return float(j['f'])
    if 's' in j:
        return ''.join(list(j['s']))
    if 'l' in j:
        return [dec(x) for x in j['l']]
    if 't' in j:
        return tuple(dec(x) for x in j['t'])
    if 'o' in j:
        return CLASSES[j['o']]()
    raise ValueError(j)


def dec(j):
    if j is not None and 'ref' in j:
        n = j['ref']
        if n not in _MEMO:
            o = _dec_fresh(j['v'])
            _MEMO[n] = o
            _REG[id(o)] = n
        return _MEMO[n]
    return _dec_fresh(j)


def exc_name(e):
    for c in type(e).__mro__:
        if not c.__name__.startswith('GlomError.wrap'):
            return c.__name__
    return type(e).__name__


# ----------------------------------------------------------------------------- building specs

_SUBCLASS = []


def iter_class(case):
    """`Iter`, or (case['subclass']) a user subclass of it: chaining must give specs of the same class"""
    from glom import Iter
    if not case.get('subclass'):
        return Iter
    if not _SUBCLASS:
        class MyIter(Iter):
            pass
        _SUBCLASS.append(MyIter)
    return _SUBCLASS[0]


def base_iter(case, cat):
    Iter = iter_class(case)
    kw = {}
    if case.get('sentinel') is not None:
        kw['sentinel'] = dec(case['sentinel']['v'])
    if case['sub'] == 'T':
        return Iter(**kw)
    return Iter(cat[case['sub']], **kw)


def apply_op(it, op, cat):
    n = op['op']
    if n == 'filter' and 'check' in op:
        # a Check instance as the key of filter(): it is used as the check itself
        from glom import Check, SKIP
        c = op['check']
        kw = {} if c['default'] is None else {'default': SKIP if c['default'] == 'SKIP' else 5}
        return it.filter(Check(validate=cat[c['validate']], **kw))
    if n in ('map', 'filter', 'takewhile', 'dropwhile', 'unique'):
        if op.get('f') is None:                    # the method's default argument (key=T)
            return getattr(it, n)()
        return getattr(it, n)(cat[op['f']])
    if n == 'flatten':
        return it.flatten()
    if n == 'limit':
        return it.limit(op['n'])
    if n == 'slice':
        return it.slice(*op['a'])
    if n == 'chunked':
        if 'fill' in op:
            return it.chunked(op['size'], fill=dec(op['fill']['v']))
        return it.chunked(op['size'])
    if n == 'windowed':
        return it.windowed(op['size'])
    if n == 'split':
        kw = {}
        sep = op.get('sep')
        if sep is not None:
            if 'scalar' in sep:
                kw['sep'] = dec(sep['scalar'])
            elif 'set' in sep:
                kw['sep'] = [dec(x) for x in sep['set']]
            elif 'fn' in sep:
                kw['sep'] = cat[sep['fn']]         # a callable separator (called by split_iter itself)
        if op.get('maxsplit') is not None:
            kw['maxsplit'] = op['maxsplit']
        return it.split(**kw)
    raise ValueError(op)


def chain(it, ops, cat):
    for op in ops:
        it = apply_op(it, op, cat)
    return it


R_DEFAULT = 3


class SrcState(object):
    """instrumentation of one source object: items handed out, whether close() was called on it"""
    def __init__(self):
        self.pulled = 0
        self.closed = False


class PlainSource(object):
    """an object that is its own iterator (like a file or a cursor), without close()"""
    def __init__(self, items, tail, st):
        self._items, self._tail, self._st = items, tail, st

    def __iter__(self):
        return self

    def __next__(self):
        st = self._st
        if st.closed:
            raise StopIteration
        if st.pulled < len(self._items):
            st.pulled += 1
            return self._items[st.pulled - 1]
        if self._tail:
            raise EXC[self._tail]('source')
        raise StopIteration


class ClosableSource(PlainSource):
    """... with close(): a closed source yields nothing more"""
    def close(self):
        self._st.closed = True


def make_source(src, st, kind='gen'):
    """the target of a run: a generator / an iterator object with close() / one without"""
    items = [dec(x) for x in src['fin']]
    tail = src.get('tail')
    if kind == 'obj':
        return ClosableSource(items, tail, st)
    if kind == 'plain':
        return PlainSource(items, tail, st)

    def gen():
        try:
            for x in items:
                st.pulled += 1
                yield x
        except GeneratorExit:          # close() on the suspended generator (or its disposal)
            st.closed = True
            raise
        if tail:
            raise EXC[tail]('source')
    return gen()


def probe(source, st, src, r):
    """what the caller finds on the source object after glom is done with it: up to r items by
    next() (a source that raises at its end is not asked beyond its last item)"""
    n = len(src['fin'])
    rest, ended = [], False
    for _ in range(r):
        if src.get('tail') and st.pulled >= n:
            break
        try:
            rest.append(enc(next(source)))
        except StopIteration:
            ended = True
            break
        except Exception as e:
            rest.append({'x': 'raised ' + exc_name(e)})
            break
    return {'rest': rest, 'ended': ended, 'closed': st.closed}


def take_from(it, st, k):
    items = []
    for _ in range(k):
        try:
            items.append(enc(next(it)))
        except StopIteration:
            return {'items': items, 'fin': 'exhausted', 'pulls': st.pulled}
        except Exception as e:
            return {'items': items, 'fin': {'raised': exc_name(e)}, 'pulls': st.pulled}
    return {'items': items, 'fin': 'gotK', 'pulls': st.pulled}


def run_take(spec, src, k, kind='gen', r=R_DEFAULT):
    import glom
    st = SrcState()
    source = make_source(src, st, kind)
    try:
        it = glom.glom(source, spec)
    except Exception as e:
        out = {'items': [], 'fin': {'raised': exc_name(e)}, 'pulls': st.pulled}
    else:
        out = take_from(it, st, k)
    out['src_after'] = probe(source, st, src, r)
    return out


def run_all(spec, src, kind='gen', r=R_DEFAULT):
    import glom
    st = SrcState()
    source = make_source(src, st, kind)
    try:
        res = glom.glom(source, spec.all())
    except Exception as e:
        out = all_raised(e, st)
    else:
        out = all_obs(res, st)
    out['src_after'] = probe(source, st, src, r)
    return out


def all_obs(res, st):
    """what `glom(target, spec.all())` returned: it must BE a list (not a tuple, not an iterator that happens to
    hold the same items)"""
    is_list = type(res) is list
    return {'items': [enc(x) for x in res], 'fin': 'exhausted', 'pulls': st.pulled, 'is_list': is_list}


def all_raised(e, st):
    return {'items': [], 'fin': {'raised': exc_name(e)}, 'pulls': st.pulled, 'is_list': True}


_DEFAULT = object()
_NEVER = object()


def first_spec(spec, mode, cat):
    """spec.first(key, default=…) in each of its call forms: `first()` (key=T, default=None),
    `first(default=D)`, `first(key, default=D)`.  Without a key only truthy items are found, so
    a result of None can only be the default."""
    name = mode['first']
    if mode.get('default') in ('T', 'Val'):
        # a SPEC-LIKE default: `First` hands it to a `Call` as an argument, and `Call` evaluates it against the stream
        import glom
        d = glom.T if mode['default'] == 'T' else glom.Val(424243)
        return (spec.first(default=d) if name is None else spec.first(cat[name], default=d)), _NEVER
    if name is None:
        if mode.get('nodefault'):
            return spec.first(), None
        return spec.first(default=_DEFAULT), _DEFAULT
    return spec.first(cat[name], default=_DEFAULT), _DEFAULT


def run_first(spec, src, mode, cat, kind='gen', r=R_DEFAULT):
    import glom
    st = SrcState()
    source = make_source(src, st, kind)
    try:
        fs, dflt = first_spec(spec, mode, cat)
        res = glom.glom(source, fs)
    except Exception as e:
        out = {'first': {'raised': exc_name(e)}, 'pulls': st.pulled}
    else:
        if res is dflt:
            out = {'first': 'default', 'pulls': st.pulled}
        else:
            out = {'first': {'found': enc(res)}, 'pulls': st.pulled}
    out['src_after'] = probe(source, st, src, r)
    return out


def run_impl(case):
    begin_case()
    if case.get('kind') == 'invoke':
        return run_invoke(case)
    if case.get('kind') == 'reuse':
        return run_reuse(case)
    if case.get('kind') == 'streams':
        return run_streams(case)
    if case.get('kind') == 'boltons':
        return run_boltons(case)
    if case.get('kind') == 'args':
        return run_args(case)
    if case.get('kind') == 'events':
        return run_events(case)
    cat = catalogue()
    src, k = case['src'], case['k']
    sk, r = case.get('srckind', 'gen'), case.get('R', R_DEFAULT)
    out = dict(case)
    p = chain(base_iter(case, cat), case['p'], cat)
    r0 = repr(p)
    before = run_take(p, src, k, sk, r)
    d1 = chain(p, case['e1'], cat)
    if case['e1']:
        run_take(d1, src, k, sk, r)               # use the first derivation, too
    d2 = chain(p, case['e2'], cat)
    r1 = repr(p)
    after = run_take(p, src, k, sk, r)
    reused = run_take(d2, src, k, sk, r)
    fresh = run_take(chain(base_iter(case, cat), case['p'] + case['e2'], cat), src, k, sk, r)
    mode = case['mode']
    if mode == 'take':
        main = None
    elif mode == 'all':
        main = run_all(d2, src, sk, r)
    else:
        main = run_first(d2, src, mode, cat, sk, r)
    out['impl'] = {'main': main, 'repr_same': r0 == r1, 'before': before, 'after': after,
                   'reused': reused, 'fresh': fresh,
                   'cls_kept': all(type(x) is iter_class(case) for x in (p, d1, d2))}
    return out


# ----------------------------------------------------------------------------- one source, several pipelines

def run_reuse(case):
    """several pipelines consume ONE source object, one after the other: separate glom calls
    (take k from an iterator that stays suspended and may be resumed later / all() / first()),
    or the values of one dict spec.  Every step records what it yielded and the number of
    source items handed out so far; the sequence ends at the first exception."""
    import glom
    cat = catalogue()
    src, r = case['src'], case.get('R', R_DEFAULT)
    st = SrcState()
    source = make_source(src, st, case.get('srckind', 'gen'))
    specs = [chain(base_iter(p, cat), p['ops'], cat) for p in case['pipes']]
    obs = []

    def terminal(step):
        spec = specs[step['pipe']]
        if step['mode'] == 'all':
            return spec.all()
        return first_spec(spec, step['mode'], cat)[0]

    def record(step, res):
        if step['mode'] == 'all':
            obs.append(all_obs(res, st))
        elif res is (None if step['mode'].get('nodefault') else _DEFAULT):
            obs.append({'first': 'default', 'pulls': st.pulled})
        else:
            obs.append({'first': {'found': enc(res)}, 'pulls': st.pulled})
        return res

    def failed(step, e):
        if step['mode'] == 'take':
            obs.append({'items': [], 'fin': {'raised': exc_name(e)}, 'pulls': st.pulled})
        elif step['mode'] == 'all':
            obs.append(all_raised(e, st))
        else:
            obs.append({'first': {'raised': exc_name(e)}, 'pulls': st.pulled})

    steps = case['steps']
    if case['form'] == 'dict':
        # {'s0': (spec0, recorder0), 's1': (spec1, recorder1), …}: values are evaluated in order
        spec = {}
        for n, step in enumerate(steps):
            spec['s%d' % n] = (terminal(step), (lambda res, step=step: record(step, res)))
        try:
            glom.glom(source, spec)
        except Exception as e:
            if len(obs) < len(steps):
                failed(steps[len(obs)], e)
    else:
        live = {}
        for step in steps:
            i = step['pipe']
            try:
                if step['mode'] == 'take':
                    if i not in live:
                        live[i] = glom.glom(source, specs[i])
                else:
                    res = glom.glom(source, terminal(step))
            except Exception as e:
                failed(step, e)
                break
            if step['mode'] == 'take':
                o = take_from(live[i], st, step['k'])
                obs.append(o)
                if isinstance(o['fin'], dict):
                    break
            else:
                record(step, res)
    out = dict(case)
    out['impl'] = {'steps': obs, 'src_after': probe(source, st, src, r)}
    return out


# ----------------------------------------------------------------------------- several live streams

def run_streams(case):
    """several iterators that are alive at the same time — made from ONE base spec object and from
    specs derived from it — each over its own source object, opened and pulled in the order the
    schedule says.  Every event records what it gave and the number of items handed out by the
    stream's own source so far."""
    import glom
    cat = catalogue()
    specs = [chain(base_iter(case['base'], cat), case['base']['ops'], cat)]
    for d in case['derived']:
        specs.append(chain(specs[d['from']], d['ops'], cat))
    sts, sources, its, dead = [], [], {}, set()
    for sj in case['streams']:
        st = SrcState()
        sts.append(st)
        sources.append(make_source(sj['src'], st, sj.get('srckind', 'gen')))
    obs = []
    for ev, i in case['events']:
        sj, st = case['streams'][i], sts[i]
        if ev == 'open':
            try:
                its[i] = glom.glom(sources[i], specs[sj['spec']])
                obs.append({'open': 'ok', 'pulls': st.pulled})
            except Exception as e:
                dead.add(i)
                obs.append({'open': {'raised': exc_name(e)}, 'pulls': st.pulled})
        elif ev == 'next':
            if i in dead or i not in its:
                obs.append({'dead': True})
                continue
            try:
                obs.append({'item': enc(next(its[i])), 'pulls': st.pulled})
            except StopIteration:
                dead.add(i)
                obs.append({'end': 'exhausted', 'pulls': st.pulled})
            except Exception as e:
                dead.add(i)
                obs.append({'end': {'raised': exc_name(e)}, 'pulls': st.pulled})
        else:
            spec, mode = specs[sj['spec']], sj['mode']
            if mode == 'all':
                try:
                    res = glom.glom(sources[i], spec.all())
                except Exception as e:
                    obs.append(all_raised(e, st))
                else:
                    obs.append(all_obs(res, st))
            else:
                try:
                    fs, dflt = first_spec(spec, mode, cat)
                    res = glom.glom(sources[i], fs)
                except Exception as e:
                    obs.append({'first': {'raised': exc_name(e)}, 'pulls': st.pulled})
                else:
                    obs.append({'first': 'default' if res is dflt else {'found': enc(res)}, 'pulls': st.pulled})
    out = dict(case)
    out['impl'] = {'events': obs}
    return out


# ----------------------------------------------------------------------------- builder methods at the edges of their arguments

def raw(v):
    """an argument value as the case carries it"""
    if v is None or type(v) in (bool, int):
        return v
    if type(v) is float:
        return {'fl': repr(v), 'trunc': int(v), 'integral': v == int(v)}
    return {'str': v}


def unraw(j):
    if isinstance(j, dict):
        return float(j['fl']) if 'fl' in j else ''.join(list(j['str']))
    return j


def run_args(case):
    """Iter().<pre…>.<method>(<raw arguments>).<post…>: does the builder call raise (and what), does glom() raise while
    it builds the chain (and how far has the source been pulled by then), or what does the stream give"""
    import glom
    cat = catalogue()
    op, src, k = case['op'], case['src'], case['k']
    out = dict(case)
    try:
        spec = chain(glom.Iter(), case['pre'], cat)
        args = [unraw(a) for a in op.get('args', [])]
        if op['m'] == 'split':
            sep = op.get('sep')
            kw = {}
            if sep is not None:
                kw['sep'] = dec(sep['scalar']) if 'scalar' in sep else [dec(x) for x in sep['set']]
            spec = spec.split(maxsplit=unraw(op['maxsplit']), **kw)
        elif op['m'] == 'chunked' and 'fill' in op:
            spec = spec.chunked(*args, fill=dec(op['fill']['v']))
        else:
            spec = getattr(spec, op['m'])(*args)
        spec = chain(spec, case['post'], cat)
    except Exception as e:
        out['impl'] = {'build': {'raised': exc_name(e)}}
        return out
    sk = case.get('srckind', 'gen')
    run = run_all(spec, src, sk, 1) if case['mode'] == 'all' else run_take(spec, src, k, sk, 1)
    out['impl'] = {'build': 'ok', 'run': run}
    return out


ARG_VALUES = [None, True, False, -1, 0, 1, 2, 5, 1.5, 0.5, -0.5, 2.0, -2.0, '2', 'a']


def args_sweep(tier):
    """every builder method that takes numbers x every kind of value a caller can write there (None, bools, negative /
    zero / positive ints, whole and fractional floats, numeric and other strings), every arity of slice; bare, after a
    windowed stage (whose priming shows WHEN a callback raises) and with a stage chained after it"""
    vals = [raw(v) for v in ARG_VALUES]
    ops = [{'m': 'slice', 'args': []}, {'m': 'slice', 'args': [raw(0), raw(1), raw(1), raw(1)]}]
    ops += [{'m': 'slice', 'args': [v]} for v in vals]
    ops += [{'m': 'slice', 'args': [a, b]} for a in vals[:8] + vals[8:9] + vals[14:] for b in (raw(None), raw(3), raw(-1), raw(1.0))]
    ops += [{'m': 'slice', 'args': [raw(a), raw(b), c]} for a in (None, 1) for b in (None, 4) for c in vals]
    ops += [{'m': 'limit', 'args': [v]} for v in vals]
    ops += [{'m': 'chunked', 'args': [v]} for v in vals]
    ops += [{'m': 'chunked', 'args': [v], 'fill': {'v': None}} for v in vals[:8]]
    ops += [{'m': 'windowed', 'args': [v]} for v in vals]
    ops += [{'m': 'split', 'sep': {'scalar': jv(0)}, 'maxsplit': v} for v in vals]
    ops += [{'m': 'split', 'maxsplit': v} for v in vals[:8]]
    pres = [[], [{'op': 'windowed', 'size': 2}], [{'op': 'map', 'f': 'inc'}]]
    posts = [[], [{'op': 'map', 'f': 'T'}], [{'op': 'limit', 'n': 1}]]
    srcs = [{'fin': [jv(x) for x in [1, 0, 2, 0, 3]], 'tail': None}, {'fin': [], 'tail': None},
            {'fin': [jv(1)], 'tail': 'ValueError'}]
    n = 0
    for op in ops:
        for pi, pre in enumerate(pres):
            for qi, post in enumerate(posts):
                for si, src in enumerate(srcs):
                    n += 1
                    if tier == 'quick' and (pi + qi + si) % 3 != n % 3:
                        continue
                    yield {'kind': 'args', 'pre': pre, 'op': op, 'post': post, 'src': src, 'k': (0, 2, 9)[n % 3],
                           'mode': 'all' if n % 4 == 0 else 'take', 'srckind': SRCKINDS[n % 3]}


# ----------------------------------------------------------------------------- a consumer that goes on after exceptions

def run_events(case):
    """it = glom(source, spec); then n times next(it) — a skip-bad-rows loop: an exception is caught, recorded, and the
    loop goes on with the SAME iterator.  Every event with the number of source items handed out so far."""
    import glom
    cat = catalogue()
    st = SrcState()
    source = make_source(case['src'], st, case.get('srckind', 'gen'))
    spec = chain(base_iter(case, cat), case['ops'], cat)
    out = dict(case)
    try:
        it = glom.glom(source, spec)
    except Exception as e:
        out['impl'] = {'open': {'raised': exc_name(e)}, 'open_pulls': st.pulled, 'events': [],
                       'src_after': {'rest': [], 'ended': False, 'closed': st.closed}}
        return out
    obs = []
    for _ in range(case['n']):
        try:
            obs.append({'item': enc(next(it)), 'pulls': st.pulled})
        except StopIteration:
            obs.append({'end': 'exhausted', 'pulls': st.pulled})
            break
        except Exception as e:
            obs.append({'raised': exc_name(e), 'pulls': st.pulled})
    out['impl'] = {'open': 'ok', 'open_pulls': 0, 'events': obs,
                   'src_after': probe(source, st, case['src'], case.get('R', R_DEFAULT))}
    return out


RAISING = ['bad3', 'inc', 'lt3', 'length', 'head', 'rng']      # raise for some items (bad3: ValueError at 3; the others on ill-typed items)


def gen_events_case(rng):
    """a chain without windowed stages in which some stage raises for some items (a function that rejects 3, ill-typed
    items, a flatten over scalars, an unhashable key), pulled on after every exception"""
    items = [rng.choice([1, 2, 3, 4, 5, 3, 0, None, 7]) for _ in range(rng.randint(0, 9))]
    case = {'kind': 'events', 'sub': 'T', 'sentinel': None, 'ops': []}
    r = rng.random()
    if r < 0.2:
        case['sub'] = rng.choice(['bad3', 'inc', 'skip_odd', 'stop_ge4'])
    elif r < 0.3:
        case['sentinel'] = {'v': jv(rng.choice([0, 4, None]))}
    for _ in range(rng.choice([1, 1, 2, 2, 3])):
        while True:
            if rng.random() < 0.55:
                kind = rng.choice(['map', 'filter', 'takewhile', 'dropwhile', 'unique'])
                op = {'op': kind, 'f': rng.choice(RAISING)}
            elif rng.random() < 0.15:
                op = {'op': 'split', 'sep': {'fn': rng.choice(['bad3', 'lt3', 'inc'])}}
            else:
                op = gen_op(rng, 'int', rng.random() < 0.3)[0]
            if op['op'] != 'windowed' and (op.get('sep') or {}).get('fn') not in ('T', 'head'):
                break
        case['ops'].append(op)
    case['src'] = {'fin': [jv(x) for x in items], 'tail': rng.choice([None, None, None, 'KeyError'])}
    case['n'] = len(items) + 3
    case['srckind'] = gen_srckind(rng)
    case['R'] = rng.choice([0, 1, 2])
    return case


def events_sweep(tier):
    """every stage kind whose function can raise (map, filter, the base subspec, takewhile / dropwhile predicates, the unique
    key, a callable split separator, flatten) raising in the middle of the stream, alone, BELOW every other stage kind and ABOVE
    a raising map; pulled to the end"""
    firsts = [('T', {'op': 'map', 'f': 'bad3'}), ('T', {'op': 'filter', 'f': 'bad3'}), ('bad3', None),
              ('T', {'op': 'takewhile', 'f': 'bad3'}), ('T', {'op': 'dropwhile', 'f': 'bad3'}),
              ('T', {'op': 'unique', 'f': 'bad3'}), ('T', {'op': 'split', 'sep': {'fn': 'bad3'}}),
              ('T', {'op': 'map', 'f': 'inc'}), ('T', {'op': 'flatten'})]
    seconds = [None, {'op': 'map', 'f': 'T'}, {'op': 'map', 'f': 'dbl'}, {'op': 'filter', 'f': 'one'}, {'op': 'takewhile', 'f': 'one'},
               {'op': 'dropwhile', 'f': 'zero'}, {'op': 'limit', 'n': 5}, {'op': 'slice', 'a': [0, None, 2]},
               {'op': 'chunked', 'size': 2}, {'op': 'unique'}, {'op': 'split', 'sep': {'scalar': jv(5)}},
               {'op': 'map', 'f': 'wrap'}, {'op': 'map', 'f': 'bad3'}]
    srcs = [[1, 2, 3, 4, 5, 3, 6], [3, 3, 1], [1, None, 2, 3, 4], [[1], 2, [3, 4]], []]
    n = 0
    for sub, op in firsts:
        for sec in seconds:
            for xs in srcs if tier != 'quick' else srcs[:3]:
                for order in (0, 1):
                    n += 1
                    ops = [o for o in ((op, sec) if order == 0 else (sec, op)) if o is not None]
                    if order == 1 and (sec is None or op is None):
                        continue
                    yield {'kind': 'events', 'sub': sub, 'sentinel': None, 'ops': ops,
                           'src': {'fin': [jv(x) for x in xs], 'tail': 'KeyError' if n % 7 == 0 else None},
                           'n': len(xs) + 3, 'srckind': SRCKINDS[n % 3], 'R': n % 3}


# ----------------------------------------------------------------------------- boltons' helpers, called directly

def run_boltons(case):
    """the installed boltons.iterutils helper on an instrumented iterator (no glom involved): ties the
    code-shaped Lean models of chunked_iter / windowed_iter / split_iter / unique_iter to the code"""
    from boltons import iterutils
    cat = catalogue()
    op, st = case['op'], SrcState()
    source = make_source(case['src'], st, case.get('srckind', 'gen'))
    out = dict(case)
    try:
        if op['op'] == 'chunked':
            kw = {'fill': dec(op['fill']['v'])} if 'fill' in op else {}
            it = iterutils.chunked_iter(source, op['size'], **kw)
        elif op['op'] == 'windowed':
            it = iterutils.windowed_iter(source, op['size'])
        elif op['op'] == 'unique':
            it = iterutils.unique_iter(source, key=None if op.get('f') in (None, 'T') else cat[op['f']])
        else:
            kw = {}
            sep = op.get('sep')
            if sep is not None:
                kw['sep'] = dec(sep['scalar']) if 'scalar' in sep else [dec(x) for x in sep['set']] if 'set' in sep \
                    else cat[sep['fn']]
            if op.get('maxsplit') is not None:
                kw['maxsplit'] = op['maxsplit']
            it = iterutils.split_iter(source, **kw)
    except Exception as e:
        out['impl'] = {'init': {'raised': exc_name(e)}, 'init_pulls': st.pulled, 'events': []}
        return out
    obs, init_pulls = [], st.pulled
    for _ in range(case['k']):
        try:
            obs.append({'item': enc(next(it)), 'pulls': st.pulled})
        except StopIteration:
            obs.append({'end': 'exhausted', 'pulls': st.pulled})
            break
        except Exception as e:
            obs.append({'end': {'raised': exc_name(e)}, 'pulls': st.pulled})
            break
    out['impl'] = {'init': 'ok', 'init_pulls': init_pulls, 'events': obs}
    return out


def gen_boltons_case(rng):
    kind = rng.choice(['chunked', 'windowed', 'split', 'unique'])
    while True:
        op = gen_op(rng, 'int', rng.random() < 0.15)[0]
        if op['op'] == kind and op.get('f') != 'head' and (op.get('sep') or {}).get('fn') not in ('T', 'head'):
            break
    src = gen_source(rng, 'int', rng.random() < 0.2)
    if rng.random() < 0.25:
        for _ in range(rng.randint(1, 3)):
            src['fin'].insert(rng.randint(0, len(src['fin'])), rng.choice(VALUE_KINDS))
    return {'kind': 'boltons', 'op': op, 'src': src, 'k': rng.randint(0, 8), 'srckind': gen_srckind(rng)}


def boltons_sweep(tier):
    for op in param_ops():
        if op['op'] not in ('chunked', 'windowed', 'split', 'unique') or op.get('f') == 'T':
            continue
        for xs in PARAM_SOURCES:
            for tail in (None, 'ValueError') if tier != 'quick' else (None,):
                yield {'kind': 'boltons', 'op': op, 'src': {'fin': [jv(x) for x in xs], 'tail': tail}, 'k': 9,
                       'srckind': 'gen'}


# ----------------------------------------------------------------------------- Invoke

def collect(*a, **kw):
    return (list(a), sorted(kw.items()))


def apply_call(inv, c, cat):
    if c['op'] == 'C':
        return inv.constants(*[dec(x) for x in c['a']], **{k: dec(v) for k, v in c['kw']})
    if c['op'] == 'S':
        return inv.specs(*[cat[x] for x in c['a']], **{k: cat[v] for k, v in c['kw']})
    kw = {}
    if c.get('args'):
        kw['args'] = cat[c['args']]
    if c.get('kwargs'):
        kw['kwargs'] = KW_SPECS[c['kwargs']]
    return inv.star(**kw)


def run_inv(inv, target):
    import glom
    try:
        a, kw = glom.glom(target, inv)
    except Exception as e:
        return {'raised': exc_name(e)}
    return {'ok': [[enc(x) for x in a], [[k, enc(v)] for k, v in kw]]}


def run_invoke(case):
    from glom import Invoke
    cat = catalogue()
    target = dec(case['target'])
    out = dict(case)

    def build(calls, start=None):
        inv = start if start is not None else Invoke(collect)
        for c in calls:
            inv = apply_call(inv, c, cat)
        return inv
    p = build(case['p'])
    r0 = repr(p)
    before = run_inv(p, target)
    d1 = build(case['e1'], p)
    if case['e1']:
        run_inv(d1, target)
    d2 = build(case['e2'], p)
    r1 = repr(p)
    after = run_inv(p, target)
    reused = run_inv(d2, target)
    fresh = run_inv(build(case['p'] + case['e2']), target)
    out['impl'] = {'repr_same': r0 == r1, 'before': before, 'after': after, 'reused': reused, 'fresh': fresh}
    return out


# ----------------------------------------------------------------------------- generators

INT_FNS = ['inc', 'dbl', 'neg', 'mod2', 'mod3', 'lt3', 'T', 'bad3']
INT_TO_SEQ = ['wrap', 'rng', 'pair']
SEQ_FNS = ['length', 'head', 'T', 'dbl']
PREDS_INT = ['mod2', 'mod3', 'lt3', 'T', 'one', 'zero']
PREDS_SEQ = ['length', 'T', 'one', 'zero', 'head']
ALL_FNS = ['T', 'inc', 'dbl', 'neg', 'mod2', 'mod3', 'lt3', 'wrap', 'rng', 'pair', 'length', 'head',
           'bad3', 'none', 'zero', 'one', 'skip2', 'stop3', 'nobool2', 'pos']
BASE_SUBS = ['skip_odd', 'stop_ge4', 'skip_stop', 'skip2', 'stop3']
_SKIP, _STOP = {'k': 'SKIP'}, {'k': 'STOP'}
# callable separators of split(): plain functions (split_iter calls them; a T-expression would not do)
SEP_FNS_INT = ['mod2', 'mod3', 'lt3', 'zero', 'one', 'none']
SEP_FNS_SEQ = ['length', 'zero', 'one', 'none']
SEP_FNS_ALL = ['mod2', 'mod3', 'lt3', 'zero', 'one', 'none', 'length', 'bad3', 'inc']


def jv(v):
    return enc(v)


def gen_op(rng, ty, mutate):
    """one builder call for elements of type `ty` ('int' | 'seq'); returns (op, new_ty)"""
    kinds = ['map', 'filter', 'takewhile', 'dropwhile', 'slice', 'limit', 'chunked', 'windowed',
             'split', 'unique', 'flatten']
    weights = [3, 2, 1, 1, 2, 1, 2, 2, 2, 2, 2 if ty == 'seq' else (1 if mutate else 0)]
    kind = rng.choices(kinds, weights)[0]
    if kind == 'map':
        if mutate:
            return {'op': 'map', 'f': rng.choice(ALL_FNS)}, 'any'
        if ty == 'int':
            if rng.random() < 0.3:
                return {'op': 'map', 'f': rng.choice(INT_TO_SEQ)}, 'seq'
            return {'op': 'map', 'f': rng.choice(INT_FNS)}, 'int'
        f = rng.choice(SEQ_FNS)
        return {'op': 'map', 'f': f}, ('seq' if f in ('T', 'dbl') else 'int')
    if kind in ('filter', 'takewhile', 'dropwhile'):
        if rng.random() < 0.12:
            return {'op': kind}, ty                 # the default key (T)
        f = rng.choice(ALL_FNS if mutate else (PREDS_INT if ty == 'int' else PREDS_SEQ))
        return {'op': kind, 'f': f}, ty
    if kind == 'slice':
        form = rng.randrange(3)
        stop = rng.choice([None, 0, 1, 2, 3, 4, 5])
        if form == 0:
            a = [stop]
        elif form == 1:
            a = [rng.choice([None, 0, 1, 2, 3]), stop]
        else:
            a = [rng.choice([None, 0, 1, 2, 6]), stop, rng.choice([None, 1, 2, 3])]
        return {'op': 'slice', 'a': a}, ty
    if kind == 'limit':
        return {'op': 'limit', 'n': rng.choice([0, 1, 2, 3, 5, 20, None])}, ty
    if kind == 'chunked':
        op = {'op': 'chunked', 'size': rng.choice([1, 2, 2, 3, 4])}
        if rng.random() < 0.45:
            op['fill'] = {'v': jv(rng.choice([None, 0, 9]))}
        return op, 'seq'
    if kind == 'windowed':
        return {'op': 'windowed', 'size': rng.choice([1, 2, 2, 3, 4])}, 'seq'
    if kind == 'split':
        op = {'op': 'split'}
        r = rng.random()
        if r < 0.3:
            pass
        elif r < 0.55:
            op['sep'] = {'scalar': jv(rng.choice([0, 1, 2, None]))}
        elif r < 0.8:
            op['sep'] = {'set': [jv(x) for x in rng.sample([None, 0, 1, 2, 3], rng.randint(0, 2))]}
        else:
            op['sep'] = {'fn': rng.choice(SEP_FNS_ALL if mutate else (SEP_FNS_INT if ty == 'int' else SEP_FNS_SEQ))}
        if rng.random() < 0.45:
            op['maxsplit'] = rng.choice([1, 1, 2, 3])
        return op, 'seq'
    if kind == 'unique':
        if rng.random() < 0.15:
            return {'op': 'unique'}, ty             # the default key (T)
        if mutate:
            return {'op': 'unique', 'f': rng.choice(ALL_FNS)}, ty
        f = rng.choice(['T', 'mod2', 'mod3', 'lt3'] if ty == 'int' else ['length', 'head', 'length'])
        return {'op': 'unique', 'f': f}, ty
    return {'op': 'flatten'}, 'any'


def gen_source(rng, ty, infinite):
    pool_int = [0, 1, 2, 3, 4, 5, 1, 2, -1, 7]
    if ty == 'seq':
        def item():
            n = rng.choice([0, 1, 2, 2, 3])
            xs = [rng.choice(pool_int) for _ in range(n)]
            return xs if rng.random() < 0.7 else tuple(xs)
    else:
        def item():
            if rng.random() < 0.08:
                return None
            return rng.choice(pool_int)
    if infinite:
        style = rng.random()
        if ty == 'int' and style < 0.5:
            start = rng.choice([0, 0, 1, -2])
            items = [start + i for i in range(BUDGET)]            # itertools.count(start)
        else:
            pat = [item() for _ in range(rng.randint(1, 4))]
            items = [pat[i % len(pat)] for i in range(BUDGET)]      # itertools.cycle(pattern)
        return {'fin': [jv(x) for x in items], 'tail': 'Budget'}
    n = rng.choice([0, 1, 2, 3, 4, 5, 6, 7, 8, 10])
    if rng.random() < 0.25:                          # runs of equal items
        items = []
        while len(items) < n:
            items += [item()] * rng.randint(1, 3)
        items = items[:n]
    else:
        items = [item() for _ in range(n)]
    src = {'fin': [jv(x) for x in items], 'tail': None}
    if rng.random() < 0.06:
        src['tail'] = rng.choice(['ValueError', 'KeyError'])
    return src


def gen_iter_case(rng, maxlen, focus):
    mutate = rng.random() < 0.25
    ty0 = 'seq' if rng.random() < 0.2 else 'int'
    infinite = rng.random() < 0.3
    case = {'kind': 'iter', 'sub': 'T', 'sentinel': None}
    if rng.random() < 0.12:
        case['subclass'] = True          # a user subclass of Iter: every chained spec must be of that class
    r = rng.random()
    ty = ty0
    if r < 0.15:
        case['sub'] = rng.choice(BASE_SUBS)
    elif r < 0.3:
        f = rng.choice(INT_FNS if ty0 == 'int' else SEQ_FNS)
        case['sub'] = f
        if ty0 == 'seq':
            ty = 'seq' if f in ('T', 'dbl') else 'int'
    if rng.random() < (0.5 if focus.get('sentinel') else 0.15):
        case['sentinel'] = {'v': jv(rng.choice([None, 0, 1, 2, 3, 4]))}
    n = rng.randint(0, maxlen)
    ops = []
    mut_at = rng.randrange(n) if (mutate and n) else -1
    for i in range(n):
        op, ty2 = gen_op(rng, 'int' if ty == 'any' else ty, i == mut_at)
        ops.append(op)
        ty = ty2
    cut = rng.randint(0, len(ops))
    case['p'], case['e2'] = ops[:cut], ops[cut:]
    case['e1'] = []
    if rng.random() < (0.7 if focus.get('reuse') else 0.45):
        case['e1'] = [gen_op(rng, 'int', rng.random() < 0.2)[0] for _ in range(rng.randint(1, 2))]
    case['src'] = gen_source(rng, ty0, infinite)
    if case['sentinel'] is not None and rng.random() < 0.6:
        plant(rng, case['src'], dec(case['sentinel']['v']))
        if rng.random() < 0.3:
            plant_twin(rng, case['src'], dec(case['sentinel']['v']))
    case['k'] = rng.randint(0, 6)
    m = rng.random()
    case['mode'] = 'take' if m < 0.6 else 'all' if m < 0.8 else gen_first_mode(rng)
    case['srckind'] = gen_srckind(rng)
    case['R'] = rng.choice(R_CHOICES)
    return case


# ---- values EQUAL to, but not identical with, the sentinel (or with STOP) --------------------

def _I(i):
    return {'i': i}


def _F(i):
    return {'f': i}


def _B(b):
    return {'b': b}


def _S(x):
    return {'s': x}


def _T(*xs):
    return {'t': list(xs)}


def _L(*xs):
    return {'l': list(xs)}


def _R(n, v):
    return {'ref': n, 'v': v}


WILD, RAISES, ODD = _R(91, {'o': 1}), _R(92, {'o': 2}), _R(93, {'o': 3})
NOBOOL = _R(94, {'o': 4})
EXOTIC = [WILD, RAISES, ODD]          # equal to everything / == raises / == has no truth value
NOIDENT = 'no-identical-item'
DEFAULT = 'default-sentinel'
# (sentinel, an item that IS the sentinel object, items that are equal to it without being it)
TWIN_SETS = [
    (_I(1), _I(1), [_F(1), _B(True), _R(7, _F(1))]),
    (_I(0), _I(0), [_F(0), _B(False)]),
    (_I(2), _I(2), [_F(2)]),
    (_I(1000), NOIDENT, [_I(1000), _F(1000)]),                 # not in the small-int cache: two objects
    (_R(1, _F(1)), _R(1, _F(1)), [_F(1), _I(1), _B(True), _R(2, _F(1))]),
    (_F(2), NOIDENT, [_F(2), _I(2)]),
    (_B(True), _B(True), [_I(1), _F(1)]),
    (_B(False), _B(False), [_I(0), _F(0)]),
    (_R(1, _S('ab')), _R(1, _S('ab')), [_S('ab'), _R(2, _S('ab'))]),
    (_S('ab'), NOIDENT, [_S('ab')]),
    (_S('a'), _S('a'), []),                                    # one-character strings: one object per value
    (_R(1, _T(_I(1), _I(2))), _R(1, _T(_I(1), _I(2))), [_T(_I(1), _I(2)), _R(2, _T(_I(1), _I(2)))]),
    (_T(), _T(), []),                                          # the empty tuple is one object
    (_R(1, _L(_I(1))), _R(1, _L(_I(1))), [_L(_I(1)), _R(2, _L(_I(1)))]),
    (None, None, []),                                          # sentinel=None
    (DEFAULT, NOIDENT, []),                                    # no sentinel: STOP
    (_R(1, {'o': 0}), _R(1, {'o': 0}), [_R(2, {'o': 0})]),
    (_R(1, {'o': 1}), _R(1, {'o': 1}), [_I(2), _S('ab'), None, _R(2, {'o': 0})]),   # everything equals this sentinel
    (_R(1, {'o': 2}), _R(1, {'o': 2}), [_I(2)]),
]
AGNOSTIC_OPS = [
    {'op': 'map', 'f': 'T'}, {'op': 'map', 'f': 'wrap'}, {'op': 'map', 'f': 'pair'}, {'op': 'filter'},
    {'op': 'filter', 'f': 'one'}, {'op': 'chunked', 'size': 2}, {'op': 'windowed', 'size': 2},
    {'op': 'slice', 'a': [1, None]}, {'op': 'limit', 'n': 4}, {'op': 'unique'}, {'op': 'unique', 'f': 'T'},
    {'op': 'split'}, {'op': 'split', 'sep': {'scalar': {'i': 1}}}, {'op': 'split', 'sep': {'scalar': {'s': 'ab'}}},
    {'op': 'split', 'sep': {'set': [{'i': 1}, None]}}, {'op': 'takewhile', 'f': 'one'}, {'op': 'dropwhile', 'f': 'zero'},
    {'op': 'map', 'f': 'bad3'}, {'op': 'map', 'f': 'inc'}, {'op': 'map', 'f': 'dbl'}, {'op': 'map', 'f': 'lt3'},
    {'op': 'map', 'f': 'mod2'}, {'op': 'map', 'f': 'length'}, {'op': 'map', 'f': 'head'},
    {'op': 'split', 'sep': {'fn': 'zero'}},
]


def twin_sentinel(tw):
    return None if tw[0] == DEFAULT else {'v': tw[0]}


def gen_twin_case(rng, maxlen):
    """a stream in which values EQUAL to the sentinel (or equal to everything) come before —
    or instead of — the sentinel object itself; default and custom sentinels; the item may
    also be the result of the subspec"""
    tw = rng.choice(TWIN_SETS)
    twins = tw[2] + EXOTIC
    items = [jv(rng.choice([2, 3, 4, 5, 6, 7, 1, 0])) for _ in range(rng.randint(0, 5))]
    for _ in range(rng.choice([1, 1, 2, 3])):
        items.insert(rng.randint(0, len(items)), rng.choice(twins))
    if tw[1] != NOIDENT and rng.random() < 0.6:
        items.insert(rng.randint(0, len(items)), tw[1])
    case = {'kind': 'iter', 'sub': 'T', 'sentinel': twin_sentinel(tw), 'twin': True}
    r = rng.random()
    if r < 0.12:
        case['sub'] = rng.choice(['tofloat', 'tobool'])         # the subspec's result equals the sentinel
    elif r < 0.2:
        case['sub'] = rng.choice(BASE_SUBS + ['inc', 'T'])
    ops = []
    for _ in range(rng.randint(0, maxlen - 1)):
        ops.append(rng.choice(AGNOSTIC_OPS) if rng.random() < 0.8 else gen_op(rng, 'int', False)[0])
    cut = rng.randint(0, len(ops))
    case['p'], case['e2'] = ops[:cut], ops[cut:]
    case['e1'] = [rng.choice(AGNOSTIC_OPS)] if rng.random() < 0.3 else []
    case['src'] = {'fin': items, 'tail': None}
    case['k'] = rng.randint(0, 7)
    m = rng.random()
    case['mode'] = 'take' if m < 0.55 else 'all' if m < 0.85 else gen_first_mode(rng)
    case['srckind'] = gen_srckind(rng)
    case['R'] = rng.choice(R_CHOICES)
    return case


def twin_sweep(tier):
    """every sentinel kind x every equal-but-not-identical item x every position of a short stream,
    the sentinel object itself last; bare and with one chained stage (the sentinel is forwarded)"""
    n = 0
    for tw in TWIN_SETS:
        for t in tw[2] + EXOTIC:
            for pos in range(4):
                items = [jv(5), jv(6), jv(7)]
                items.insert(pos, t)
                if tw[1] != NOIDENT:
                    items.append(tw[1])
                    items.append(jv(9))
                for ops in ([], [{'op': 'map', 'f': 'T'}]) if tier != 'quick' else ([[], [{'op': 'map', 'f': 'T'}]][n % 2],):
                    n += 1
                    yield {'kind': 'iter', 'sub': 'T', 'sentinel': twin_sentinel(tw), 'twin': True, 'p': ops, 'e1': [],
                           'e2': [], 'src': {'fin': items, 'tail': None}, 'k': 9,
                           'mode': 'all' if n % 2 else 'take', 'srckind': SRCKINDS[n % 3], 'R': 2}


VALUE_KINDS = [_SKIP, _STOP, NOBOOL, None, _I(0), _I(3), _I(-4), _I(1000), _B(True), _B(False), _F(0), _F(3), _F(-1), _S(''), _S('a'), _S('ab'),
               _T(), _T(_I(1), _I(2)), _L(), _L(_I(3)), _R(1, _F(3)), _R(2, _S('ab')), _R(3, _T(_I(3))), _R(4, _L(_I(1), _I(1))),
               _R(5, {'o': 0}), WILD, RAISES, ODD]


def catalogue_sweep(tier):
    """every catalogue callable on every kind of value (as map / filter / unique key / split separator /
    base subspec), and the three equalities on a stream of numeric twins"""
    n = 0
    fns = ALL_FNS + ['tofloat', 'tobool']
    for f in fns:
        for v in VALUE_KINDS:
            for op in ({'op': 'map', 'f': f}, {'op': 'filter', 'f': f}, {'op': 'unique', 'f': f},
                       {'op': 'split', 'sep': {'fn': f}}, None):
                n += 1
                if tier == 'quick' and op is not None and op['op'] != 'map' and n % 4:
                    continue
                if op is not None and op['op'] == 'split' and f in ('T', 'head'):
                    continue         # T-expressions are callable objects, not separator predicates
                yield {'kind': 'iter', 'sub': f if op is None else 'T', 'sentinel': None, 'twin': True, 'p': [], 'e1': [],
                       'e2': [] if op is None else [op], 'src': {'fin': [v, jv(1)], 'tail': None}, 'k': 3,
                       'mode': 'take', 'srckind': 'gen', 'R': 1}
    # SKIP / STOP produced by a function or lying in the source: a meaning only for Iter(subspec) itself
    for src in ([1, 2, 3, 2, 4], [1, _SKIP, 3, _STOP, 4], [2, 2], [_STOP, 1]):
        items = [x if isinstance(x, dict) else jv(x) for x in src]
        for f in ('skip2', 'stop3'):
            firsts = [{'op': 'map', 'f': f}, {'op': 'filter', 'f': f}, {'op': 'takewhile', 'f': f},
                      {'op': 'dropwhile', 'f': f}, {'op': 'unique', 'f': f}, {'op': 'split', 'sep': {'fn': f}}, None]
            for op in firsts:
                for second in (None, {'op': 'map', 'f': 'T'}, {'op': 'filter'}, {'op': 'unique'}, {'op': 'chunked', 'size': 2},
                               {'op': 'map', 'f': 'stop3'}):
                    for sent in (None, {'v': _SKIP}, {'v': _STOP}) if second is None else (None,):
                        n += 1
                        ops = ([] if op is None else [op]) + ([] if second is None else [second])
                        yield {'kind': 'iter', 'sub': f if op is None else 'T', 'sentinel': sent, 'twin': True, 'p': ops[:1],
                               'e1': [], 'e2': ops[1:], 'src': {'fin': items, 'tail': None}, 'k': 9,
                               'mode': 'all' if n % 2 else 'take', 'srckind': 'gen', 'R': 1}
    # filter(Check(validate=…, default=…)): a Check instance IS the check; failing -> default (SKIP drops, anything else keeps)
    # or CheckError; `res is False` only — a falsy 0 passes; a raising validator fails
    for validate in ('pos', 'mod2', 'inc', 'bad3', 'nobool2', 'zero', 'none'):   # (plain callables: a T-expression is no validator)
        for default in ('SKIP', 'keep', None):
            for src in ([1, 0, 2, -1, 3], [None, 1], [_SKIP, 2, 3], []):
                for pre in ([], [{'op': 'map', 'f': 'skip2'}]):
                    n += 1
                    items = [x if isinstance(x, dict) else jv(x) for x in src]
                    yield {'kind': 'iter', 'sub': 'T', 'sentinel': None, 'twin': True, 'p': pre, 'e1': [],
                           'e2': [{'op': 'filter', 'check': {'validate': validate, 'default': default}}],
                           'src': {'fin': items, 'tail': None}, 'k': 9, 'mode': 'all' if n % 2 else 'take',
                           'srckind': 'gen', 'R': 1}
    # an item that IS the SKIP object reaches a filter whose key is truthy for it: a passing Check returns the item …
    for key in ('one', 'wrap', 'pair'):
        for first in ({'op': 'map', 'f': 'skip2'}, {'op': 'map', 'f': 'stop3'}):
            yield {'kind': 'iter', 'sub': 'T', 'sentinel': None, 'twin': True, 'p': [first], 'e1': [],
                   'e2': [{'op': 'filter', 'f': key}], 'src': {'fin': [jv(x) for x in [1, 2, 3, 2, 4]], 'tail': None},
                   'k': 9, 'mode': 'take', 'srckind': 'gen', 'R': 1}
    mixed = [_I(1), _F(1), _B(True), _I(0), _F(0), _B(False), _S('ab'), _S('ab'), _T(_I(1)), _T(_F(1)), _T(_B(True)),
             _R(1, _F(1)), _R(1, _F(1)), WILD, WILD, _R(5, {'o': 0}), _R(6, {'o': 0}), None]
    for op in ({'op': 'unique'}, {'op': 'unique', 'f': 'pair'}, {'op': 'split', 'sep': {'scalar': _I(1)}},
               {'op': 'split', 'sep': {'scalar': _F(0)}}, {'op': 'split', 'sep': {'scalar': _B(True)}},
               {'op': 'split', 'sep': {'scalar': _S('ab')}}, {'op': 'split'}, {'op': 'split', 'sep': {'set': [_F(1), _S('ab')]}},
               {'op': 'split', 'sep': {'set': [_T(_I(1)), WILD]}}, {'op': 'filter'}, {'op': 'takewhile'},
               {'op': 'dropwhile'}, {'op': 'flatten'}, {'op': 'map', 'f': 'bad3'}):
        for rot in range(0, len(mixed), 3):
            yield {'kind': 'iter', 'sub': 'T', 'sentinel': None, 'twin': True, 'p': [], 'e1': [], 'e2': [op],
                   'src': {'fin': mixed[rot:] + mixed[:rot], 'tail': None}, 'k': 20, 'mode': 'take', 'srckind': 'gen', 'R': 1}


# ---- several live streams -----------------------------------------------------------------------

STATEFUL_OPS = [
    {'op': 'unique'}, {'op': 'unique', 'f': 'mod3'}, {'op': 'chunked', 'size': 2}, {'op': 'chunked', 'size': 3, 'fill': {'v': None}},
    {'op': 'windowed', 'size': 2}, {'op': 'windowed', 'size': 3}, {'op': 'slice', 'a': [1, 6, 2]}, {'op': 'limit', 'n': 3},
    {'op': 'takewhile', 'f': 'lt3'}, {'op': 'dropwhile', 'f': 'lt3'}, {'op': 'split', 'sep': {'scalar': {'i': 2}}},
    {'op': 'split', 'maxsplit': 1}, {'op': 'filter', 'f': 'mod2'}, {'op': 'map', 'f': 'inc'}, {'op': 'map', 'f': 'wrap'},
    {'op': 'flatten'},
]
STREAM_SOURCES = [[1, 1, 2, 1, 3, 2, 4], [5, 5, 1, 6], [0, 1, 2, 3, 4, 5, 6, 7], [2, 2, 2], [3, 0, 3, 0, 1, 2], []]


def interleavings(counts):
    """all orders of counts[i] pulls of stream i"""
    if not any(counts):
        yield []
        return
    for i, c in enumerate(counts):
        if c:
            rest = list(counts)
            rest[i] -= 1
            for tail in interleavings(rest):
                yield [i] + tail


def schedule(order, nstreams, early_open):
    """events for a pull order: a stream is opened right before its first pull, or (early_open) all at the start"""
    evs, opened = [], set()
    if early_open:
        for i in range(nstreams):
            evs.append(['open', i])
            opened.add(i)
    for i in order:
        if i not in opened:
            evs.append(['open', i])
            opened.add(i)
        evs.append(['next', i])
    return evs


def gen_streams_case(rng):
    ty0 = 'int'
    base = {'sub': 'T', 'sentinel': None, 'ops': []}
    r = rng.random()
    if r < 0.15:
        base['sub'] = rng.choice(BASE_SUBS)
    elif r < 0.25:
        base['sentinel'] = {'v': jv(rng.choice([None, 0, 3]))}
    ty = ty0
    for _ in range(rng.choice([0, 1, 1, 2])):
        if rng.random() < 0.7:
            op = rng.choice(STATEFUL_OPS)
            if op['op'] == 'flatten' and ty != 'seq':
                op = {'op': 'unique'}
            ty = 'seq' if op['op'] in ('chunked', 'windowed', 'split') or op.get('f') == 'wrap' else ty
        else:
            op, ty = gen_op(rng, 'int' if ty == 'any' else ty, rng.random() < 0.1)
        base['ops'].append(op)
    derived = []
    for _ in range(rng.choice([0, 1, 1, 2])):
        ops = []
        for _ in range(rng.choice([1, 1, 2])):
            if rng.random() < 0.5:
                op = rng.choice(STATEFUL_OPS)
                if op['op'] == 'flatten' and ty != 'seq':
                    op = {'op': 'unique'}
            else:
                op = gen_op(rng, 'int' if ty == 'any' else ty, rng.random() < 0.1)[0]
            ops.append(op)
        derived.append({'from': rng.randint(0, len(derived)), 'ops': ops})
    nspecs = 1 + len(derived)
    streams = []
    for _ in range(rng.choice([2, 2, 3, 4])):
        src = gen_source(rng, ty0, rng.random() < 0.2) if rng.random() < 0.6 else \
            {'fin': [jv(x) for x in rng.choice(STREAM_SOURCES)], 'tail': None}
        if base['sentinel'] is not None and rng.random() < 0.5:
            plant(rng, src, dec(base['sentinel']['v']))
            if rng.random() < 0.4:
                plant_twin(rng, src, dec(base['sentinel']['v']))
        # most streams come from the SAME spec object
        spec = 0 if rng.random() < 0.5 else rng.randrange(nspecs)
        m = rng.random()
        mode = 'take' if m < 0.8 else 'all' if m < 0.92 else gen_first_mode(rng, False)
        streams.append({'spec': spec, 'src': src, 'mode': mode, 'srckind': gen_srckind(rng)})
    order = []
    for i, sj in enumerate(streams):
        order += [i] * (rng.randint(0, 5) if sj['mode'] == 'take' else 1)
    rng.shuffle(order)
    evs, opened = [], set()
    if rng.random() < 0.3:
        for i, sj in enumerate(streams):
            if sj['mode'] == 'take' and rng.random() < 0.7:
                evs.append(['open', i])
                opened.add(i)
    for i in order:
        if streams[i]['mode'] != 'take':
            evs.append(['run', i])
            continue
        if i not in opened:
            evs.append(['open', i])
            opened.add(i)
        evs.append(['next', i])
    return {'kind': 'streams', 'base': base, 'derived': derived, 'streams': streams, 'events': evs}


def streams_sweep(tier):
    """every stateful stage x (two streams of the same spec object | of a spec and one derived from it |
    of two specs derived from one) x ALL interleavings of a small pull schedule (streams opened lazily / up front)"""
    counts = [(2, 2)] if tier == 'quick' else [(2, 2), (3, 3), (2, 2, 2), (1, 4)]
    srcs = [{'fin': [jv(x) for x in xs], 'tail': None} for xs in STREAM_SOURCES[:3]]
    n = 0
    for op in STATEFUL_OPS:
        if op['op'] == 'flatten':
            continue
        for rel in range(3):
            if rel == 0:
                base, derived, which = [op], [], [0, 0, 0]
            elif rel == 1:
                base, derived, which = [op], [{'from': 0, 'ops': [{'op': 'map', 'f': 'T'}]}], [0, 1, 0]
            else:
                base, derived, which = [], [{'from': 0, 'ops': [op]}, {'from': 1, 'ops': [{'op': 'limit', 'n': 20}]}], [1, 2, 1]
            for cs in counts:
                for order in interleavings(list(cs)):
                    n += 1
                    yield {'kind': 'streams', 'base': {'sub': 'T', 'sentinel': None, 'ops': base}, 'derived': derived,
                           'streams': [{'spec': which[i], 'src': srcs[i], 'mode': 'take', 'srckind': SRCKINDS[(n + i) % 3]}
                                       for i in range(len(cs))],
                           'events': schedule(order, len(cs), n % 2 == 0)}


def gen_first_mode(rng, spec_default=True):
    r = rng.random()
    if r < 0.15:
        return {'first': None, 'nodefault': True}     # first()
    if r < 0.3:
        return {'first': None}                        # first(default=D)
    mode = {'first': rng.choice(['T', 'mod2', 'lt3', 'zero', 'one', 'length', 'bad3'])}
    if spec_default and r > 0.85:
        mode['default'] = rng.choice(['T', 'Val'])
    return mode


SRCKINDS = ['gen', 'obj', 'plain']
R_CHOICES = [0, 1, 2, 3, 5]


def gen_srckind(rng):
    return rng.choices(SRCKINDS, [5, 3, 2])[0]


def plant(rng, src, v):
    """put the stop value `v` into the source, at 1-3 positions chosen uniformly (so that a run
    stops before the end of its source at every position, and more than once per source)"""
    items = src['fin']
    for _ in range(rng.choice([1, 1, 2, 3])):
        items.insert(rng.randint(0, min(len(items), 12)), jv(v))


def plant_twin(rng, src, v):
    """an item that is EQUAL to the stop value `v` without being it (the pipeline must go on), or equal to everything"""
    twins = list(EXOTIC)
    if type(v) is int:
        twins += [_F(v)] * 3 + ([_B(bool(v))] * 3 if v in (0, 1) else [])
    items = src['fin']
    items.insert(rng.randint(0, min(len(items), 12)), rng.choice(twins))


def gen_pipe(rng, ty0, src):
    """one pipeline of a reuse case; most of them end before their source does: at a sentinel
    planted in the source, at STOP from the subspec, or by a limiting stage"""
    pipe = {'sub': 'T', 'sentinel': None, 'ops': []}
    ty = ty0
    r = rng.random()
    if r < 0.4 or (0.6 <= r < 0.7):
        v = rng.choice([None, 0, 1, 2, 3, 4])
        pipe['sentinel'] = {'v': jv(v)}
        plant(rng, src, v)
        if rng.random() < 0.35:
            plant_twin(rng, src, v)
    if ty0 == 'int' and 0.4 <= r < 0.7:
        pipe['sub'] = rng.choice(BASE_SUBS)
    elif r >= 0.9:
        f = rng.choice(INT_FNS if ty0 == 'int' else SEQ_FNS)
        pipe['sub'] = f
        if ty0 == 'seq':
            ty = 'seq' if f in ('T', 'dbl') else 'int'
    for _ in range(rng.choice([0, 0, 1, 1, 2])):
        op, ty = gen_op(rng, 'int' if ty == 'any' else ty, rng.random() < 0.1)
        pipe['ops'].append(op)
    return pipe


def gen_reuse_case(rng):
    ty0 = 'seq' if rng.random() < 0.15 else 'int'
    src = gen_source(rng, ty0, rng.random() < 0.2)
    pipes = [gen_pipe(rng, ty0, src) for _ in range(rng.choice([1, 2, 2]))]
    form = 'dict' if rng.random() < 0.3 else 'calls'
    steps = []
    for _ in range(rng.choice([1, 2, 2, 3, 3, 4])):
        i = rng.randrange(len(pipes))
        m = rng.random()
        if form != 'dict' and m < 0.5:
            steps.append({'pipe': i, 'mode': 'take', 'k': rng.randint(0, 4)})
        elif m < 0.85:
            steps.append({'pipe': i, 'mode': 'all'})
        else:
            steps.append({'pipe': i, 'mode': gen_first_mode(rng, False)})
    return {'kind': 'reuse', 'srckind': gen_srckind(rng), 'src': src, 'R': rng.choice(R_CHOICES),
            'pipes': pipes, 'form': form, 'steps': steps}


DEFAULT_OPS = [
    {'op': 'map', 'f': 'inc'}, {'op': 'filter', 'f': 'mod2'}, {'op': 'takewhile', 'f': 'lt3'},
    {'op': 'dropwhile', 'f': 'lt3'}, {'op': 'slice', 'a': [1, 5, 2]}, {'op': 'limit', 'n': 3},
    {'op': 'chunked', 'size': 2}, {'op': 'windowed', 'size': 2}, {'op': 'split', 'sep': {'scalar': {'i': 2}}},
    {'op': 'unique', 'f': 'T'}, {'op': 'flatten'},
]
ALT_OPS = [
    {'op': 'map', 'f': 'wrap'}, {'op': 'filter', 'f': 'T'}, {'op': 'takewhile', 'f': 'one'},
    {'op': 'dropwhile', 'f': 'mod2'}, {'op': 'slice', 'a': [2]}, {'op': 'limit', 'n': 0},
    {'op': 'chunked', 'size': 3, 'fill': {'v': None}}, {'op': 'windowed', 'size': 3}, {'op': 'split'},
    {'op': 'unique', 'f': 'length'}, {'op': 'map', 'f': 'length'},
]
EXH_SOURCES = [
    {'fin': [jv(x) for x in [1, 2, 0, 3, 2, 4, 5, 0, 1]], 'tail': None},
    {'fin': [jv(x) for x in range(BUDGET)], 'tail': 'Budget'},
    {'fin': [jv(x) for x in [3, None, 1]], 'tail': None},
    {'fin': [jv(x) for x in [[1, 2], [], (3,), [0, 0]]], 'tail': None},
    {'fin': [jv([i % 3, i]) for i in range(BUDGET)], 'tail': 'Budget'},
]


def _sl(*a):
    return {'op': 'slice', 'a': list(a)}


def param_ops():
    """every builder method in every call form, each optional parameter absent and present, at
    values whose effect shows on the PARAM_SOURCES (lengths below / at / above chunk and window
    sizes and slice bounds, consecutive separators, colliding keys)"""
    ops = []
    for size in (1, 2, 3, 4):
        ops.append({'op': 'chunked', 'size': size})
        for fill in (None, 0):
            ops.append({'op': 'chunked', 'size': size, 'fill': {'v': jv(fill)}})
        ops.append({'op': 'windowed', 'size': size})
    seps = [None, {'scalar': jv(0)}, {'scalar': None}, {'set': [None]}, {'set': [jv(0), jv(1)]}, {'set': []},
            {'fn': 'mod2'}, {'fn': 'zero'}, {'fn': 'one'}, {'fn': 'none'}]
    for sep in seps:
        for ms in (None, 1, 2):
            op = {'op': 'split'}
            if sep is not None:
                op['sep'] = sep
            if ms is not None:
                op['maxsplit'] = ms
            ops.append(op)
    ops.append({'op': 'flatten'})
    for f in (None, 'T', 'mod2', 'mod3', 'lt3', 'zero'):
        ops.append({'op': 'unique'} if f is None else {'op': 'unique', 'f': f})
    for kind in ('filter', 'takewhile', 'dropwhile'):
        for f in (None, 'zero', 'one', 'lt3', 'mod2'):
            ops.append({'op': kind} if f is None else {'op': kind, 'f': f})
    ops += [_sl(None), _sl(0), _sl(2), _sl(9), _sl(None, None), _sl(1, None), _sl(None, 3), _sl(1, 3), _sl(3, 1),
            _sl(0, 9), _sl(None, None, None), _sl(None, None, 2), _sl(1, None, 2), _sl(1, 5, 2), _sl(None, 4, 3),
            _sl(0, 9, 1), _sl(2, 2, 1), _sl(2, None, 3)]
    for n in (0, 1, 3, 20, None):
        ops.append({'op': 'limit', 'n': n})
    ops += [{'op': 'map', 'f': 'inc'}, {'op': 'map', 'f': 'wrap'}, {'op': 'map', 'f': 'rng'}]
    return ops


PARAM_SOURCES = [[], [1], [0, 0], [1, 2, 0], [1, 0, 0, 2], [3, 1, 2, 0, 2], [1, 2, 0, None, None, 3, 0, 4],
                 [[1, 2], [], (3,), [], [0, 0]]]
PARAM_FIRSTS = [{'first': None, 'nodefault': True}, {'first': None}, {'first': 'mod2'}, {'first': 'zero'},
                {'first': 'one'}, {'first': 'lt3'}, {'first': None, 'default': 'T'}, {'first': 'zero', 'default': 'T'},
                {'first': 'zero', 'default': 'Val'}, {'first': 'mod2', 'default': 'T'}]


def param_sweep(tier):
    n = 0
    for op in param_ops():
        for si, xs in enumerate(PARAM_SOURCES):
            for k in ((2, 9) if tier == 'quick' else (0, 1, 2, 3, 9)):
                n += 1
                yield {'kind': 'iter', 'sub': 'T', 'sentinel': None, 'p': [], 'e1': [], 'e2': [op],
                       'src': {'fin': [jv(x) for x in xs], 'tail': None}, 'k': k,
                       'mode': 'all' if n % 3 == 0 else 'take', 'srckind': SRCKINDS[n % 3], 'R': n % 3}
    for mode in PARAM_FIRSTS:
        for xs in PARAM_SOURCES:
            for sub in ('T', 'skip_odd'):
                yield {'kind': 'iter', 'sub': sub, 'sentinel': None, 'p': [], 'e1': [], 'e2': [],
                       'src': {'fin': [jv(x) for x in xs], 'tail': None}, 'k': 1, 'mode': mode,
                       'srckind': 'gen', 'R': 2}


def exhaustive(tier):
    yield from param_sweep(tier)
    yield from twin_sweep(tier)
    yield from catalogue_sweep(tier)
    yield from boltons_sweep(tier)
    yield from args_sweep(tier)
    yield from events_sweep(tier)
    yield from streams_sweep(tier)
    if tier == 'quick':
        plan = [(0, EXH_SOURCES[:2], [0, 1, 2, 3, 4, 5, 6], DEFAULT_OPS),
                (1, EXH_SOURCES[:4], [0, 1, 2, 3, 4, 5, 6], DEFAULT_OPS),
                (2, EXH_SOURCES[:2], [0, 2, 5], DEFAULT_OPS)]
    else:
        plan = [(0, EXH_SOURCES, range(7), DEFAULT_OPS), (1, EXH_SOURCES, range(7), DEFAULT_OPS + ALT_OPS),
                (2, EXH_SOURCES, range(7), DEFAULT_OPS), (3, EXH_SOURCES, range(7), DEFAULT_OPS),
                (2, EXH_SOURCES[:2], [1, 4], ALT_OPS), (4, EXH_SOURCES[:1], [2, 6], DEFAULT_OPS)]
    for L, sources, ks, ops in plan:
        for seq in itertools.product(ops, repeat=L):
            for si, src in enumerate(sources):
                for k in ks:
                    cut = (len(seq) + k + si) % (len(seq) + 1)
                    yield {'kind': 'iter', 'sub': 'T', 'sentinel': None, 'p': list(seq[:cut]),
                           'e1': [DEFAULT_OPS[(k + si) % len(DEFAULT_OPS)]] if (k + si) % 3 == 0 else [],
                           'e2': list(seq[cut:]), 'src': src, 'k': k, 'mode': 'take'}


def gen_call(rng):
    r = rng.random()
    names = ['a', 'b', 'c']
    if r < 0.45:
        return {'op': 'C', 'a': [jv(rng.choice([0, 1, 5, None])) for _ in range(rng.randint(0, 2))],
                'kw': [[k, jv(rng.choice([0, 1, 7]))] for k in rng.sample(names, rng.randint(0, 2))]}
    if r < 0.8:
        return {'op': 'S', 'a': [rng.choice(['T', 'inc', 'wrap', 'neg']) for _ in range(rng.randint(0, 2))],
                'kw': [[k, rng.choice(['T', 'inc', 'dbl'])] for k in rng.sample(names, rng.randint(0, 2))]}
    c = {'op': '*'}
    if rng.random() < 0.7:
        c['args'] = rng.choice(['wrap', 'pair', 'rng', 'inc'])
    if rng.random() < 0.5 or 'args' not in c:
        c['kwargs'] = rng.choice(['kwd', 'kwb'])
    return c


def gen_invoke_case(rng):
    calls = [gen_call(rng) for _ in range(rng.randint(0, 4))]
    cut = rng.randint(0, len(calls))
    return {'kind': 'invoke', 'p': calls[:cut], 'e2': calls[cut:],
            'e1': [gen_call(rng) for _ in range(rng.randint(0, 2))],
            'target': jv(rng.choice([0, 1, 2, 4, 7, None]))}


def generate(rng, tier, scale, **focus):
    n = (1600 if tier == 'quick' else 30000) * scale
    maxlen = 3 if tier == 'quick' else 4
    for i in range(n):
        if focus.get('twins') and i % 2 == 0:
            yield gen_twin_case(rng, maxlen)
        elif focus.get('streams') and i % 2 == 1:
            yield gen_streams_case(rng)
        elif i % 8 == 7:
            yield gen_invoke_case(rng)
        elif i % 8 in (2, 5):
            yield gen_reuse_case(rng)
        elif i % 16 == 3:
            yield gen_twin_case(rng, maxlen)
        elif i % 16 in (6, 11):
            yield gen_streams_case(rng)
        elif i % 16 == 14:
            yield gen_boltons_case(rng)
        elif i % 16 == 9 or (focus.get('events') and i % 4 == 0):
            yield gen_events_case(rng)
        else:
            yield gen_iter_case(rng, maxlen, focus)
    if not focus:
        yield from exhaustive(tier)


def corpus():
    p = os.path.join(os.path.dirname(os.path.dirname(os.path.dirname(os.path.abspath(__file__)))),
                     'corpus', 'C17.jsonl')
    out = []
    if os.path.exists(p):
        for line in open(p):
            if line.strip():
                out.append(json.loads(line))
    return out


def key(case):
    return {k: case.get(k) for k in ('kind', 'sub', 'sentinel', 'p', 'e1', 'e2', 'src', 'k', 'mode', 'target',
                                     'srckind', 'R', 'pipes', 'form', 'steps', 'base', 'derived', 'streams',
                                     'events', 'op', 'subclass', 'pre', 'post', 'ops', 'n')}


def _raised(o):
    return isinstance(o, dict) and (isinstance(o.get('fin'), dict) or isinstance(o.get('first'), dict)
                                    and 'raised' in o['first'] or 'raised' in o)


def nontrivial(case, verdict):
    impl = case.get('impl') or {}
    if case.get('kind') == 'streams':
        live = {i for ev, i in case['events'] if ev == 'open'}
        return len(live) >= 2 or any(_raised(o) or isinstance(o.get('end'), dict) or isinstance(o.get('open'), dict)
                                     for o in impl.get('events', []))
    if case.get('kind') == 'boltons':
        return len(impl.get('events', [])) >= 2 or isinstance(impl.get('init'), dict)
    if case.get('kind') == 'args':
        return True
    if case.get('kind') == 'events':
        return any('raised' in o for o in impl.get('events', [])) or len(case['ops']) >= 2
    if case.get('twin'):
        return True
    if case.get('kind') == 'reuse':
        return len(case['steps']) >= 2 or any(p['ops'] for p in case['pipes']) or \
            any(_raised(o) for o in impl.get('steps', []))
    if len(case['p']) + len(case['e2']) >= 2:
        return True
    if case['e1'] and (case['p'] or case['e2']):
        return True
    return any(_raised(impl.get(k)) for k in ('main', 'reused', 'before'))


def focus(disagreements, facts_changed):
    f = {}
    if 'C17Facts' in (facts_changed or []):
        f['sentinel'] = True
        f['reuse'] = True
        f['twins'] = True
        f['streams'] = True
        f['events'] = True
    for c, _ in disagreements or []:
        if c.get('kind') == 'streams':
            f['streams'] = True
            continue
        if c.get('twin'):
            f['twins'] = True
        if c.get('kind') == 'reuse':
            continue
        if c.get('sentinel') is not None:
            f['sentinel'] = True
        if c.get('e1'):
            f['reuse'] = True
    return f


def focus_changed(changed_funcs):
    """change-directed search (a function these cases execute differs from the baseline): random cases only —
    the exhaustive sweeps ran already — and, when glom/streaming.py itself changed, half of them identity twins
    and interleaved streams"""
    f = {'directed': True}
    if any(k.startswith('glom/streaming.py') for k in changed_funcs or []):
        f['twins'] = True
        f['streams'] = True
        f['events'] = True
        f['sentinel'] = True
        f['reuse'] = True
    return f


def shrink_reuse(case):
    base = {k: v for k, v in case.items() if not k.startswith('impl')}
    steps, pipes = case['steps'], case['pipes']
    for i in range(len(steps)):
        if len(steps) > 1:
            yield dict(base, steps=steps[:i] + steps[i + 1:])
    for pi, p in enumerate(pipes):
        for i in range(len(p['ops'])):
            q = dict(p, ops=p['ops'][:i] + p['ops'][i + 1:])
            yield dict(base, pipes=pipes[:pi] + [q] + pipes[pi + 1:])
        if p['sub'] != 'T':
            yield dict(base, pipes=pipes[:pi] + [dict(p, sub='T')] + pipes[pi + 1:])
    items = case['src']['fin']
    for i in range(len(items)):
        yield dict(base, src=dict(case['src'], fin=items[:i] + items[i + 1:]))
    if items:
        yield dict(base, src=dict(case['src'], fin=items[:len(items) // 2]))
    for i, st in enumerate(steps):
        if st['mode'] == 'take' and st['k'] > 0:
            yield dict(base, steps=steps[:i] + [dict(st, k=st['k'] - 1)] + steps[i + 1:])
        if st['mode'] != 'all':
            yield dict(base, steps=steps[:i] + [{'pipe': st['pipe'], 'mode': 'all'}] + steps[i + 1:])
    if case.get('R', R_DEFAULT) > 1:
        yield dict(base, R=1)
    if case['form'] == 'dict':
        yield dict(base, form='calls')
    if case.get('srckind', 'gen') != 'gen':
        yield dict(base, srckind='gen')


def shrink_streams(case):
    base = {k: v for k, v in case.items() if not k.startswith('impl')}
    evs, streams = case['events'], case['streams']
    for i in range(len(evs) - 1, -1, -1):
        if evs[i][0] != 'open':
            yield dict(base, events=evs[:i] + evs[i + 1:])
    used = {i for _, i in evs}
    for i in range(len(streams)):
        if i in used:
            yield dict(base, events=[e for e in evs if e[1] != i])
    ops = case['base']['ops']
    for i in range(len(ops)):
        yield dict(base, base=dict(case['base'], ops=ops[:i] + ops[i + 1:]))
    for di, d in enumerate(case['derived']):
        for i in range(len(d['ops'])):
            if len(d['ops']) > 1:
                nd = dict(d, ops=d['ops'][:i] + d['ops'][i + 1:])
                yield dict(base, derived=case['derived'][:di] + [nd] + case['derived'][di + 1:])
    for si, sj in enumerate(streams):
        items = sj['src']['fin']
        for i in range(len(items)):
            ns = dict(sj, src=dict(sj['src'], fin=items[:i] + items[i + 1:]))
            yield dict(base, streams=streams[:si] + [ns] + streams[si + 1:])
        if sj.get('srckind', 'gen') != 'gen':
            yield dict(base, streams=streams[:si] + [dict(sj, srckind='gen')] + streams[si + 1:])
        if sj['spec'] != 0:
            yield dict(base, streams=streams[:si] + [dict(sj, spec=0)] + streams[si + 1:])
    if case['base']['sub'] != 'T':
        yield dict(base, base=dict(case['base'], sub='T'))


def shrink(case):
    if case.get('kind') == 'events':
        base = {k: v for k, v in case.items() if not k.startswith('impl')}
        for i in range(len(case['ops'])):
            yield dict(base, ops=case['ops'][:i] + case['ops'][i + 1:])
        items = case['src']['fin']
        for i in range(len(items)):
            yield dict(base, src=dict(case['src'], fin=items[:i] + items[i + 1:]), n=case['n'] - 1)
        if case['src'].get('tail'):
            yield dict(base, src=dict(case['src'], tail=None))
        if case['sub'] != 'T':
            yield dict(base, sub='T')
        return
    if case.get('kind') == 'args':
        base = {k: v for k, v in case.items() if not k.startswith('impl')}
        if case['pre']:
            yield dict(base, pre=[])
        if case['post']:
            yield dict(base, post=[])
        items = case['src']['fin']
        for i in range(len(items)):
            yield dict(base, src=dict(case['src'], fin=items[:i] + items[i + 1:]))
        if case['src'].get('tail'):
            yield dict(base, src=dict(case['src'], tail=None))
        return
    if case.get('kind') == 'boltons':
        base = {k: v for k, v in case.items() if not k.startswith('impl')}
        items = case['src']['fin']
        for i in range(len(items)):
            yield dict(base, src=dict(case['src'], fin=items[:i] + items[i + 1:]))
        if case['k'] > 0:
            yield dict(base, k=case['k'] - 1)
        return
    if case.get('kind') == 'reuse':
        yield from shrink_reuse(case)
        return
    if case.get('kind') == 'streams':
        yield from shrink_streams(case)
        return
    base = {k: v for k, v in case.items() if not k.startswith('impl')}
    for part in ('e1', 'p', 'e2'):
        ops = case[part]
        for i in range(len(ops)):
            c = dict(base)
            c[part] = ops[:i] + ops[i + 1:]
            yield c
    if case.get('kind') == 'invoke':
        return
    items = case['src']['fin']
    if len(items) > 0:
        for i in range(len(items)):
            c = dict(base)
            c['src'] = dict(case['src'], fin=items[:i] + items[i + 1:])
            yield c
        c = dict(base)
        c['src'] = dict(case['src'], fin=items[:len(items) // 2])
        yield c
    if case['k'] > 0:
        c = dict(base)
        c['k'] = case['k'] - 1
        yield c
    if case['mode'] != 'take':
        c = dict(base)
        c['mode'] = 'take'
        yield c
    if case.get('sentinel') is not None:
        c = dict(base)
        c['sentinel'] = None
        yield c
    if case.get('R', R_DEFAULT) > 1:
        yield dict(base, R=1)
    if case.get('srckind', 'gen') != 'gen':
        yield dict(base, srckind='gen')
