"""C12 — delete removes exactly the addressed element, or nothing: generators, implementation runner."""
import json

from harness import pyobjs
from harness.props import mutobjs as M

PROP = 'C12'
LEAN_MODULES = ['Glom.Props.C12']
FACT_FILES = ['TFacts', 'ExcFacts', 'RegFacts', 'MutFacts', 'c11']
READY = True
MANIFEST = dict(
    text="Lean 4 theorems about an executable model of Delete.__init__/glomit/_del_one (driven by the branch table and caught exception classes EXTRACTED from _del_one's AST), _apply_for_each and the `delete` registry op on a heap with object identity: for every heap, target, wildcard-free path of any length in every addressing style and ignore_missing in {False, True} the model's outcome is Python's `del` on the addressed key / index / attribute (same object returned, later list items shift, every other cell untouched), a missing final element is a PathDeleteError and a missing parent a PathAccessError with the heap unchanged, both silently ignored under ignore_missing, any other deletion fault leaves the heap unchanged; the outcome of a fault is exact per kind of step: a plain segment's handler failure is a PathDeleteError and silent under ignore_missing, T[..] / T.attr raising anything but a lookup error is raised also under ignore_missing [c12_fault_unchanged, delExactOK in c12_facts_wf]; a wildcard deletion that fails half-way leaves exactly the heap of the deletions before it [c12_star, c12_star_model_checks]; the read-back step of a chain sees exactly what Python's del leaves, an S-rooted Delete in a chain cannot unbind variables of outer frames [c12_read_checks]; wildcard paths delete at every match in order — an entry that occurs twice among the matches is processed twice (facts: one evaluation of the rest of the path per entry) —; delete after assign through the same path is the delete of the original element where there was one and restores the original heap exactly where the assignment created it [c12_delete_after_assign_partial]; the `delete` handler table is a parameter [c12_facts_wf_ureg]; the path a Delete keeps is the path as it is read (S.a / Path(S,'a') name the scope variable a) [c12_facts_s_first, c12_refines_spec]. `c12_missing_final` hinges on a facts obligation (`[` catches KeyError and IndexError, `.` AttributeError, plain segments Exception) discharged by `decide` on the tables regenerated from /repo; model tied to the code by differential execution (full heap snapshot, exception class chain).",
    note="trusted: Lean kernel + {propext, Classical.choice, Quot.sound}; extractor (extract/facts/c11.py); harness/driver; CPython's delitem/delattr on dict/list/tuple/set/plain instances and the fault classes of harness/props/mutobjs.py as modelled in Glom/Model/C11.lean (validated by the correspondence only); default registry (C13 covers registration); `**` paths outside the model.",
    technique='Lean 4 refinement proof (Delete model = plain del on a heap, frame lemma) + facts obligation by decide over the extracted except-clauses + differential correspondence',
    ref='DESIGN.md §3 C12')
RULE = ('type-directed: targets as for C11 (dict/OrderedDict/dict subclass/list/tuple/set/attribute objects '
        'incl. read-only-property and raising-__delattr__/__delitem__ classes; sharing, cycles); a path is '
        'derived by walking the target (length 1-5 quick / 1-8 thorough) and ends in an existing element '
        '(success), an absent key / out-of-range index / absent attribute (missing final), or stops existing '
        'earlier (missing parent); spelled as dotted text, Path(...), T[..]/T.attr, mixtures, S-rooted (first step as '
        'S[name], S.name or Path(S, name): the scope variable), with 0-2 `*` wildcards; ignore_missing in {False, True}; keys / attributes also named like op characters '
        'and wildcards (x, X, P, *, **); chain mode (Delete, peek, read-back of the path or a prefix: 25% of the T-rooted, 70% of the S-rooted cases); 12% of the cases apply the SAME Delete object first to 1-2 other '
        'targets (histories); 8% register 1-3 user classes on a private Glommer with explicit get / assign / delete handlers (every handler '
        'kind, False, a raising handler); 6% are regular nested targets under one `*` per level, two thirds of them with the SAME leaf / '
        'sub-container matched more than once; a one-edit mutation stream plants a bad segment '
        '/ wrong access kind at every position. non-trivial = path length >= 2 or anything but a plain '
        'success; distinct = distinct (heap, target, scope, root, spelling, ignore_missing)')
TRUSTED = ['deletion primitives of CPython and the fault classes of harness/props/mutobjs.py as modelled in '
           'lean/Glom/Model/C11.lean (per-class flags computed by introspection)',
           'segments stay in the int() subset [+-]?[0-9]+']
ASSUMPTIONS = ['registry lookup = first registered class of the MRO (C13 covers the registry); the prescription uses '
               'kind-fixed tables for the builtin types (c12_facts_natural)', 'PATH_STAR = True',
               '`**` paths: generated, checked for same-object only (enumeration order of `**` is C14)',
               'READING (F12-1): "missing" = the deletion raised KeyError / IndexError / AttributeError (Python cannot tell an '
               'absent element from an undeletable one: a read-only property, a class attribute); Counter-like __delitem__ '
               'semantics are Python\'s',
               'READING (F12-2): through a plain segment the failure of the registered delete handler — any Exception — means '
               '"cannot be deleted": PathDeleteError, silently ignored under ignore_missing; through T[..] / T.attr only the '
               'lookup errors are "missing", any other exception (RuntimeError, TypeError) is raised as it is, also under '
               'ignore_missing; a type without handler and a path the constructor rejects always raise [swallowed, delExactOK]',
               'READING (F12-3): Delete(S[name]) unbinds only in the frame the Delete itself runs under: as the whole spec that '
               'is the root frame (nothing can look into it afterwards); as a step of a chain the variables it sees (given with '
               'scope=, or bound by earlier steps) live in OUTER frames: PathDeleteError(KeyError), nothing under ignore_missing, '
               'the variable stays readable — the statement is about targets [scope_outer, c12_read_checks]',
               'READING (F12-4): side effects of the target\'s own reads are the target\'s (as C11); not generated',
               'int(): as C11 (intSafe)']


# Chain mode: the Delete is a step of a chain whose later step reads the path back (the only way to see
# what an S-rooted Delete did to the scope).  False: not generated.
CHAIN_MODE = True

# User types: classes registered on a private Glommer with explicit get / assign / delete handlers
# (every handler kind, False, a raising handler of the user's own).  False: not generated.
USER_REGISTRATIONS = True


def one_case(rng, tier, classes, cflags, force=None):
    force = force or {}
    if rng.random() < force.get('deep_star_p', 0.06):
        # (two thirds of them with the SAME leaf / sub-container among the matches more than once:
        # `delete([row, row], '*.0')` deletes two items of `row`)
        heap, root, steps = M.gen_star_case(rng, present=rng.random() < 0.8,
                                            share_p=rng.choice([0, 0.35, 0.6]))
        style = M.choose_style(rng, steps, False)
        return {'classes': classes, 'cflags': [f for f in cflags if f[0] != 'Scope'], 'heap': heap,
                'target': root, 'scope': None, 'root': 'T', 'spelling': M.spell(rng, steps, style),
                'style': style, 'ignore_missing': rng.random() < 0.4, 'api': rng.choice(['delete', 'Delete'])}
    maxlen = 5 if tier == 'quick' else 8
    heap, root = M.gen_target(rng, rng.choice([2, 3, 4]))
    # user registrations on a private Glommer (T-rooted, no wildcards: `*` enumerates through the
    # registered `keys` / `get` / `iterate` handlers, which is C14's subject)
    ureg = M.gen_ureg(rng) if USER_REGISTRATIONS and rng.random() < force.get('ureg_p', 0.08) else None
    sroot = force.get('sroot', rng.random() < 0.1) and not ureg
    scope = None
    start = root
    if sroot or (rng.random() < 0.05 and not ureg):
        scope = M.make_scope(rng, heap, root)
    if sroot:
        start = scope
    mode = rng.random()
    absent = 0
    if mode < 0.15:
        absent = rng.choice([1, 1, 2])            # missing parent
    steps = M.gen_dest(rng, heap, start, maxlen, want_present=rng.random() < force.get('present_p', 0.65),
                       absent_tail=absent, star_p=0 if ureg else force.get('star_p', 0.15))
    if sroot and steps and steps[0][0] != 'key':
        steps[0] = ('key', {'s': 'd'})
    if rng.random() < force.get('mut_p', 0.2):
        steps = M.mutate_dest(rng, steps)
    style = force.get('style') or M.choose_style(rng, steps, sroot)
    if style == 'text' and not all(k in ('star', 'starstar') or (k != 'raw' and M.text_ok(k, key)) for k, key in steps):
        style = 't'
    sp = M.spell(rng, steps, style)
    if sroot:
        sp = M.s_first(rng, sp)        # S.name / Path(S, name) / S[name]: the scope variable `name`
    if scope is None:
        cflags = [f for f in cflags if f[0] != 'Scope']
    # chain mode: `(Delete(path), <peek>, readPath)` — a later step reads the path (or a prefix) back; an
    # S-rooted Delete in a chain runs under a frame of its own: the variables it sees live in OUTER maps
    # of the scope (`scope_outer`), `del` on the ChainMap reaches the first map only
    rb = M.gen_readback(rng, steps, style, force.get('chain_p', 0.7 if sroot else 0.25), sroot) \
        if CHAIN_MODE and not ureg else None
    if rb and scope is not None:
        cflags = [[n, fl + ['scope_outer']] if n == 'Scope' else [n, fl] for n, fl in cflags]
    return {'classes': classes, 'cflags': cflags, 'heap': heap, 'target': root, 'scope': scope,
            'root': 'S' if sroot else 'T', 'spelling': sp, 'style': style, 'readback': rb,
            'ignore_missing': force.get('ignore', rng.random() < 0.4),
            'warmup': rng.choice([1, 2]) if rng.random() < force.get('warm_p', 0.12) and not ureg else 0,
            'api': rng.choice(['delete', 'Delete']), 'ureg': M.ureg_tables(ureg) if ureg else None,
            'ureg_src': ureg}


def generate(rng, tier, scale, **focus):
    n = (4000 if tier == 'quick' else 100000) * scale
    classes, cflags = M.class_table(), M.class_flags()
    for _ in range(n):
        yield one_case(rng, tier, classes, cflags, focus)
    if tier == 'thorough' and not focus:
        yield from exhaustive(classes, cflags)


def exhaustive(classes, cflags):
    """every path of length <= 3 over a small alphabet, as text and as T[...], x ignore_missing"""
    import itertools
    import random
    rng = random.Random(4243)
    cflags = [f for f in cflags if f[0] != 'Scope']
    fixed = []
    while len(fixed) < 25:
        heap, root = M.gen_target(rng, 3)
        if heap and isinstance(root, dict) and 'r' in root:
            fixed.append((heap, root))
    alpha = ['a', 'b', '0', 'zz']
    for heap, root in fixed:
        for L in range(1, 4):
            for segs in itertools.product(alpha, repeat=L):
                for ignore in (False, True):
                    for style in ('text', 't'):
                        if style == 'text':
                            sp = {'text': '.'.join(segs)}
                        else:
                            sp = {'parts': [{'t': [['[', {'s': s}] for s in segs]}]}
                        yield {'classes': classes, 'cflags': cflags, 'heap': heap, 'target': root,
                               'scope': None, 'root': 'T', 'spelling': sp, 'style': style,
                               'ignore_missing': ignore, 'api': 'delete'}


def corpus():
    return M.load_corpus('C12')


def run_impl(case):
    import glom
    from glom import Delete, Path
    objs, dv = M.decode(case['heap'])
    enc = M.Encoder(objs, case['heap'])
    target = dv(case['target'])
    out = dict(case)
    for k in ('scope', 'ureg', 'ureg_src', 'warmup', 'readback'):      # (cases stored before these fields existed)
        out.setdefault(k, None)
    rb = case.get('readback')
    kwargs = {}
    frame_obj = caller = caller_before = None
    if case.get('scope') is not None:
        frame_obj = dv(case['scope'])
        if rb:
            # chain mode: the Scope cell stands for the scope FRAME a later step sees; the mapping handed
            # to glom is a dict of its own (as in C11)
            caller = dict(frame_obj)
            caller_before = list(caller.items())
            kwargs['scope'] = caller
        else:
            kwargs['scope'] = frame_obj
    default_map = glom.core._DEFAULT_SCOPE.maps[0]
    default_keys = set(default_map)
    G = M.Runner(case.get('ureg_src'))
    peek = None
    if rb:
        M.Peek.baseline()
        peek = M.Peek(own=(caller or {}))
    read = None
    read_val = None
    try:
        path = M.build_path(case, dv)
        if case.get('api') == 'delete' and not kwargs and not case.get('warmup') and not G.ureg and not rb:
            res = glom.delete(target, path, ignore_missing=case['ignore_missing'])
        else:
            spec = Delete(path, ignore_missing=case['ignore_missing'])
            M.warm_up(case, spec)            # the same spec object, used on other targets before
            if rb:
                rpath = M.build_path({'spelling': rb['spelling'], 'root': case.get('root'),
                                      'style': case.get('style')}, dv)
                if isinstance(rpath, str):
                    rpath = Path.from_text(rpath)
                read_val = G.glom(target, (spec, peek, rpath), **kwargs)
                res = peek.got
            else:
                res = G.glom(target, spec, **kwargs)
    except Exception as e:
        if peek is not None and peek.seen:
            a = enc.ids.get(id(peek.got))
            r = {'ok': {'r': a} if a is not None and enc.is_container(peek.got)
                 else pyobjs.enc_val(peek.got, lambda x: None)}
            read = M.observe_exc(e)
        else:
            r = M.observe_exc(e)
            read = 'notrun' if rb else None
    else:
        a = enc.ids.get(id(res))
        r = {'ok': {'r': a} if a is not None and enc.is_container(res) else pyobjs.enc_val(res, lambda x: None)}
        if rb:
            read = 'pending'
    for k in set(default_map) - default_keys:
        del default_map[k]
    frame_seen = bool(peek is not None and peek.seen and frame_obj is not None)
    if frame_seen:
        frame_obj.clear()
        for k, x in peek.vars:
            frame_obj[k] = x
    heap = enc.snapshot()
    if read == 'pending':
        nstars = sum(1 for op, _ in M.steps_of_spelling(rb['spelling']) if op in ('x', 'X'))
        read = {'ok': M.enc_nest(read_val, nstars, enc)}
    scope_kept = True
    if caller is not None:
        now = list(caller.items())
        scope_kept = (len(now) == len(caller_before) and
                      all(k1 is k0 or (type(k1) is type(k0) and k1 == k0) for (k0, _), (k1, _) in zip(caller_before, now))
                      and all(x1 is x0 for (_, x0), (_, x1) in zip(caller_before, now)))
    out['impl'] = {'res': r, 'heap': heap, 'calls': 0, 'hidden': enc.hidden(), 'read': read,
                   'frame_seen': frame_seen, 'scope_kept': scope_kept}
    return out


def key(case):
    return {k: case.get(k) for k in ('heap', 'target', 'scope', 'root', 'spelling', 'style', 'ignore_missing', 'warmup', 'ureg_src', 'readback')}


def nontrivial(case, verdict):
    impl = case.get('impl') or {}
    return (len(M.steps_of_spelling(case['spelling'])) >= 2 or 'err' in impl.get('res', {})
            or not str(verdict.get('ref', '')).startswith('del'))


def shrink(case):
    yield from M.shrink_common(case)
    base = {k: v for k, v in case.items() if not k.startswith('impl')}
    if case.get('scope') is not None and case.get('root') != 'S':
        c = dict(base); c['scope'] = None
        yield c
    if case.get('readback'):
        c = dict(base); c['readback'] = None
        c['cflags'] = [[n, [f for f in fl if f != 'scope_outer']] for n, fl in case['cflags']]
        yield c
    ur = case.get('ureg_src')
    if ur:
        for i in range(len(ur)):
            u2 = ur[:i] + ur[i + 1:]
            c = dict(base); c['ureg_src'] = u2 or None; c['ureg'] = M.ureg_tables(u2) if u2 else None
            yield c


def focus(disagreements, facts_changed):
    f = {}
    if any(c.get('root') == 'S' for c, _ in disagreements):
        f['sroot'] = True
    if disagreements and all(c.get('ignore_missing') for c, _ in disagreements):
        f['ignore'] = True
    if any(c.get('style') == 't' for c, _ in disagreements) or 'MutFacts' in (facts_changed or []):
        f['style'] = 't'
        f['present_p'] = 0.2
    if any('x' in json.dumps(c['spelling']) for c, _ in disagreements):
        f['star_p'] = 0.6
        f['deep_star_p'] = 0.3
    return f
