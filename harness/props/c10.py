"""C10 — M / And / Or / Not / Switch / Check decide like the boolean expressions denoted.

Generators, implementation runner, codecs (shared with C09), shrinker.
"""
import itertools
import json
import os
import random

PROP = 'C10'
LEAN_MODULES = ['Glom.Props.C10']
FACT_FILES = ['c10', 'ExcFacts', 'RegFacts']
READY = True
MANIFEST = dict(
    text="Lean 4 theorems, for every spec tree of any depth and every target: the code-shaped model of "
         "_MExpr/_MSubspec/_MType/_Bool/And/Or/Not/Switch/Check.glomit (and the & | ~ overloads) refines a "
         "three-valued boolean denotation (pass with result / reject / fault) in value, in the class of the "
         "rejection and in the exact sequence of user callables that ran: M comparisons pass iff Python's "
         "comparison is true; And = all with the last result; Or = first passing child, later children not "
         "evaluated; Not inverts; Switch runs only the value spec of the first passing case; defaults go "
         "through arg_val; operator-built trees equal their constructor forms; every rejection raised by "
         "these combinators is a MatchError (per-run facts obligation: the class named by every `raise` in "
         "their glomit methods has MatchError in the MRO regenerated from /repo, every `except` names "
         "GlomError); Check = its five conditions with CheckError or default; on calm tree/target pairs (no "
         "comparison can raise) a tree passes iff the boolean expression it denotes is true and is otherwise "
         "rejected (c10_boolean_reading); a class is a type atom whatever its metaclass (never called); a "
         "spec that went through copy.copy / copy.deepcopy / pickle decides like the original (facts "
         "obligation on the identity-compared markers). The model is tied to the code "
         "by differential execution through the compiled Lean driver with the same checker the theorem is "
         "about.",
    note="trusted: Lean kernel + {propext, Classical.choice, Quot.sound}; extractor (raise/except sites, "
         "M overload/dispatch tables, & | ~ overload table); harness/driver; Python's ==, ordering, truthiness, "
         "isinstance and item access on tree values as modelled in Glom/Model/C10Val.lean (validated on every "
         "generated value pair, not proved); user callables from a finite catalogue; evaluation inside "
         "Match(...) (mode-independent trees are also run bare); scope effects of Switch's chain_child "
         "belong to C07. Copies (copy / deepcopy / pickle) of specs "
         "with an `M` operand are inside the correspondence since the repair 8acd988 (F43).",
    technique='Lean 4 refinement proof (code-shaped evaluator = 3-valued boolean denotation incl. call log) '
              '+ facts obligation by decide + differential correspondence',
    ref='DESIGN.md §3 C10, §6.4')
RULE = ('trees to depth 4 over And/Or/Not/Switch (with and without default=) whose leaves are atoms bound to '
        'the four slots of a 4-tuple target: M(T[i]) op c, an instrumented predicate on slot i, a T access '
        'that exists only for some slot values, M op c on the whole target, plus constant leaves (type, '
        'literal, M, always/never/raising predicates); for each tree the targets are ENUMERATED so that '
        'every truth assignment of its slot atoms occurs (2^k, k<=4) plus one faulting value per slot; the '
        'same trees are also built with & | ~ (including reflected and unsupported operand pairs); all 32 '
        'Check keyword combinations x argument variants x targets; M op c for all ordered pairs of a value '
        'pool x 6 operators (thorough) / a sample (quick); constructor errors; every tree is ALSO evaluated '
        'as ONE spec object on all its targets - consecutive glom calls, and one call over the list of '
        'targets - each call judged against its own target (state kept in a spec object shows up); '
        'operator trees put constructor-built And / Or with default= on either side; PROGRAMS over spec objects: '
        'sub-trees are bound to names, evaluated on some targets, then used as operands of & | ~ (extended, '
        'shared by several trees, negated), the results evaluated and extended again, the operands evaluated '
        'again at the end - every evaluation judged against the constructor-built tree its object denotes; '
        'TYPE-ATOM trees: And / Or / Not / Switch over type atoms drawn from concrete classes, classes whose '
        'metaclass is not `type` (18 stdlib ABCs, Enum, IntEnum, custom metaclass, user ABC) and two '
        'instance-dependent types x one value per class (with / without the attribute), also as one object on all '
        'of them; COPIES: a fraction of all non-program cases uses copy.copy / copy.deepcopy / pickle round trip of '
        'the spec object; callables (atoms and Check validators) as named functions, callable instances and '
        'functools.partial objects; Check sequence arguments (type / instance_of / one_of / validate) as list AND '
        'tuple, kept as written; defaults as plain values, Val, T, and list / tuple displays holding T; targets '
        'include instances of user subclasses of the builtin containers and of str; `result is target` observed. '
        'non-trivial = the tree has a '
        'combinator with >= 2 children, or a Check with >= 1 condition, or the outcome is not a plain pass; '
        'distinct = distinct (spec or operator expression, target)')
TRUSTED = ["Python's ==, <, <=, >, >=, bool(), isinstance, type() and item access on the generated tree "
           "values, as modelled in lean/Glom/Model/C10Val.lean (validated by the correspondence only)",
           'user callables come from the finite catalogue PREDS (Python) = predApply (Lean)',
           'floats are dyadic k/2; no NaN']
ASSUMPTIONS = ['specs are evaluated with MODE = _glom_match (glom(target, Match(spec))); trees without '
               'mode-dependent leaves are additionally run bare and must give the same observation',
               'default registry; scope side effects (chain_child) are not observed here (C07)']


# ------------------------------------------------------------------ values
class Obj:
    """opaque object: truthy, hashable, unorderable, equal only to itself"""
    _cache = {}

    def __new__(cls, tag):
        if tag not in cls._cache:
            o = object.__new__(cls)
            o.tag = tag
            cls._cache[tag] = o
        return cls._cache[tag]

    def __repr__(self):
        return 'Obj(%r)' % self.tag

    # equal only to itself: a copy of a spec that holds an Obj literal must hold the very same object
    def __copy__(self):
        return self

    def __deepcopy__(self, memo):
        return self

    def __reduce__(self):
        return (Obj, (self.tag,))


# ------------------------------------------------------------------ classes made for one case
import enum as _enum


class Color(_enum.Enum):
    RED = 'red'
    BLUE = 'blue'


class Level(_enum.IntEnum):
    OFF = 0
    LOW = 1
    HIGH = 2


class World:
    """The user-defined classes of ONE case, created afresh for it (so that nothing a class object
    carries - ABC registrations, caches keyed by class - leaks from one case into the next, and a
    stored case replays alone exactly as it ran):

      Rec, K0 .. K3, any other name   plain classes; `decl` = [[name, base]...] gives a base class
      Tagged                          a plain class whose metaclass is a subclass of `type`
      A0, A1, ...                     subclasses of abc.ABC (virtual subclasses through .register())
      HasLabel                         typing.runtime_checkable Protocol with the data member `label`
      Flagged                         metaclass.__instancecheck__ = hasattr(inst, 'flag')

    objects: tag `Class#id+attr+attr` = the instance `id` of Class with these attributes set."""

    # user subclasses of the builtin containers and of str (they override nothing)
    DEFAULT_DECL = {'MyDict': 'dict', 'MyList': 'list', 'MyTuple': 'tuple', 'MySet': 'set',
                    'MyFset': 'frozenset', 'MyStr': 'str'}

    def __init__(self, decl=None):
        self.decl = dict(self.DEFAULT_DECL)
        self.decl.update({n: b for n, b in (decl or [])})
        self.classes = {}
        self.objs = {}

    def cls(self, name):
        if name in self.classes:
            return self.classes[name]
        if name in GLOBAL_TYPES:
            return GLOBAL_TYPES[name]
        if name == 'HasLabel':
            import typing
            c = typing.runtime_checkable(
                type('HasLabel', (typing.Protocol,), {'__annotations__': {'label': str}, '__module__': __name__}))
        elif name == 'Flagged':
            meta = type('FlagMeta', (type,), {'__instancecheck__': lambda cls, inst: hasattr(inst, 'flag')})
            c = meta('Flagged', (), {})
        elif name == 'Tagged':
            meta = type('TagMeta', (type,), {})
            c = meta('Tagged', (), {})
        elif name[:1] == 'A' and name[1:].isdigit():
            import abc
            c = type(name, (abc.ABC,), {})
        else:
            base = self.decl.get(name, 'object')
            c = type(name, (self.cls(base),), {})
        self.classes[name] = c
        return c

    def obj(self, tag):
        if tag not in self.objs:
            cname, rest = tag.split('#', 1)
            parts = rest.split('+')
            if cname == 'Color':
                o = Color[parts[0]]
            elif cname == 'type':
                # the CLASS OBJECT itself as a value (the very object a `ty` pattern node denotes)
                return self.cls(parts[0])
            elif cname == 'function':
                # the FUNCTION OBJECT itself (the very object a `pred` node of form 'fn' denotes)
                fn, pid = parts[0].rsplit('_', 1)
                return make_pred(int(pid), fn, 'fn')
            else:
                o = self.cls(cname)()
                for a in parts[1:]:
                    setattr(o, a, a)
                o.__dict__['_vtag'] = tag
            self.objs[tag] = o
        return self.objs[tag]


WORLD = World()


def new_world(decl=None):
    """called at the start of every run_impl"""
    global WORLD
    WORLD = World(decl)
    return WORLD


def dec_v(j):
    if j is None:
        return None
    if 'b' in j:
        return bool(j['b'])
    if 'i' in j:
        return int(j['i'])
    if 'f2' in j:
        return j['f2'] / 2.0
    if 's' in j:
        return j['s']
    if 'obj' in j:
        return WORLD.obj(j['obj']) if '#' in j['obj'] else Obj(j['obj'])
    if 'sub' in j:
        # an instance of a user SUBCLASS of the builtin class of the content
        base = dec_v(j['v'])
        cls = WORLD.cls(j['sub'])
        if type(base) not in cls.__mro__:
            raise ValueError('%s is not a subclass of %s' % (j['sub'], type(base).__name__))
        return cls(base)
    if 'l' in j:
        return [dec_v(x) for x in j['l']]
    if 't' in j:
        return tuple(dec_v(x) for x in j['t'])
    if 'set' in j:
        return set(dec_v(x) for x in j['set'])
    if 'fs' in j:
        return frozenset(dec_v(x) for x in j['fs'])
    if 'd' in j:
        return {dec_v(k): dec_v(v) for k, v in j['d']}
    raise ValueError(j)


class Unencodable(Exception):
    pass


def enc_v(v):
    """Python value -> V json; containers in their actual iteration order"""
    import glom
    if v is None:
        return None
    if v is True or v is False:
        return {'b': v}
    if type(v) is int:
        return {'i': v}
    if type(v) is float:
        k = v * 2
        if k != int(k):
            raise Unencodable(v)
        return {'f2': int(k)}
    if type(v) is str:
        return {'s': v}
    if type(v) is Obj:
        return {'obj': v.tag}
    if type(v) is list:
        return {'l': [enc_v(x) for x in v]}
    if type(v) is tuple:
        return {'t': [enc_v(x) for x in v]}
    if type(v) is set:
        return {'set': [enc_v(x) for x in v]}
    if type(v) is frozenset:
        return {'fs': [enc_v(x) for x in v]}
    if type(v) is dict:
        return {'d': [[enc_v(k), enc_v(x)] for k, x in v.items()]}
    if type(v) is type(glom.T):
        return {'obj': 'rawT'}
    if type(v) is Color:
        return {'obj': 'Color#' + v.name}
    if isinstance(v, type):
        n = v.__name__
        try:
            known = WORLD.cls(n) is v
        except Exception:
            known = False
        if known:
            return {'obj': 'type#' + n}
        raise Unencodable(v)
    qn = getattr(v, '__qualname__', '')
    if isinstance(qn, str) and qn.startswith('_pred_') and globals().get(qn) is v:
        return {'obj': 'function#' + qn[len('_pred_'):]}
    for b in (dict, list, tuple, set, frozenset, str):
        if isinstance(v, b) and WORLD.classes.get(type(v).__name__) is type(v):
            return {'sub': type(v).__name__, 'v': enc_v(b(v))}
    tag = getattr(v, '__dict__', {}).get('_vtag')
    if isinstance(tag, str):
        return {'obj': tag}
    raise Unencodable(v)


def jv(v):
    """encode a generator-side Python literal"""
    return enc_v(v)


# ------------------------------------------------------------------ catalogue of callables
def _raises_value(x):
    raise ValueError('no')


def _raises_glom(x):
    import glom
    raise glom.GlomError('no')


PREDS = {
    'truthy': lambda x: bool(x),
    'is_pos': lambda x: x > 0,
    'is_str': lambda x: isinstance(x, str),
    'always': lambda x: True,
    'never': lambda x: False,
    'ret_none': lambda x: None,
    'ret_zero': lambda x: 0,
    'ret_one': lambda x: 1,
    'ret_empty': lambda x: '',
    'echo': lambda x: x,
    'len_lt3': lambda x: len(x) < 3,
    'raises_value': _raises_value,
    'raises_glom': _raises_glom,
    'nth0_pos': lambda t: t[0] > 0,
    'nth1_pos': lambda t: t[1] > 0,
    'nth2_pos': lambda t: t[2] > 0,
    'nth3_pos': lambda t: t[3] > 0,
}

LOG = []


def _apply_pred(pid, fn, x):
    if pid is not None:
        LOG.append(pid)
    return PREDS[fn](x)


class CallableObj:
    """a callable INSTANCE: no __name__ (module-level class, so it pickles)"""

    def __init__(self, pid, fn):
        self.pid, self.fn = pid, fn

    def __call__(self, x):
        return _apply_pred(self.pid, self.fn, x)

    def __repr__(self):
        return 'CallableObj(%r, %r)' % (self.pid, self.fn)


PRED_FORMS = ('fn', 'inst', 'partial')


def make_pred(pid, fn, form='fn'):
    """the callable `fn` of the catalogue, logging occurrence `pid` when it runs, as
      'fn'       a named module-level FUNCTION (one per (fn, pid); __name__ = fn; pickles by reference)
      'inst'     an instance of a class with __call__ (no __name__)
      'partial'  a functools.partial object (no __name__)"""
    if form == 'inst':
        return CallableObj(pid, fn)
    if form == 'partial':
        import functools
        return functools.partial(_apply_pred, pid, fn)
    name = '_pred_%s_%s' % (fn, pid)
    f = globals().get(name)
    if f is None:
        def f(x, _pid=pid, _fn=fn):
            return _apply_pred(_pid, _fn, x)
        f.__name__ = fn
        f.__qualname__ = name
        globals()[name] = f
    return f


def vary_forms(rng, j, p=0.4):
    """give a fraction of the callables of a case (callable patterns, Check validators) a form
    without __name__: every `{'id':…, 'fn':…}` node that has no 'form' yet"""
    if isinstance(j, dict):
        if 'fn' in j and 'id' in j and 'form' not in j and rng.random() < p:
            j['form'] = rng.choice(['inst', 'partial'])
        for v in j.values():
            vary_forms(rng, v, p)
    elif isinstance(j, list):
        for v in j:
            vary_forms(rng, v, p)
    return j


import collections.abc as _cabc
import numbers as _numbers

GLOBAL_TYPES = {'int': int, 'bool': bool, 'float': float, 'str': str, 'list': list, 'tuple': tuple, 'dict': dict,
                'set': set, 'frozenset': frozenset, 'NoneType': type(None), 'object': object, 'Obj': Obj,
                'Color': Color, 'Level': Level}
# classes whose metaclass is not `type` (ABCMeta, EnumType, ...): still matched by isinstance, never called
for _c in (_cabc.Hashable, _cabc.Sized, _cabc.Iterable, _cabc.Container, _cabc.Collection, _cabc.Reversible,
           _cabc.Sequence, _cabc.MutableSequence, _cabc.Mapping, _cabc.MutableMapping, _cabc.Set,
           _cabc.MutableSet, _cabc.Callable, _numbers.Number, _numbers.Complex, _numbers.Real,
           _numbers.Rational, _numbers.Integral):
    GLOBAL_TYPES[_c.__name__] = _c
ABC_NAMES = ['Hashable', 'Sized', 'Iterable', 'Container', 'Collection', 'Reversible', 'Sequence',
             'MutableSequence', 'Mapping', 'MutableMapping', 'Set', 'MutableSet', 'Callable', 'Number',
             'Complex', 'Real', 'Rational', 'Integral']
# every type atom the generators use beyond the builtin concrete classes
META_TYPE_NAMES = ABC_NAMES + ['Color', 'Level', 'Tagged', 'A0']
INSTANCE_DEPENDENT = ['HasLabel', 'Flagged']


class _Types:
    """name -> class object: the global catalogue, else a class of the current case's World"""

    def __getitem__(self, name):
        return WORLD.cls(name)


TYPES = _Types()


# ------------------------------------------------------------------ spec builder
def build_t(e):
    from glom import T
    t = T
    for k in e:
        t = t[dec_v(k)]
    return t


def build_arg(a):
    """what is passed as `default=`: {'c': V} a plain value | {'t': [...]} a T expression |
    {'val': V} Val(v) | {'seq': [item...], 'tuple': bool} a list / tuple display of plain values and
    T expressions"""
    if 'c' in a:
        return dec_v(a['c'])
    if 'val' in a:
        import glom
        return glom.Val(dec_v(a['val']))
    if 'seq' in a:
        items = [dec_v(i['c']) if 'c' in i else build_t(i['t']) for i in a['seq']]
        return tuple(items) if a.get('tuple') else items
    return build_t(a['t'])


def build_side(s):
    from glom import M
    if 'm' in s:
        return M
    if 'sub' in s:
        return M(build_t(s['sub']))
    return dec_v(s['c'])


OPS = {'eq': lambda a, b: a == b, 'ne': lambda a, b: a != b, 'gt': lambda a, b: a > b,
       'lt': lambda a, b: a < b, 'ge': lambda a, b: a >= b, 'le': lambda a, b: a <= b}
SWAP = {'eq': 'eq', 'ne': 'ne', 'gt': 'lt', 'lt': 'gt', 'ge': 'le', 'le': 'ge'}
RE_CLS = {'lower': '[a-z]', 'digit': r'\d', 'notAt': '[^@]', 'any': '.'}


def om(j, f):
    """{'one': x} -> f(x); {'many': [...], 'as': 'list' | 'tuple'} -> that container of f(x): the
    container KIND is part of the case and is passed to glom as it is"""
    if 'one' in j:
        return f(j['one'])
    xs = [f(x) for x in j['many']]
    return xs if j.get('as') == 'list' else tuple(xs)


def build_spec(j):
    """construct the Python spec object exactly as a user would write it"""
    import re
    import glom
    from glom import M, And, Or, Not, Switch, Check, Match, Val, Regex, Optional, Required
    k = j['k']
    if k == 't':
        return build_t(j['e'])
    if k == 'val':
        return Val(dec_v(j['v']))
    if k == 'M':
        return M
    if k == 'msub':
        return M(build_t(j['e']))
    if k == 'mexpr':
        l, r = build_side(j['l']), build_side(j['r'])
        if j.get('refl'):
            # written with the operands swapped: `c < M` for `M > c` (Python reflects it)
            return OPS[SWAP[j['op']]](r, l)
        return OPS[j['op']](l, r)
    if k in ('and', 'or'):
        cls = And if k == 'and' else Or
        cs = [build_spec(c) for c in j['cs']]
        if j.get('d') is not None:
            return cls(*cs, default=build_arg(j['d']))
        return cls(*cs)
    if k == 'not':
        return Not(build_spec(j['c']))
    if k == 'switch':
        cases = [(build_spec(a), build_spec(b)) for a, b in j['cases']]
        if j.get('as_dict') and all(_hashable(a) for a, _ in cases) and len({id(a) for a, _ in cases}) == len(cases):
            try:
                d = dict(cases)
                if len(d) == len(cases):
                    cases = d
            except TypeError:
                pass
        if j.get('d') is not None:
            return Switch(cases, default=build_arg(j['d']))
        return Switch(cases)
    if k == 'check':
        kw = {}
        if j.get('type') is not None:
            kw['type'] = om(j['type'], lambda n: TYPES[n])
        if j.get('instance_of') is not None:
            kw['instance_of'] = om(j['instance_of'], lambda n: TYPES[n])
        if j.get('equal_to') is not None:
            kw['equal_to'] = dec_v(j['equal_to']['v'])
        if j.get('one_of') is not None:
            vals = [dec_v(x) for x in j['one_of']]
            kw['one_of'] = vals if j.get('one_of_as') == 'list' else tuple(vals)
        if j.get('validate') is not None:
            kw['validate'] = om(j['validate'], lambda f: make_pred(f.get('id'), f['fn'], f.get('form', 'fn')))
        if j.get('d') is not None:
            kw['default'] = build_arg(j['d'])
        if j.get('spec') is not None:
            return Check(build_t(j['spec']), **kw)
        return Check(**kw)
    if k == 'regex':
        pat = ''.join((RE_CLS[i['c']] if isinstance(i['c'], str) else re.escape(i['c']['lit']))
                      + ('+' if i['p'] else '') for i in j['items'])
        f = {'fullmatch': None, 'search': re.search, 'match': re.match}[j['f']]
        if j['f'] == 'fullmatch' and j.get('explicit_func'):
            f = re.fullmatch
        return Regex(pat, func=f) if f is not None else Regex(pat)
    if k == 'match':
        if j.get('d') is not None:
            return Match(build_spec(j['s']), default=build_arg(j['d']))
        return Match(build_spec(j['s']))
    if k == 'ty':
        return TYPES[j['n']]
    if k == 'lit':
        return dec_v(j['v'])
    if k == 'pred':
        return make_pred(j['id'], j['fn'], j.get('form', 'fn'))
    if k == 'list':
        return [build_spec(c) for c in j['cs']]
    if k == 'set':
        return set(build_spec(c) for c in j['cs'])
    if k == 'fset':
        return frozenset(build_spec(c) for c in j['cs'])
    if k == 'tuple':
        return tuple(build_spec(c) for c in j['cs'])
    if k == 'dict':
        out = {}
        for kind, ks, vs in j['es']:
            key = build_spec(ks)
            if kind == 'req':
                key = Required(key)
            elif kind != 'plain':
                key = Optional(key, default=build_arg(kind['opt'])) if kind.get('opt') is not None else Optional(key)
            out[key] = build_spec(vs)
        return out
    raise ValueError(k)


def _hashable(x):
    try:
        hash(x)
        return True
    except TypeError:
        return False


def build_ops(j, objs=()):
    """evaluate an operator expression; `{'use': i}` is the OBJECT bound by the i-th def step of
    the program (the very same Python object, whatever has been done with it in between)"""
    if 'leaf' in j:
        return build_spec(j['leaf'])
    if 'use' in j:
        return objs[j['use']]
    if 'and' in j:
        a, b = build_ops(j['and'][0], objs), build_ops(j['and'][1], objs)
        return a & b
    if 'or' in j:
        a, b = build_ops(j['or'][0], objs), build_ops(j['or'][1], objs)
        return a | b
    return ~build_ops(j['inv'], objs)


def inline_ops(j, defs):
    """the operator expression with every `use i` replaced by the (inlined) expression of def i:
    the constructor-built tree the object denotes"""
    if 'leaf' in j:
        return j
    if 'use' in j:
        return defs[j['use']]
    if 'inv' in j:
        return {'inv': inline_ops(j['inv'], defs)}
    k = 'and' if 'and' in j else 'or'
    return {k: [inline_ops(j[k][0], defs), inline_ops(j[k][1], defs)]}


def prog_defs(prog):
    """inlined expression of every def step, in order"""
    defs = []
    for st in prog:
        if 'def' in st:
            defs.append(inline_ops(st['def'], defs))
    return defs


def run_prog(prog):
    """a straight-line program: `x_n = <operator expression over leaves and earlier x_i>` and
    `glom(target, Match(x_i))` / `glom(target, x_i)` statements, executed in order.  One entry per
    executed statement: None for a def that succeeded, {'ctor': cls} for a def that raised (the
    program ends there), the observation for an evaluation."""
    import glom
    objs = []
    out = []
    for st in prog:
        if 'def' in st:
            try:
                objs.append(build_ops(st['def'], objs))
            except Exception as e:
                out.append({'ctor': type(e).__name__})
                break
            out.append(None)
        else:
            spec = objs[st['eval']]
            t = dec_v(st['target'])
            if st.get('bare'):
                out.append(observe(lambda: glom.glom(t, spec), t))
            else:
                out.append(observe(lambda: glom.glom(t, glom.Match(spec)), t))
    return out


# (formerly gated: deep copies / pickle round trips of patterns with an `M` operand — glom defect
# F43, `glom(0, Match(copy.deepcopy(M > 3)))` returned 0; repaired in /repo 8acd988: `_MType.__reduce__`)
GATE_DEEPCOPY_M = False

import copy as _copy


def has_m_operand(j):
    """an `M` operand of a comparison somewhere in the spec json"""
    if isinstance(j, dict):
        if j.get('k') == 'mexpr' and ('m' in j['l'] or 'm' in j['r']):
            return True
        return any(has_m_operand(v) for v in j.values())
    if isinstance(j, list):
        return any(has_m_operand(v) for v in j)
    return False


def _has_kind(j, kinds):
    return _count(j, lambda d: d.get('k') in kinds) > 0


def apply_copy(how, obj, spec_json):
    """the object that is USED in place of `obj`: (copy, res, how actually applied)"""
    import pickle
    ident = lambda x: x
    if how in ('deepcopy', 'pickle') and GATE_DEEPCOPY_M and has_m_operand(spec_json):
        how = 'copy'                      # GATE_DEEPCOPY_M: see above
    if how == 'pickle':
        if _has_kind(spec_json, ('set', 'fset')):
            how = 'deepcopy'              # (the member order of the unpickled set cannot be tied to the case)
        else:
            try:
                return pickle.loads(pickle.dumps(obj)), ident, 'pickle'
            except Exception:
                how = 'deepcopy'          # not picklable (a lambda, boltons' local Sentinel class)
    if how == 'deepcopy':
        memo = {}
        c = _copy.deepcopy(obj, memo)
        return c, (lambda x: memo.get(id(x), x)), 'deepcopy'
    if how == 'copy':
        return _copy.copy(obj), ident, 'copy'
    return obj, ident, None


# ------------------------------------------------------------------ observation
def origin_class(e):
    for c in type(e).__mro__:
        if not c.__name__.startswith('GlomError.wrap'):
            return c
    return type(e)


_NO_TARGET = object()


def observe(call, target=_NO_TARGET):
    """outcome of `call()`; with `target`: also whether the result IS the target object (`same`)"""
    import glom
    from glom.matching import MatchError, TypeMatchError, CheckError
    del LOG[:]
    try:
        res = call()
    except Exception as e:
        c = origin_class(e)
        return {'exc': c.__name__, 'glom': issubclass(c, glom.GlomError), 'match': issubclass(c, MatchError),
                'typematch': issubclass(c, TypeMatchError), 'typeerror': issubclass(c, TypeError),
                'pae': issubclass(c, glom.PathAccessError), 'check': issubclass(c, CheckError),
                'log': list(LOG)}
    out = {'log': list(LOG)}
    if target is not _NO_TARGET:
        out['same'] = res is target
    try:
        out['ok'] = enc_v(res)
    except Unencodable:
        out['ok'] = {'obj': 'unencodable:' + type(res).__name__}
    return out


MODE_DEPENDENT = ('ty', 'lit', 'pred', 'list', 'set', 'fset', 'tuple', 'dict')


def mode_free(j):
    """no leaf whose meaning depends on MODE (so the bare run must agree)"""
    if isinstance(j, dict):
        if j.get('k') in MODE_DEPENDENT:
            return False
        return all(mode_free(v) for v in j.values())
    if isinstance(j, list):
        return all(mode_free(v) for v in j)
    return True


def run_impl(case):
    import glom
    out = dict(case)
    out.pop('impl', None)
    out.pop('impl_bare', None)
    out.pop('impl_seq', None)
    out.pop('impl_steps', None)
    out.pop('copy_used', None)
    new_world(case.get('world'))
    if case.get('prog') is not None:
        out['impl_steps'] = run_prog(case['prog'])
        return out
    try:
        if case.get('ops') is not None:
            spec = build_ops(case['ops'])
        else:
            spec = build_spec(case['spec'])
        # the spec object that is used: the one built, or a copy of it
        spec, _res, used = apply_copy(case.get('copy'), spec, [case.get('ops'), case.get('spec')])
        if used is not None:
            out['copy_used'] = used
    except Exception as e:
        if 'targets' in case:
            out['impl_seq'] = [{'ctor': type(e).__name__}]
            return out
        out['impl'] = {'ctor': type(e).__name__}
        out['impl_bare'] = None
        return out
    if 'targets' in case:
        # ONE spec object, consecutive calls: each call must decide its own target
        m = glom.Match(spec)
        seq = []
        for tj in case['targets']:
            t = dec_v(tj)
            seq.append(observe(lambda: glom.glom(t, m), t))
        out['impl_seq'] = seq
        return out
    target = dec_v(case['target'])
    out['impl'] = observe(lambda: glom.glom(target, glom.Match(spec)), target)
    if mode_free(case.get('ops') if case.get('ops') is not None else case.get('spec')):
        out['impl_bare'] = observe(lambda: glom.glom(target, spec), target)
    else:
        out['impl_bare'] = None
    return out


# ------------------------------------------------------------------ generators
SLOT_TRUE = {'i': 1}
SLOT_FALSE = {'i': 0}
CONST_LEAVES = [
    {'k': 'ty', 'n': 'tuple'}, {'k': 'ty', 'n': 'int'}, {'k': 'ty', 'n': 'object'},
    # classes whose metaclass is not `type`: matched by isinstance like any class, never called
    {'k': 'ty', 'n': 'Sequence'}, {'k': 'ty', 'n': 'Mapping'}, {'k': 'ty', 'n': 'Hashable'},
    {'k': 'ty', 'n': 'Integral'}, {'k': 'ty', 'n': 'Color'}, {'k': 'ty', 'n': 'Tagged'},
    {'k': 'M'}, {'k': 'lit', 'v': {'i': 7}},
    {'k': 'mexpr', 'l': {'m': True}, 'op': 'ne', 'r': {'c': None}},
    {'k': 'mexpr', 'l': {'m': True}, 'op': 'eq', 'r': {'c': {'i': 3}}},
]


class Gen:
    def __init__(self, rng):
        self.rng = rng
        self.pid = 0

    def fresh(self):
        self.pid += 1
        return self.pid - 1

    # an atom bound to slot i: (json, true_elem, false_elem, fault_elem or None)
    def slot_atom(self, i):
        r = self.rng
        kind = r.choice(['msub', 'msub', 'pred', 'pred', 'taccess', 'msubtruth', 'whole'] if i == 0 else
                        ['msub', 'msub', 'pred', 'pred', 'taccess', 'msubtruth'])
        if kind == 'msub':
            op, c, tv, fv = r.choice([('gt', 0, 1, 0), ('ge', 1, 1, 0), ('eq', 1, 1, 0), ('ne', 0, 1, 0),
                                      ('lt', 1, 0, 1), ('le', 0, 0, 1), ('eq', 1, True, 0), ('gt', 0, 1.5, 0.0),
                                      ('eq', 'a', 'a', 'b'), ('lt', 'b', 'a', 'b')])
            fault = None if op in ('eq', 'ne') else ('x' if not isinstance(c, str) else 3)
            j = {'k': 'mexpr', 'l': {'sub': [{'i': i}]}, 'op': op, 'r': {'c': jv(c)}}
            if r.random() < 0.15:
                j['refl'] = True
            return j, jv(tv), jv(fv), (jv(fault) if fault is not None else None)
        if kind == 'pred':
            return ({'k': 'pred', 'id': self.fresh(), 'fn': 'nth%d_pos' % i}, jv(1), jv(0), None)
        if kind == 'taccess':
            # T[i]['k'] exists only when slot i holds a dict with key 'k'
            return ({'k': 't', 'e': [{'i': i}, {'s': 'k'}]}, jv({'k': 5}), jv(r.choice([0, {}, 'a'])), None)
        if kind == 'msubtruth':
            return ({'k': 'msub', 'e': [{'i': i}]}, jv(r.choice([1, 'a', [0]])), jv(r.choice([0, '', None, []])), None)
        # whole-target comparison decided by slot 0: M >= (1,)
        op, tv, fv = r.choice([('ge', 1, 0), ('gt', 1, 0), ('lt', 0, 1)])
        c = (1,) if op in ('ge', 'lt') else (0, 9, 9, 9, 9)
        return ({'k': 'mexpr', 'l': {'m': True}, 'op': op, 'r': {'c': jv(c)}}, jv(tv), jv(fv), jv('x'))

    def const_leaf(self):
        r = self.rng
        p = r.random()
        if p < 0.35:
            return {'k': 'pred', 'id': self.fresh(),
                    'fn': r.choice(['always', 'never', 'truthy', 'ret_none', 'ret_one', 'ret_zero',
                                    'raises_value', 'raises_glom', 'len_lt3', 'is_pos', 'echo'])}
        if p < 0.45:
            return {'k': 'val', 'v': jv(r.choice([9, 'v', None]))}
        return json.loads(json.dumps(r.choice(CONST_LEAVES)))

    def default(self):
        r = self.rng
        p = r.random()
        if p < 0.4:
            return {'c': jv(r.choice([0, None, 'dflt', [1], {'k': 2}, False, (1, 'a')]))}
        if p < 0.5:
            return {'val': jv(r.choice([3, 'v', None, [0]]))}
        if p < 0.62:
            # a list / tuple display holding T expressions: every item is evaluated
            return {'seq': [r.choice([{'c': jv(r.choice([0, 'x']))}, {'t': [{'i': r.randrange(4)}]},
                                      {'t': [{'i': r.choice([1, 7])}]}]) for _ in range(r.choice([1, 2, 3]))],
                    'tuple': r.random() < 0.5}
        if p < 0.85:
            return {'t': [{'i': r.randrange(4)}]}
        return {'t': [{'i': r.choice([7, 9])}]}          # a default whose T access fails

    def tree(self, depth, slots, atoms):
        """random combinator tree; `atoms` collects (slot, true, false, fault)"""
        r = self.rng
        if depth <= 0 or r.random() < 0.18:
            if slots and r.random() < 0.8:
                i = slots.pop(r.randrange(len(slots)))
                j, tv, fv, ft = self.slot_atom(i)
                atoms.append((i, tv, fv, ft))
                return j
            return self.const_leaf()
        k = r.choice(['and', 'and', 'or', 'or', 'not', 'switch'])
        if k in ('and', 'or'):
            n = r.choice([1, 2, 2, 3, 3, 4])
            cs = [self.tree(depth - 1, slots, atoms) for _ in range(n)]
            d = self.default() if r.random() < 0.2 else None
            return {'k': k, 'cs': cs, 'd': d}
        if k == 'not':
            return {'k': 'not', 'c': self.tree(depth - 1, slots, atoms)}
        n = r.choice([1, 2, 2, 3])
        cases = [[self.tree(depth - 1, slots, atoms), self.tree(depth - 1, slots, atoms)] for _ in range(n)]
        if r.random() < 0.4:
            # a catch-all case keyed by a plain type after the value-dependent ones
            cases.append([{'k': 'ty', 'n': r.choice(['tuple', 'object', 'tuple', 'int', 'Sequence', 'Sized', 'Mapping'])},
                          r.choice([{'k': 'val', 'v': jv('by-type')}, self.const_leaf()])])
        d = self.default() if r.random() < 0.35 else None
        return {'k': 'switch', 'cases': cases, 'd': d, 'as_dict': r.random() < 0.3}

    def optree(self, depth, slots, atoms):
        """tree written with & | ~ ; leaves are atoms or constructor-built subtrees"""
        r = self.rng
        if depth <= 0 or r.random() < 0.2:
            p = r.random()
            if p < 0.25:
                sub = self.tree(1, slots, atoms)
                return {'leaf': sub}
            if slots and p < 0.85:
                i = slots.pop(r.randrange(len(slots)))
                j, tv, fv, ft = self.slot_atom(i)
                atoms.append((i, tv, fv, ft))
                return {'leaf': j}
            return {'leaf': self.const_leaf()}
        k = r.choice(['and', 'and', 'or', 'or', 'inv'])
        if k == 'inv':
            return {'inv': self.optree(depth - 1, slots, atoms)}
        left = self.optree(depth - 1, slots, atoms)
        if r.random() < 0.3:
            # a constructor-built And / Or (often carrying a default) as the RIGHT operand
            kk = k if r.random() < 0.8 else ('or' if k == 'and' else 'and')
            right = {'leaf': {'k': kk, 'cs': [self.tree(0, slots, atoms) for _ in range(r.choice([1, 2, 2]))],
                              'd': self.default() if r.random() < 0.7 else None}}
        else:
            right = self.optree(depth - 1, slots, atoms)
        return {k: [left, right]}


    def optreex(self, depth, slots, atoms, k):
        """an operator expression whose operands include OBJECTS THAT EXIST ALREADY (`use i`, i < k)"""
        r = self.rng
        j = r.randrange(k) if r.random() < 0.4 else k - 1
        p = r.random()
        if p < 0.5:
            # the object is EXTENDED: `x & e`, `x | e` (flattening when x is a default-less And / Or)
            op = r.choice(['and', 'or'])
            return {op: [{'use': j}, self.optree(r.choice([0, 0, 1]), slots, atoms)]}
        if p < 0.6:
            op = r.choice(['and', 'or'])
            return {op: [self.optree(r.choice([0, 0, 1]), slots, atoms), {'use': j}]}
        if p < 0.68:
            return {'inv': {'use': j}}
        # anywhere in a larger expression, possibly several times / several objects
        e = self.optree(max(depth, 1), slots, atoms)
        sites = []

        def walk(x):
            for kk in ('and', 'or'):
                if kk in x:
                    for i in (0, 1):
                        sites.append((x[kk], i))
                        walk(x[kk][i])
            if 'inv' in x:
                sites.append((x, 'inv'))
                walk(x['inv'])
        walk(e)
        for _ in range(r.choice([1, 1, 2])):
            if sites:
                holder, i = r.choice(sites)
                holder[i] = {'use': r.randrange(k)}
        if not has_use(e):
            e = {r.choice(['and', 'or']): [{'use': j}, e]}
        return e


def has_use(j):
    if 'use' in j:
        return True
    if 'leaf' in j:
        return False
    if 'inv' in j:
        return has_use(j['inv'])
    a, b = j.get('and') or j.get('or')
    return has_use(a) or has_use(b)


def prog_cases(rng, n):
    """programs over spec OBJECTS: sub-trees are bound to names, evaluated on some targets (warm-up),
    then combined with & | ~ into larger trees, which are evaluated, extended again, ...; the object
    bound first is evaluated again at the end (an operator must not change its operands).  Every
    evaluation is judged against the constructor-built tree its object denotes."""
    made = 0
    tries = 0
    while made < n and tries < 20 * n:
        tries += 1
        g = Gen(rng)
        atoms = []
        slots = [0, 1, 2, 3]
        rng.shuffle(slots)
        ndefs = rng.choice([2, 2, 2, 3, 3, 4])
        shape = []                       # ('def', expr) | ('eval', i)
        for k in range(ndefs):
            if k == 0:
                e = g.optree(rng.choice([0, 1, 1, 1, 2]), slots, atoms)
            else:
                e = g.optreex(rng.choice([1, 2]), slots, atoms, k)
            shape.append(('def', e))
            for _ in range(rng.choice([0, 1, 1, 1, 2])):
                shape.append(('eval', k if rng.random() < 0.8 else rng.randrange(k + 1)))
        defs = prog_defs([{'def': e} for kind, e in shape if kind == 'def'])
        if any(has_t_operand(d) or ops_outside(d)[0] for d in defs):
            continue
        try:
            objs = []
            for kind, e in shape:
                if kind == 'def':
                    objs.append(build_ops(e, objs))
        except TypeError:
            if rng.random() < 0.9:
                continue
        except Exception:
            pass
        ts = targets_for(atoms, rng, with_faults=rng.random() < 0.3) or [{'t': [jv(0)] * 4}]
        free = [mode_free(d) for d in defs]

        def ev(i, t):
            st = {'eval': i, 'target': t}
            if free[i] and rng.random() < 0.3:
                st['bare'] = True
            return st
        prog = []
        for kind, x in shape:
            prog.append({'def': x} if kind == 'def' else ev(x, rng.choice(ts)))
        final = list(ts)
        rng.shuffle(final)
        for t in final[:8]:
            prog.append(ev(ndefs - 1, t))
        # the operands afterwards: still the trees they were
        for i in range(ndefs - 1):
            for t in rng.sample(final, min(len(final), rng.choice([1, 2]))):
                prog.append(ev(i, t))
        made += 1
        yield {'prog': prog}


def has_t_operand(j):
    if 'leaf' in j:
        return j['leaf'].get('k') == 't'
    return any(has_t_operand(x) for k in ('and', 'or') if k in j for x in j[k]) or \
        ('inv' in j and has_t_operand(j['inv']))


GLOM_OPERAND = ('and', 'or', 'not', 'mexpr', 'M', 'msub')


def ops_outside(j):
    """(some operator has only plain Python operands, is the result a glom spec object)"""
    if 'leaf' in j:
        return False, j['leaf'].get('k') in GLOM_OPERAND
    if 'inv' in j:
        o, g = ops_outside(j['inv'])
        return o or not g, True
    a, b = j.get('and') or j.get('or')
    oa, ga = ops_outside(a)
    ob, gb = ops_outside(b)
    return oa or ob or not (ga or gb), True


def targets_for(atoms, rng, with_faults=True):
    """enumerate every truth assignment of the slot atoms (+ one faulting value per slot)"""
    base = [jv(0), jv(0), jv(0), jv(0)]
    slots = {}
    for i, tv, fv, ft in atoms:
        slots[i] = (tv, fv, ft)
    idx = sorted(slots)
    out = []
    for bits in itertools.product([True, False], repeat=len(idx)):
        elems = list(base)
        for i, b in zip(idx, bits):
            elems[i] = slots[i][0] if b else slots[i][1]
        out.append({'t': elems})
    if with_faults:
        for i in idx:
            if slots[i][2] is not None:
                elems = list(base)
                for i2 in idx:
                    elems[i2] = slots[i2][0] if rng.random() < 0.5 else slots[i2][1]
                elems[i] = slots[i][2]
                out.append({'t': elems})
    return out


POOL = [None, True, False, 0, 1, 2, -1, 3, 0.5, 1.0, 0.0, -1.5, 'a', 'b', '', 'ab',
        [], [1], [1, 2], ['a'], [1, 'a'], [[1]], (1,), (), (1, 'a'), (1, 2), {'k': 1}, {}, {1: 'x'},
        {1, 2}, {1}, frozenset({1}), frozenset(), Obj('o1')]


def cmp_cases(rng, n=None):
    pairs = [(a, b) for a in POOL for b in POOL]
    if n is not None:
        pairs = rng.sample(pairs, n)
    for a, b in pairs:
        ops = list(OPS) if n is None else [rng.choice(list(OPS))]
        for op in ops:
            yield {'spec': {'k': 'mexpr', 'l': {'m': True}, 'op': op, 'r': {'c': jv(b)},
                            'refl': rng.random() < 0.2},
                   'target': jv(a)}


def msub_cases(rng, n):
    """M(T-expr) op c and M(T-expr) truthiness on dict / list targets, with failing accesses"""
    for _ in range(n):
        tgt = rng.choice([{'a': rng.choice(POOL[:16]), 'b': [1, 2]}, [rng.choice(POOL[:16]), 5],
                          {'a': {'b': rng.choice(POOL[:12])}}, 5, 'xy', (3, 4)])
        e = rng.choice([[{'s': 'a'}], [{'i': 0}], [{'s': 'a'}, {'s': 'b'}], [{'i': -1}], [{'s': 'zz'}],
                        [{'i': 5}], [{'s': 'b'}, {'i': 1}], []])
        if rng.random() < 0.3:
            spec = {'k': 'msub', 'e': e}
        else:
            rhs = rng.choice([{'c': jv(rng.choice(POOL[:16]))}, {'m': True}, {'sub': [{'s': 'b'}]},
                              {'sub': [{'i': 1}]}])
            lhs = {'sub': e} if rng.random() < 0.8 else {'m': True}
            spec = {'k': 'mexpr', 'l': lhs, 'op': rng.choice(list(OPS)), 'r': rhs}
        yield {'spec': spec, 'target': jv(tgt)}


CHECK_TARGETS = [3, True, 0, 'a', '', None, 1.0, [1], (), {'a': 3}, {'a': 'x'}, [3, 'a'], False]


def check_cases(rng, per_combo):
    """all 2^5 keyword combinations x argument variants x targets"""
    g = Gen(rng)
    for bits in itertools.product([False, True], repeat=5):
        has_type, has_inst, has_val, has_validate, has_default = bits
        for _ in range(per_combo):
            j = {'k': 'check'}
            if has_type:
                j['type'] = rng.choice([{'one': 'int'}, {'one': 'str'}, {'many': ['int', 'str']},
                                        {'many': ['bool', 'NoneType']}, {'one': 'bool'}, {'many': []}])
            if has_inst:
                j['instance_of'] = rng.choice([{'one': 'int'}, {'one': 'object'}, {'many': ['str', 'list']},
                                               {'one': 'str'}, {'many': ['int', 'float']}, {'many': []},
                                               {'many': ['Integral', 'Mapping']}, {'one': 'Sized'},
                                               {'many': ['int']}])
            if has_val:
                if rng.random() < 0.5:
                    j['equal_to'] = {'v': jv(rng.choice([3, 1, 'a', None, [1], True]))}
                else:
                    j['one_of'] = [jv(x) for x in rng.choice([[3, 'a'], [1, 0], [None], [[1], ()], [], [1.0, '']])]
                if rng.random() < 0.06:
                    j['equal_to'] = {'v': jv(3)}
                    j['one_of'] = [jv(3)]
            if has_validate:
                fns = ['truthy', 'is_pos', 'is_str', 'always', 'never', 'ret_none', 'ret_zero', 'echo',
                       'len_lt3', 'raises_value', 'raises_glom', 'ret_empty']
                mk = lambda: {'id': g.fresh(), 'fn': rng.choice(fns)}
                j['validate'] = rng.choice([lambda: {'one': mk()}, lambda: {'many': [mk(), mk()]},
                                            lambda: {'many': [mk(), mk(), mk()]}, lambda: {'many': []}])()
            if has_default:
                j['d'] = rng.choice([{'c': jv('dflt')}, {'c': None}, {'c': jv([1])}, {'c': jv({'k': (1, 2)})},
                                     {'t': [{'s': 'a'}]}, {'t': []}, {'t': [{'s': 'zz'}]}, {'t': [{'i': 0}]},
                                     {'val': jv('v')}, {'val': jv([0])},
                                     {'seq': [{'t': []}, {'c': jv(0)}], 'tuple': False},
                                     {'seq': [{'t': [{'s': 'a'}]}], 'tuple': True},
                                     {'seq': [{'c': jv('x')}, {'t': [{'i': 0}]}], 'tuple': rng.random() < 0.5}])
            if rng.random() < 0.25:
                j['spec'] = rng.choice([[{'s': 'a'}], [{'i': 0}], [{'s': 'zz'}], [{'i': 1}]])
            # the container KIND of a sequence argument is part of the case: list and tuple
            for kw in ('type', 'instance_of', 'validate'):
                if isinstance(j.get(kw), dict) and 'many' in j[kw]:
                    j[kw] = dict(j[kw], **{'as': rng.choice(['list', 'tuple'])})
            if j.get('one_of') is not None:
                j['one_of_as'] = rng.choice(['list', 'tuple'])
            tgts = rng.sample(CHECK_TARGETS, 4)
            for t in tgts:
                spec = j
                if rng.random() < 0.2:
                    # a Check inside a combinator: its CheckError is a rejection for Or / Not / default
                    wrap = rng.choice(['or', 'not', 'and_d', 'switch'])
                    if wrap == 'or':
                        spec = {'k': 'or', 'cs': [j, {'k': 'val', 'v': jv('alt')}], 'd': None}
                    elif wrap == 'not':
                        spec = {'k': 'not', 'c': j}
                    elif wrap == 'and_d':
                        spec = {'k': 'and', 'cs': [j, {'k': 'M'}], 'd': {'c': jv('dflt2')}}
                    else:
                        spec = {'k': 'switch', 'cases': [[j, {'k': 'val', 'v': jv('hit')}]], 'd': None}
                yield {'spec': spec, 'target': jv(t)}
            if rng.random() < 0.3:
                # an instance of a user subclass: `type=` is exact, `instance_of=` is isinstance
                yield {'spec': j, 'target': rng.choice(SUB_REPS_J)}


def ctor_cases():
    yield {'spec': {'k': 'and', 'cs': [], 'd': None}, 'target': jv(1)}
    yield {'spec': {'k': 'or', 'cs': [], 'd': {'c': jv(1)}}, 'target': jv(1)}
    yield {'spec': {'k': 'switch', 'cases': [], 'd': None}, 'target': jv(1)}
    yield {'spec': {'k': 'not', 'c': {'k': 'and', 'cs': [{'k': 'M'}, {'k': 'or', 'cs': [], 'd': None}], 'd': None}},
           'target': jv(1)}
    yield {'spec': {'k': 'check', 'type': {'many': []}}, 'target': jv(1)}
    yield {'spec': {'k': 'check', 'type': {'many': [], 'as': 'list'}}, 'target': jv(1)}
    yield {'spec': {'k': 'check', 'instance_of': {'many': [], 'as': 'list'}}, 'target': jv(1)}
    yield {'spec': {'k': 'check', 'one_of': [], 'one_of_as': 'list'}, 'target': jv(1)}
    for t in (1, 'a', 2.5, None):
        for kind in ('list', 'tuple'):
            yield {'spec': {'k': 'check', 'instance_of': {'many': ['int', 'str'], 'as': kind}}, 'target': jv(t)}
            yield {'spec': {'k': 'check', 'type': {'many': ['int', 'str'], 'as': kind}, 'd': {'c': jv('d')}},
                   'target': jv(t)}
            yield {'spec': {'k': 'check', 'one_of': [jv(1), jv('a')], 'one_of_as': kind}, 'target': jv(t)}
    for sj in SUB_REPS_J:
        for tn in ('dict', 'str', 'list', 'MyDict', 'Mapping'):
            yield {'spec': {'k': 'check', 'type': {'one': tn}}, 'target': sj}
            yield {'spec': {'k': 'check', 'instance_of': {'one': tn}}, 'target': sj}
    # callables without __name__ that reject: alone and under Or / Not / Switch / a list pattern
    for form in PRED_FORMS:
        for fn in ('never', 'raises_value', 'ret_zero', 'is_pos', 'always'):
            pr = {'k': 'pred', 'id': 0, 'fn': fn, 'form': form}
            for t in (3, 0, 'x'):
                yield {'spec': pr, 'target': jv(t)}
                yield {'spec': {'k': 'or', 'cs': [pr, {'k': 'ty', 'n': 'int'}], 'd': None}, 'target': jv(t)}
                yield {'spec': {'k': 'not', 'c': pr}, 'target': jv(t)}
                yield {'spec': {'k': 'switch', 'cases': [[pr, {'k': 'val', 'v': jv('hit')}],
                                                         [{'k': 'ty', 'n': 'object'}, {'k': 'val', 'v': jv('no')}]],
                                'd': None}, 'target': jv(t)}
                yield {'spec': {'k': 'list', 'cs': [pr, {'k': 'ty', 'n': 'str'}]}, 'target': jv([t, 'y'])}
            yield {'spec': {'k': 'check', 'validate': {'one': {'id': 0, 'fn': fn, 'form': form}}}, 'target': jv(3)}
            yield {'spec': {'k': 'check', 'validate': {'one': {'id': 0, 'fn': fn, 'form': form}},
                            'd': {'t': []}}, 'target': jv(3)}
    yield {'spec': {'k': 'check', 'equal_to': {'v': jv(1)}, 'one_of': [jv(1)]}, 'target': jv(1)}
    yield {'spec': {'k': 'check', 'one_of': []}, 'target': jv(1)}
    yield {'ops': {'and': [{'leaf': {'k': 'ty', 'n': 'int'}}, {'leaf': {'k': 'and', 'cs': [{'k': 'M'}], 'd': None}}]},
           'target': jv(1)}
    yield {'ops': {'or': [{'leaf': {'k': 'lit', 'v': jv('a')}}, {'leaf': {'k': 'M'}}]}, 'target': jv(1)}
    yield {'ops': {'inv': {'leaf': {'k': 'msub', 'e': [{'i': 0}]}}}, 'target': jv([1])}


def scalar_tree_cases(rng, n):
    """small trees of whole-target atoms on scalar targets (incl. raising comparisons)"""
    g = Gen(rng)
    for _ in range(n):
        def atom():
            p = rng.random()
            if p < 0.55:
                return {'k': 'mexpr', 'l': {'m': True}, 'op': rng.choice(list(OPS)),
                        'r': {'c': jv(rng.choice([0, 1, 2, 3, 'a', 'b', None, 1.5, [1], (1,)]))},
                        'refl': rng.random() < 0.15}
            if p < 0.7:
                return {'k': 'ty', 'n': rng.choice(['int', 'str', 'bool', 'float', 'object', 'list', 'NoneType'] +
                                                   META_TYPE_NAMES + INSTANCE_DEPENDENT)}
            if p < 0.8:
                return {'k': 'lit', 'v': jv(rng.choice([1, 'a', None, 2.0, True]))}
            if p < 0.9:
                return {'k': 'pred', 'id': g.fresh(), 'fn': rng.choice(['is_pos', 'is_str', 'truthy', 'len_lt3',
                                                                         'echo', 'ret_none', 'raises_value'])}
            return {'k': 'M'}

        def tree(d):
            if d == 0 or rng.random() < 0.25:
                return atom()
            k = rng.choice(['and', 'or', 'not', 'switch'])
            if k == 'not':
                return {'k': 'not', 'c': tree(d - 1)}
            if k == 'switch':
                return {'k': 'switch', 'cases': [[tree(d - 1), rng.choice([tree(d - 1), {'k': 'val', 'v': jv('s')}])]
                                                 for _ in range(rng.choice([1, 2, 3]))],
                        'd': rng.choice([None, None, {'c': jv('d')}])}
            return {'k': k, 'cs': [tree(d - 1) for _ in range(rng.choice([1, 2, 3]))],
                    'd': rng.choice([None, None, None, {'c': jv('d')}, {'t': [{'i': 0}]}])}
        spec = tree(rng.choice([1, 2, 3]))
        for t in rng.sample(POOL, 3):
            yield {'spec': spec, 'target': jv(t)}
        # same object on several targets, several of them of the same type
        yield from seq_cases(rng, {'spec': spec}, [jv(t) for t in rng.sample(POOL[:12], 5) + rng.sample(POOL, 2)])


TYPE_ATOMS = ['int', 'str', 'bool', 'float', 'dict', 'list', 'tuple', 'object', 'NoneType', 'set', 'frozenset'] + \
    META_TYPE_NAMES + INSTANCE_DEPENDENT + ['Rec', 'K0', 'MyDict', 'MyStr']


SUB_REPS_J = [{'sub': 'MyDict', 'v': {'d': [[{'s': 'a'}, {'i': 1}]]}}, {'sub': 'MyList', 'v': {'l': [{'i': 1}]}},
              {'sub': 'MyTuple', 'v': {'t': []}}, {'sub': 'MySet', 'v': {'set': [{'i': 1}]}},
              {'sub': 'MyStr', 'v': {'s': 'red'}}]


def class_reps():
    """one value (or more: with / without the attribute an instance-dependent type looks at) per class"""
    O = lambda tag: dec_v({'obj': tag})
    return [None, True, 0, 3, 2.5, 'red', '', [], [1], (), (1, 'a'), {}, {'a': 1}, {1}, frozenset({1}),
            Obj('o1'), O('Rec#b'), O('Rec#a+label'), O('Rec#f+flag'), O('Rec#c+label+flag'), O('K0#k'), O('K1#k+flag'),
            O('Color#RED'), O('Tagged#t1')] + [dec_v(j) for j in SUB_REPS_J]


def type_tree_cases(rng, n, per_tree):
    """trees of And / Or / Not / Switch over TYPE atoms - concrete classes, classes whose metaclass is not
    `type` (ABCs, Enum / IntEnum, a custom metaclass), instance-dependent types - x one value per class:
    a type atom decides like isinstance(target, type) at every position, and is never called"""
    g = Gen(rng)
    reps = [jv(v) for v in class_reps()]
    for _ in range(n):
        def atom():
            if rng.random() < 0.85:
                return {'k': 'ty', 'n': rng.choice(TYPE_ATOMS)}
            return rng.choice([{'k': 'pred', 'id': g.fresh(), 'fn': rng.choice(['is_str', 'truthy', 'always'])},
                               {'k': 'M'}, {'k': 'val', 'v': jv('hit')}, {'k': 'lit', 'v': jv('red')}])

        def tree(d):
            if d == 0 or rng.random() < 0.2:
                return atom()
            k = rng.choice(['and', 'or', 'not', 'switch'])
            if k == 'not':
                return {'k': 'not', 'c': tree(d - 1)}
            if k == 'switch':
                return {'k': 'switch', 'cases': [[tree(d - 1), rng.choice([tree(d - 1), {'k': 'val', 'v': jv('s')}])]
                                                 for _ in range(rng.choice([1, 2, 3]))],
                        'd': rng.choice([None, None, {'c': jv('none')}])}
            return {'k': k, 'cs': [tree(d - 1) for _ in range(rng.choice([1, 2, 2, 3]))],
                    'd': rng.choice([None, None, None, {'c': jv('d')}])}
        spec = tree(rng.choice([0, 1, 1, 2, 3]))
        ts = list(reps)
        rng.shuffle(ts)
        ts = ts[:per_tree]
        world = [['K1', 'K0']]
        for t in ts:
            yield with_copy(rng, {'spec': spec, 'target': t, 'world': world}, 0.1)
        # the same object on all of them: several instances of one class, with different answers
        yield {'spec': spec, 'targets': ts, 'world': world}
        yield {'spec': {'k': 'list', 'cs': [spec]}, 'target': {'l': ts}, 'world': world}


def with_copy(rng, case, p=0.12):
    """a fraction of the cases uses a copy (copy.copy / copy.deepcopy / pickle round trip) of the spec
    object instead of the object itself"""
    if rng.random() < p:
        return dict(case, copy=rng.choice(['copy', 'deepcopy', 'deepcopy', 'pickle']))
    return case


def generate(rng, tier, scale, **focus):
    last = None
    for c in _generate(rng, tier, scale, **focus):
        # the same tree arrives once per target: keep one choice of callable forms per tree
        sig = json.dumps(c.get('spec') or c.get('ops') or c.get('prog'), sort_keys=True)
        if last is None or last[0] != sig:
            varied = json.loads(sig)
            vary_forms(rng, varied)
            last = (sig, varied)
        c = dict(c)
        for k in ('spec', 'ops', 'prog'):
            if c.get(k) is not None:
                c[k] = last[1]
        if 'prog' in c or 'copy' in c:
            yield c
        else:
            yield with_copy(rng, c)


def _generate(rng, tier, scale, **focus):
    quick = tier == 'quick'
    n_trees = (260 if quick else 12000) * scale
    n_ops = (500 if quick else 18000) * scale
    yield from ctor_cases()
    # constructor-built trees x enumerated truth assignments
    for n in range(n_trees):
        g = Gen(rng)
        atoms = []
        slots = [0, 1, 2, 3]
        rng.shuffle(slots)
        slots = slots[:rng.choice([1, 2, 3, 4, 4])]
        spec = g.tree(rng.choice([1, 2, 3, 4]), slots, atoms)
        ts = targets_for(atoms, rng)
        for t in ts:
            yield {'spec': spec, 'target': t}
        yield from seq_cases(rng, {'spec': spec}, ts)
    # the same kind of tree written with & | ~
    for n in range(n_ops):
        g = Gen(rng)
        atoms = []
        slots = [0, 1, 2, 3]
        rng.shuffle(slots)
        slots = slots[:rng.choice([1, 2, 3, 4])]
        ops = g.optree(rng.choice([1, 2, 3, 4]), slots, atoms)
        if has_t_operand(ops):
            continue                 # T has its own & | ~ (it records them): that is C02's subject
        if ops_outside(ops)[0]:
            continue                 # `~7`, `int | None`: resolved by Python's own types
        try:
            build_ops(ops)
        except TypeError:
            if rng.random() < 0.8:   # keep some operand pairs without an overload
                continue
        ts = targets_for(atoms, rng, with_faults=rng.random() < 0.3)
        for t in ts:
            yield {'ops': ops, 'target': t}
        if rng.random() < 0.5:
            yield from seq_cases(rng, {'ops': ops}, ts)
    # programs: operands that are objects which exist (and have been evaluated) already
    yield from prog_cases(rng, (300 if quick else 12000) * scale)
    yield from check_cases(rng, (5 if quick else 60) * scale)
    yield from msub_cases(rng, (300 if quick else 6000) * scale)
    yield from scalar_tree_cases(rng, (150 if quick else 4000) * scale)
    yield from type_tree_cases(rng, (60 if quick else 3000) * scale, 12 if quick else 24)
    if quick or focus:
        yield from cmp_cases(rng, 500 * scale)
    else:
        yield from cmp_cases(rng)             # exhaustive: every ordered pair of the pool x 6 operators


def corpus():
    p = os.path.join(os.path.dirname(os.path.dirname(os.path.dirname(os.path.abspath(__file__)))),
                     'corpus', 'C10.jsonl')
    out = []
    if os.path.exists(p):
        for line in open(p):
            if line.strip():
                out.append(json.loads(line))
    return out


def key(case):
    if case.get('prog') is not None:
        return {'prog': case['prog']}
    return {'spec': case.get('spec'), 'ops': case.get('ops'), 'target': case.get('target'),
            'targets': case.get('targets'), 'copy': case.get('copy'), 'world': case.get('world')}


def seq_cases(rng, subject, targets, cap=10):
    """the same spec object on several targets: consecutive calls, and one call over a list"""
    ts = list(targets)
    if len(ts) < 2:
        return
    rng.shuffle(ts)
    ts = ts[:cap]
    yield dict(subject, targets=ts)
    if 'spec' in subject:
        yield {'spec': {'k': 'list', 'cs': [subject['spec']]}, 'target': {'l': ts}}


def _count(j, pred):
    n = 0
    if isinstance(j, dict):
        if pred(j):
            n += 1
        for v in j.values():
            n += _count(v, pred)
    elif isinstance(j, list):
        for v in j:
            n += _count(v, pred)
    return n


def nontrivial(case, verdict):
    if case.get('prog') is not None:
        # an object is evaluated and afterwards used as an operand (or the other way round)
        seen_eval = set()
        for st in case['prog']:
            if 'eval' in st:
                seen_eval.add(st['eval'])
            elif any(_count(st['def'], lambda d, i=i: d.get('use') == i) for i in seen_eval):
                return True
        return False
    j = case.get('ops', case.get('spec'))
    if 'ops' in case and _count(j, lambda d: 'and' in d or 'or' in d) >= 1:
        return True
    if _count(j, lambda d: d.get('k') in ('and', 'or') and len(d.get('cs', [])) >= 2) >= 1:
        return True
    if _count(j, lambda d: d.get('k') == 'switch') >= 1:
        return True
    if _count(j, lambda d: d.get('k') == 'check' and any(d.get(x) is not None for x in
                                                        ('type', 'instance_of', 'equal_to', 'one_of', 'validate'))):
        return True
    return not verdict.get('branch', '').endswith(':pass')


def _renumber(j, k):
    """operator expression after def k was removed (it is not used)"""
    if 'use' in j:
        return {'use': j['use'] - 1 if j['use'] > k else j['use']}
    if 'leaf' in j:
        return j
    if 'inv' in j:
        return {'inv': _renumber(j['inv'], k)}
    kk = 'and' if 'and' in j else 'or'
    return {kk: [_renumber(j[kk][0], k), _renumber(j[kk][1], k)]}


def shrink_prog(prog):
    """shorter programs: cut the tail, drop evaluations, drop unused defs, replace an operator
    by one of its operands"""
    n = len(prog)
    for cut in range(1, n):
        if 'eval' in prog[cut - 1]:
            yield {'prog': prog[:cut]}
    for i in range(n - 1, -1, -1):
        if 'eval' in prog[i] and n > 1:
            yield {'prog': prog[:i] + prog[i + 1:]}
    # def number k at position i, unused by later defs and evaluations
    k = -1
    for i, st in enumerate(prog):
        if 'def' not in st:
            continue
        k += 1
        later = prog[i + 1:]
        used = any(('eval' in x and x['eval'] == k) or
                   ('def' in x and _count(x['def'], lambda d: d.get('use') == k)) for x in later)
        if not used:
            out = prog[:i]
            for x in later:
                if 'eval' in x:
                    out.append(dict(x, eval=x['eval'] - 1 if x['eval'] > k else x['eval']))
                else:
                    out.append({'def': _renumber(x['def'], k)})
            yield {'prog': out}

    def opv(j):
        if 'leaf' in j or 'use' in j:
            return
        if 'inv' in j:
            yield j['inv']
            for v in opv(j['inv']):
                yield {'inv': v}
            return
        kk = 'and' if 'and' in j else 'or'
        a, b = j[kk]
        yield a
        yield b
        for v in opv(a):
            yield {kk: [v, b]}
        for v in opv(b):
            yield {kk: [a, v]}
    for i, st in enumerate(prog):
        if 'def' in st:
            for v in opv(st['def']):
                yield {'prog': prog[:i] + [{'def': v}] + prog[i + 1:]}
    for i, st in enumerate(prog):
        if 'eval' in st and st.get('bare'):
            yield {'prog': prog[:i] + [{k2: v for k2, v in st.items() if k2 != 'bare'}] + prog[i + 1:]}


def shrink(case):
    base = {k: v for k, v in case.items() if not k.startswith('impl') and k != 'copy_used'}
    if base.get('copy') is not None:
        yield {k: v for k, v in base.items() if k != 'copy'}
        if base['copy'] != 'copy':
            yield dict(base, copy='copy')

    def variants(j):
        """smaller versions of a spec json"""
        if not isinstance(j, dict):
            return
        k = j.get('k')
        if k in ('and', 'or'):
            for i in range(len(j['cs'])):
                if len(j['cs']) > 1:
                    yield dict(j, cs=j['cs'][:i] + j['cs'][i + 1:])
                yield j['cs'][i]
                for v in variants(j['cs'][i]):
                    yield dict(j, cs=j['cs'][:i] + [v] + j['cs'][i + 1:])
            if j.get('d') is not None:
                yield dict(j, d=None)
        elif k == 'not':
            yield j['c']
            for v in variants(j['c']):
                yield dict(j, c=v)
        elif k == 'switch':
            for i in range(len(j['cases'])):
                if len(j['cases']) > 1:
                    yield dict(j, cases=j['cases'][:i] + j['cases'][i + 1:])
                a, b = j['cases'][i]
                yield a
                yield b
                for v in variants(a):
                    yield dict(j, cases=j['cases'][:i] + [[v, b]] + j['cases'][i + 1:])
                for v in variants(b):
                    yield dict(j, cases=j['cases'][:i] + [[a, v]] + j['cases'][i + 1:])
            if j.get('d') is not None:
                yield dict(j, d=None)
        elif k == 'list':
            for i in range(len(j['cs'])):
                for v in variants(j['cs'][i]):
                    yield dict(j, cs=j['cs'][:i] + [v] + j['cs'][i + 1:])
        elif k == 'check':
            for f in ('type', 'instance_of', 'equal_to', 'one_of', 'validate', 'd', 'spec'):
                if j.get(f) is not None:
                    yield {x: y for x, y in j.items() if x != f}

    def opvariants(j):
        if 'leaf' in j:
            for v in variants(j['leaf']):
                yield {'leaf': v}
            return
        for k in ('and', 'or'):
            if k in j:
                a, b = j[k]
                yield a
                yield b
                for v in opvariants(a):
                    yield {k: [v, b]}
                for v in opvariants(b):
                    yield {k: [a, v]}
        if 'inv' in j:
            yield j['inv']
            for v in opvariants(j['inv']):
                yield {'inv': v}

    if base.get('prog') is not None:
        yield from shrink_prog(base['prog'])
        return
    if 'targets' in base:
        # fewer calls first, then a smaller spec
        ts = base['targets']
        for i in range(len(ts)):
            if len(ts) > 1:
                yield dict(base, targets=ts[:i] + ts[i + 1:])
    elif isinstance(base.get('target'), dict) and 'l' in base['target'] and \
            isinstance(base.get('spec'), dict) and base['spec'].get('k') == 'list':
        ts = base['target']['l']
        for i in range(len(ts)):
            if len(ts) > 1:
                yield dict(base, target={'l': ts[:i] + ts[i + 1:]})
    if base.get('spec') is not None:
        for v in variants(base['spec']):
            yield dict(base, spec=v)
    else:
        for v in opvariants(base['ops']):
            yield dict(base, ops=v)
            if 'leaf' in v:
                c = {k: x for k, x in base.items() if k != 'ops'}
                c['spec'] = v['leaf']
                yield c
    t = base.get('target')
    if isinstance(t, dict) and 't' in t:
        for i, e in enumerate(t['t']):
            if e != {'i': 0}:
                yield dict(base, target={'t': t['t'][:i] + [{'i': 0}] + t['t'][i + 1:]})
