"""C16 — Group mode: generators, implementation runner, classifier of the known deviations."""
import json
import os
import random
import struct

PROP = 'C16'
LEAN_MODULES = ['Glom.Props.C16']
FACT_FILES = ['GroupFacts', 'c16']
READY = True
MANIFEST = dict(
    text="Lean 4 theorems about a statement-by-statement model of Group mode (Group.glomit, GROUP with its single "
         "accumulator tree keyed by id(spec) / spec objects / bucket keys, the STOP marks and the `done` flag, First, "
         "Max, Min, Avg with its float accumulation, Sum as a left fold over ints and floats, Sample with its random "
         "source as a parameter, Limit at any depth, Fold._agg, Merge._agg, a Fold inside a Fold's subspec, aggregator "
         "CLASSES used as nodes, class objects used as key functions, T-expressions with the arithmetic operators of "
         "_t_eval, floats and tuples as bucket keys): c16_exact — for every spec tree of any depth, every item sequence "
         "and every key function the result is EXACTLY `implTop`: the dictionary of a hand-written bucketing loop over "
         "the items before the first STOP event (keys in order of first occurrence, values in encounter order, SKIP "
         "drops an item, every leaf equal to its plain-Python reference over the items routed to it — well-typedness "
         "is per bucket), and `emptyOf` over nothing, under the hypotheses the proof forces (no bucket key equals "
         "id() of its spec dict; no SKIP from a bare function below a key level).  The REFERENCE of the property "
         "(`valOfTop`) is the hand-written loop on every item list, the empty one included, and knows nothing of what "
         "glom returns over nothing.  Corollaries: c16_eq_reference_partial (no STOP event, nothing evaluated over "
         "nothing: the whole hand-written loop), top-level Limit(n>=1) / First, per-bucket independence, Sample = the "
         "reservoir reference with length / membership bounds.  The full statement is DISPROVED in the model by "
         "`decide` on concrete witnesses (c16_F9_counterexample, c16_F10_counterexample, c16_empty_counterexample), "
         "on which model and real glom agree: genuine deviations of /repo, listed as known findings; c16_exact (F9), "
         "c16_F10_exact (F10) and c16_empty (empty_or_limit0) say exactly what the code computes instead.  State "
         "OUTSIDE the accumulator tree is explicit (Model/C16State.lean): c16_history_independent — for every value "
         "of the extracted state facts that is quiet (only constructors write attributes of the spec objects, no "
         "function writes a module-level name, no mutable module / class binding or default argument) every history "
         "of evaluations leaves the state as it was and each evaluation is the stand-alone one; the facts extracted "
         "from grouping.py and reduction.py are quiet (facts obligation).  T-expression evaluation on a store of "
         "mutable cells never writes an existing cell (c16_texpr_frame) and refines the value-level evaluation.  "
         "Per-run facts obligation: the statements of Group mode AND of the code around it (target_iter, every "
         "constructor, Fold.glomit / _fold) in a normal form equal the statements the model transcribes / assumes, "
         "the method list of the classes, the state facts, every arithmetic arm of _t_eval rebinds `cur`.  Model tied "
         "to the code by differential execution of histories of evaluations, each case in a fresh copy of the process.",
    note="partial: the equality with the hand-written loop needs H1'' (no STOP EVENT under a key level — a STOP from "
         "one bucket's leaf ends the whole evaluation in the code: F9), H2' (the tree mixes namespaces: F10), no SKIP "
         "from a bare function / nested Group below a key level (the sub-tree is wiped: skip_below_key_level) and "
         "nothing evaluated over nothing / Limit(0) (empty_or_limit0).  trusted: Lean kernel + {propext, "
         "Classical.choice, Quot.sound}; extractor; harness/driver; one key-spec per dict level and one value-spec per "
         "list (the documented shape); key/value functions from a finite catalogue (T-expression chains, class "
         "objects, lambdas); IEEE double addition / division / comparison are primitives (Lean Float in the driver, "
         "opaque to the proofs; values compared by bit pattern); Sample's random source is a function of num_seen (a "
         "table; the harness substitutes random.randint by it), which covers every draw sequence of ONE reservoir, "
         "not the joint distribution over several; runs in which a user function raises are outside the property (a "
         "raising run is compared as 'raises': the exception class is reported, not compared).",
    technique='Lean 4 simulation proof (tree-threading interpreter = bucketing loop cut at the first STOP event) + '
              'explicit process-state model discharged from extracted write facts + decide on counterexample '
              'witnesses + facts obligation + differential correspondence over histories',
    ref='DESIGN.md §3 C16')
RULE = ('type-directed: a case is a HISTORY in one (forked, fresh) process: 1-3 Group spec objects, 1-3 target objects '
        'with shared sub-objects (the same item object at several positions / in several targets, a list or dict field '
        'shared by several items), and a list of evaluations (spec i on target j; the same spec object and the same '
        'target object repeatedly, other spec objects in between, both orders; ONE Group object nested in two other '
        'specs of the history and evaluated itself).  Target objects: list, tuple, generator, iterator, range, set, '
        'dict.  Spec trees: 0-3 key levels; key functions T % n, T[k], len, the item itself (ints, floats, tuples as '
        'bucket keys), lambdas incl. SKIP-producing ones, T-expression chains with + * | % on ints, strings, lists, '
        'tuples and dicts (key and leaf computed from the same mutable field), the class objects type / str / bool / '
        'int; leaf = [f] / First / Max / Min / Avg / Sum(f) / Count / Flatten(f) / Merge(f) / Sample(k) / Sum(Sum()) '
        '/ Sum(Count()) / Sum / Flatten / Merge whose subspec is a Group (with Fold-family leaves of its own) / a bare function (SKIP-producing ones included) / a nested Group / an aggregator CLASS used '
        'without instantiation (static or class method agg) / an aggregator class without parentheses; Limit(n) at '
        'the top and below key levels, with and without subspec, n = 0, negative, float.  Observed per evaluation: the '
        'result, the target afterwards (values) and whether every edge of its object graph still points to the same '
        'object.  Item families: ints, bools, strs, small dicts, lists/tuples, numbers (floats, ints beyond 2^53); '
        '0-12 items (the empty target is generated for every spec shape).  A one-edit mutation stream plants a '
        'wrong-typed item / missing key / STOP-producing function / a forgotten pair of parentheses; two separate '
        'streams violate H1 (First / Limit / stop_at under a key level) and H2 (a key function returning id(spec '
        'dict) or the key-spec object) on purpose; thorough additionally enumerates all specs of a small grammar '
        'over fixed item lists and all orders of small histories.  A failing evaluation is classified ON THAT '
        'EVALUATION (Spec `devClass`), and only when the implementation does there exactly what the model of the '
        'current code does.  non-trivial = some evaluated target has >= 2 items; distinct = distinct (specs, '
        'targets, kinds, evals).')
TRUSTED = ['the catalogue of key/value functions (Lean `Fn.apply` vs the Python lambdas / T-expressions / class '
           'objects below) and Python dict / comparison / iteration / str() semantics as modelled in '
           'Glom/Model/C16.lean: validated by the correspondence only',
           'IEEE double +, /, <, == and int->float conversion: Lean Float in the compiled driver (the same C doubles); '
           'a bucket key that is an integral float is the int it equals (below 4e18)',
           'Sample: random.randint is substituted by a table-driven function of its upper bound for the evaluation',
           'the iteration order of a set target is whatever CPython yields: the case lists the items in that order']
ASSUMPTIONS = ['one key-spec per dict level and one value-spec per list level (multi-entry levels, aggregators inside '
               'a list spec — their results alias a mutable accumulator — are outside the model)',
               'object addresses (id()) are larger than every generated int (1e9)',
               'READING (references of the leaves): Sum = the left fold reduce(operator.add, items, init()) (not the '
               'compensated builtin sum() of Python >= 3.12); Avg = the running FLOAT sum s = 0.0; s += x over the '
               'count (ints beyond 2^53 are rounded on the way, not statistics.mean / fsum); Max / Min = the first '
               'extremum of a left fold, numbers with a float among them compared as doubles; over NO items First / '
               'Max / Min / Avg have no Python reference (max([]) raises): None is the reference',
               'READING (bare function / nested Group in value position): its last value that is not SKIP; no such '
               'value: no entry (None at the top)',
               'READING (Limit): Limit(n) compares the int count with n: a negative n is Limit(0), a float n is '
               'Limit(floor(n))',
               'READING (targets): the items of a target are what iter(target) yields (dict: its keys); a generator '
               'target is evaluated once',
               'the same Group object nested INSIDE ITSELF (a cyclic spec) is not generated: specs are trees in the model',
               'runs in which a user function raises are outside the property (compared as "raises")',
               'os.fork is available: every case runs in a fresh copy of a process that has imported glom and '
               'evaluated nothing (VERIF_C16_NOFORK=1 runs in-process)']


# ------------------------------------------------------------------ values
def jv(v):
    if v is None:
        return None
    if isinstance(v, bool):
        return {'b': v}
    if isinstance(v, int):
        return {'i': v}
    if isinstance(v, float):
        return {'fbits': str(struct.unpack('<Q', struct.pack('<d', v))[0])}
    if isinstance(v, str):
        return {'s': v}
    if isinstance(v, list):
        return {'l': [jv(x) for x in v]}
    if isinstance(v, tuple):
        return {'t': [jv(x) for x in v]}
    if isinstance(v, dict):
        return {'d': [[jv(k), jv(x)] for k, x in v.items()]}
    raise ValueError(v)


class Edges:
    """every container -> child edge of the objects built from a case: `check()` says whether each
    still points to the very same object"""
    def __init__(self):
        self.edges = []

    def add(self, container, key, child):
        self.edges.append((container, key, child))

    def check(self):
        for c, k, ch in self.edges:
            try:
                if type(c) is tuple or type(c) is list:
                    if c[k] is not ch:
                        return False
                elif c[k] is not ch:
                    return False
            except Exception:
                return False
        return True


def dec(j, objs=None, shared=None, edges=None):
    from glom import SKIP, STOP
    if j is None:
        return None
    if 'b' in j:
        return j['b']
    if 'i' in j:
        return j['i']
    if 's' in j:
        return j['s']
    if 'fbits' in j:
        return struct.unpack('<d', struct.pack('<Q', int(j['fbits'])))[0]
    if 'sent' in j:
        return SKIP if j['sent'] == 'SKIP' else STOP
    if 'sh' in j:
        return shared[j['sh']]
    if 'l' in j or 't' in j:
        xs = [dec(x, objs, shared, edges) for x in (j['l'] if 'l' in j else j['t'])]
        out = xs if 'l' in j else tuple(xs)
        if edges is not None:
            for i, x in enumerate(xs):
                edges.add(out, i, x)
        return out
    if 'd' in j:
        out = {}
        for k, v in j['d']:
            kk, vv = dec(k, objs, shared, edges), dec(v, objs, shared, edges)
            out[kk] = vv
            if edges is not None:
                edges.add(out, kk, vv)
        return out
    if 'obj' in j:
        return objs[j['obj']]
    if 'id' in j:
        return id(objs[j['id']])
    raise ValueError(j)


CLS_BASE = 1000
# class objects by identity (Lean: `typeObj`): the values `type(x)` returns — and the SAME objects when
# they are used as key functions (`bool`, `int`, `str`, `type`): then the key-spec object of the level
# is that class object (`kid` = its number)
TYPE_OBJS = [type(None), bool, int, str, float, list, tuple, dict, None, type]
CLS_IDX = {'bool': 1, 'int': 2, 'str': 3, 'type': 9}


def enc(v, ids, oids):
    from glom import SKIP, STOP
    if v is None:
        return None
    if v is SKIP:
        return {'sent': 'SKIP'}
    if v is STOP:
        return {'sent': 'STOP'}
    if isinstance(v, bool):
        return {'b': v}
    if isinstance(v, int):
        if v in ids:
            return {'id': ids[v]}
        return {'i': v}
    if isinstance(v, str):
        return {'s': v}
    if isinstance(v, float):
        return {'fbits': str(struct.unpack('<Q', struct.pack('<d', v))[0])}
    if isinstance(v, type) and v in TYPE_OBJS:
        return {'obj': CLS_BASE + TYPE_OBJS.index(v)}
    if id(v) in oids:
        return {'obj': oids[id(v)]}
    if type(v) is list:
        return {'l': [enc(x, ids, oids) for x in v]}
    if type(v) is tuple:
        return {'t': [enc(x, ids, oids) for x in v]}
    if type(v) is dict:
        return {'d': [[enc(k, ids, oids), enc(x, ids, oids)] for k, x in v.items()]}
    return {'s': '<unknown %s>' % type(v).__name__}


def resolve(j, shared_json):
    """the plain value (no {'sh': n}) a target entry denotes"""
    if j is None or not isinstance(j, dict):
        return j
    if 'sh' in j:
        return resolve(shared_json[j['sh']], shared_json)
    if 'l' in j:
        return {'l': [resolve(x, shared_json) for x in j['l']]}
    if 't' in j:
        return {'t': [resolve(x, shared_json) for x in j['t']]}
    if 'd' in j:
        return {'d': [[resolve(k, shared_json), resolve(v, shared_json)] for k, v in j['d']]}
    return j


# ------------------------------------------------------------------ building the real spec
def build_texpr(ops):
    from glom import T
    t = T
    for o in ops:
        k = o['op']
        if k == 'item':
            t = t[dec(o['k'])]
        elif k == 'add':
            t = t + dec(o['v'])
        elif k == 'mul':
            t = t * o['n']
        elif k == 'or':
            t = t | dec(o['v'])
        elif k == 'mod':
            t = t % o['n']
        else:
            raise ValueError(k)
    return t


def build_fn(j, objs):
    from glom import T, SKIP, STOP
    name = j['fn']
    if name == 'ident':
        return T if j.get('style') != 'lambda' else (lambda t: t)
    if name == 'mod':
        return T % j['n']
    if name == 'item':
        return T[dec(j['k'])]
    if name == 'fold_sum':
        from glom.reduction import Sum
        return Sum()            # a Fold inside a Fold's subspec: a plain fold of the item
    if name == 'fold_count':
        from glom.reduction import Count
        return Count()
    if name == 't':
        return build_texpr(j['ops'])
    if name == 'cls':
        return {'type': type, 'str': str, 'bool': bool, 'int': int}[j['c']]
    if name == 'skip_odd':
        return lambda t: SKIP if t % 2 else t
    if name == 'skip_if':
        v = dec(j['v'])
        return lambda t: SKIP if t == v else t
    if name == 'key_skip':
        n = j['n']
        return lambda t: SKIP if t % n == 0 else t % n
    if name == 'stop_at':
        n = j['n']
        return lambda t: STOP if t >= n else t
    if name == 'id_of':
        n = j['n']
        return lambda t: id(objs[n])
    if name == 'id_if':
        v, n = dec(j['v']), j['n']
        return lambda t: id(objs[n]) if t == v else t
    if name == 'obj_if':
        v, n = dec(j['v']), j['n']
        return lambda t: objs[n] if t == v else t
    if name == 'len':
        return len
    if name == 'const':
        v = dec(j['v'])
        return lambda t: v
    raise ValueError(name)


def make_cls_last():
    """a stateless aggregator used as a CLASS ("any object that defines agg(target, accumulator)")"""
    class Last:
        @staticmethod
        def agg(target, tree):
            return target
    return Last


def make_cls_count():
    class Tally:
        @classmethod
        def agg(cls, target, tree):
            tree[cls] = tree.get(cls, 0) + 1
            return tree[cls]
    return Tally


def build_spec(j, objs, pool=None):
    """pool: Group objects by number (`gid`): the same number is the same Group object, wherever it
    occurs (nested in several specs of the history, or evaluated itself)"""
    pool = {} if pool is None else pool
    from glom.grouping import Group, First, Avg, Max, Min, Limit, Sample
    from glom.reduction import Sum, Count, Flatten, Merge
    k = j['k']
    if k == 'dict':
        keyfn = build_fn(j['key'], objs)
        d = {}
        objs[j['id']] = d
        objs[j['kid']] = keyfn
        d[keyfn] = build_spec(j['sub'], objs, pool)
        return d
    if k == 'list':
        l = [build_fn(j['f'], objs)]
        objs[j['id']] = l
        return l
    if k == 'agg':
        a = j['a']
        n = a['agg']
        if n in ('sum', 'flatten', 'merge'):
            f = build_fn(a['f'], objs) if 'f' in a else None
            cls = {'sum': Sum, 'flatten': Flatten, 'merge': Merge}[n]
            o = cls(f) if f is not None else cls()
        elif n == 'sample':
            o = Sample(a['size'])
        elif n == 'cls_last':
            o = make_cls_last()
        elif n == 'cls_count':
            o = make_cls_count()
        elif n == 'unbound':
            o = {'First': First, 'Max': Max, 'Min': Min, 'Avg': Avg}[a.get('of', 'First')]   # parentheses forgotten
        else:
            o = {'first': First, 'max': Max, 'min': Min, 'avg': Avg, 'count': Count}[n]()
        objs[j['oid']] = o
        return o
    if k == 'fn':
        return build_fn(j['f'], objs)
    if k == 'limit':
        if j.get('nosub'):
            o = Limit(j['n'])                       # the default subspec [T]
            objs[j['sub']['id']] = o.subspec
        else:
            o = Limit(j['n'], build_spec(j['sub'], objs, pool))
        objs[j['oid']] = o
        return o
    if k == 'fold_group':
        # Sum / Flatten / Merge whose SUBSPEC is a Group object (of the pool)
        inner = build_spec({'k': 'nested', 'gid': j['gid'], 'g': j['g']}, objs, pool)
        o = {'sum': Sum, 'flatten': Flatten, 'merge': Merge}[j['fold']](inner)
        objs[j['oid']] = o
        return o
    if k in ('nested', 'group_obj'):
        gid = j['gid']
        if gid not in pool:
            inner = {}
            pool[gid] = (Group(build_spec(j['g'], inner, pool)), inner)
        g, inner = pool[gid]
        objs.update(inner)                          # (numbers of pooled Groups are unique in the case)
        return g
    raise ValueError(k)


def exc_class(e):
    for c in type(e).__mro__:
        if not c.__name__.startswith('GlomError.wrap'):
            return c
    return type(e)


def set_tbl(s, tbl):
    """every Sample node of a case draws from the case's one table"""
    if s['k'] == 'agg' and s['a']['agg'] == 'sample':
        s['a']['tbl'] = list(tbl)
    for c in ('sub', 'g'):
        if c in s:
            set_tbl(s[c], tbl)


# ---------------------------------------------------------------------------------------------------
# GATE (clearly marked, to be removed by the lead): two classes of deviation from the hand-written
# loop found by the audit are to become KNOWN FINDINGS.  Until their `known:` lines are in
# KNOWN_FINDINGS.txt the checker ACCEPTS them (the driver gets them in `accept`, counts the cases in
# the histogram branch `…:pending-<class>` and still demands that the implementation does exactly
# what the model of the current code does).  As soon as a line is there the class is no longer
# accepted: its cases fail the checker and are reported as KNOWN-FINDING by the framework.
GATE_PENDING_KNOWN = True
NEW_KNOWN_CLASSES = ('empty_or_limit0', 'skip_below_key_level')
_PENDING = None


def pending_accept():
    global _PENDING
    if _PENDING is None:
        have = set()
        p = os.path.join(os.path.dirname(os.path.dirname(os.path.dirname(os.path.abspath(__file__)))),
                         'KNOWN_FINDINGS.txt')
        try:
            for line in open(p):
                if line.startswith('known:') and 'property=C16' in line:
                    for c in NEW_KNOWN_CLASSES:
                        if 'classifier=' + c in line:
                            have.add(c)
        except OSError:
            pass
        _PENDING = [c for c in NEW_KNOWN_CLASSES if c not in have] if GATE_PENDING_KNOWN else []
    return list(_PENDING)


def normalize(case):
    """the canonical form {'specs', 'shared', 'targets', 'evals', 'rng'}; the earlier form
    {'spec', 'runs'} is one spec object evaluated on each run in turn"""
    c = {k: v for k, v in case.items() if not k.startswith('impl')}
    if 'specs' not in c:
        c['specs'] = [c.pop('spec')]
        c['targets'] = c.pop('runs')
        c['evals'] = [[0, i] for i in range(len(c['targets']))]
    c.setdefault('shared', [])
    c.setdefault('rng', [])
    c.setdefault('tkinds', ['list'] * len(c['targets']))
    c['accept'] = pending_accept()
    c = json.loads(json.dumps(c))
    for s in c['specs']:
        set_tbl(s, c['rng'])
    return c


def _run_here(case):
    import glom
    from glom.grouping import Group
    import random as _random
    tbl = case['rng']

    def table_randint(a, b):
        # random.randint(0, num_seen), as a function of num_seen (Lean: `draw`)
        return (tbl[b % len(tbl)] % (b + 1)) if tbl else 0
    _random.randint = table_randint

    groups, encs, pool = [], [], {}
    for sj in case['specs']:
        objs = {}
        spec = build_spec(sj, objs, pool)
        # ONE Group object per spec for the whole history; a `group_obj` spec IS a pooled Group object
        groups.append(spec if sj['k'] == 'group_obj' else Group(spec))
        ids = {id(o): n for n, o in objs.items() if type(o) in (dict, list)}
        oids = {id(o): n for n, o in objs.items() if type(o) not in (dict, list)}
        encs.append((objs, ids, oids))
    edges = Edges()
    shared = []
    for sj in case['shared']:
        shared.append(dec(sj, None, shared, edges))
    targets = []
    for tj in case['targets']:
        t = []
        for x in tj:
            # {'id': n} / {'obj': n} inside items refer to the first spec's objects
            t.append(dec(x, encs[0][0] if encs else None, shared, edges))
        for i, x in enumerate(t):
            edges.add(t, i, x)
        targets.append(t)
    lens = [len(t) for t in targets]
    # the target OBJECT glom gets: the list itself, or another iterable over the same item objects
    kinds = case.get('tkinds') or ['list'] * len(targets)
    tobjs = []
    for t, kind in zip(targets, kinds):
        if kind == 'list':
            tobjs.append(t)
        elif kind == 'tuple':
            tobjs.append(tuple(t))
        elif kind == 'gen':
            tobjs.append((x for x in t))
        elif kind == 'iter':
            tobjs.append(iter(t))
        elif kind == 'range':
            tobjs.append(range(t[0], t[-1] + 1) if t else range(0))
        elif kind == 'dict':
            tobjs.append(dict.fromkeys(t))
        elif kind == 'set':
            tobjs.append(set(t))
        else:
            raise ValueError(kind)
    out = []
    for si, ti in case['evals']:
        objs, ids, oids = encs[si]
        try:
            r = glom.glom(tobjs[ti], groups[si])
            o = {'ok': enc(r, ids, oids)}
        except Exception as e:
            o = {'err': exc_class(e).__name__}
        # the target afterwards: the items the object yields now (a consumed generator cannot be asked)
        if kinds[ti] in ('gen', 'iter'):
            now = targets[ti]
        else:
            now = list(tobjs[ti])
        o['after'] = [enc(x, {}, {}) for x in now]
        o['ident'] = bool(edges.check() and [len(t) for t in targets] == lens
                          and len(now) == len(targets[ti]) and all(a is b or kinds[ti] == 'range'
                                                                   for a, b in zip(now, targets[ti])))
        out.append(o)
    return out


NOFORK = os.environ.get('VERIF_C16_NOFORK') == '1'
_SERVER = None      # (pid, to_server, from_server)


def _read_exact(f, n):
    buf = b''
    while len(buf) < n:
        chunk = f.read(n - len(buf))
        if not chunk:
            return buf
        buf += chunk
    return buf


def _server_main(rfd, wfd):
    """a small process that has imported glom and evaluates NOTHING itself: it forks one child per
    case (cheap: the server stays small, unlike the check process), the child runs the history"""
    import gc
    rf, wf = os.fdopen(rfd, 'rb'), os.fdopen(wfd, 'wb')
    gc.collect()
    gc.freeze()          # the children share these pages (no copy-on-write by the collector)
    while True:
        hdr = _read_exact(rf, 10)
        if len(hdr) < 10:
            os._exit(0)
        case = json.loads(_read_exact(rf, int(hdr)))
        r, w = os.pipe()
        pid = os.fork()
        if pid == 0:
            try:
                os.close(r)
                try:
                    data = json.dumps({'impl': _run_here(case)})
                except BaseException as e:      # harness bug: reported by the parent
                    data = json.dumps({'crash': repr(e)})
                with os.fdopen(w, 'w') as f:
                    f.write(data)
            finally:
                os._exit(0)
        os.close(w)
        with os.fdopen(r, 'rb') as f:
            out = f.read()
        os.waitpid(pid, 0)
        wf.write(b'%010d' % len(out))
        wf.write(out)
        wf.flush()


def _stop_server():
    global _SERVER
    if _SERVER is not None:
        pid, tx_, rx_ = _SERVER
        _SERVER = None
        for f in (tx_, rx_):
            try:
                f.close()
            except OSError:
                pass
        try:
            os.killpg(pid, 9)           # the server and a child that may still be running
        except OSError:
            pass
        try:
            os.waitpid(pid, 0)
        except OSError:
            pass


def _start_server():
    global _SERVER
    import atexit
    p2s_r, p2s_w = os.pipe()
    s2p_r, s2p_w = os.pipe()
    pid = os.fork()
    if pid == 0:
        try:
            os.setsid()
            os.close(p2s_w)
            os.close(s2p_r)
            _server_main(p2s_r, s2p_w)
        finally:
            os._exit(0)
    os.close(p2s_r)
    os.close(s2p_w)
    _SERVER = (pid, os.fdopen(p2s_w, 'wb'), os.fdopen(s2p_r, 'rb'))
    atexit.register(_stop_server)


def run_impl(case):
    """every case is a history that runs in a FRESH copy of a process that has imported glom and
    evaluated nothing (a fork server forks one child per case), so what a case observes never depends
    on the cases before it (module-level tables, caches) and a stored case replays exactly"""
    import glom  # noqa: F401  (this process imports, never evaluates)
    import glom.grouping  # noqa: F401
    import glom.reduction  # noqa: F401
    c = normalize(case)
    if NOFORK or not hasattr(os, 'fork'):
        c['impl'] = _run_here(c)
        return c
    if _SERVER is None:
        _start_server()
    _, to_server, from_server = _SERVER
    data = json.dumps(c).encode()
    done = False
    try:
        to_server.write(b'%010d' % len(data))
        to_server.write(data)
        to_server.flush()
        hdr = _read_exact(from_server, 10)
        out = _read_exact(from_server, int(hdr)) if len(hdr) == 10 else b''
        done = len(hdr) == 10
    finally:
        if not done:                    # the framework's per-case budget fired (the child hangs), or the server died
            _stop_server()
    if not done:
        raise RuntimeError('the fork server died')
    res = json.loads(out)
    if 'crash' in res:
        raise RuntimeError(res['crash'])
    c['impl'] = res['impl']
    return c


# ------------------------------------------------------------------ generators
class Ctr:
    def __init__(self, start=0):
        self.n = start

    def next(self):
        self.n += 1
        return self.n - 1


def fn(name, **kw):
    d = {'fn': name}
    d.update(kw)
    return d


def tx(*ops):
    return {'fn': 't', 'ops': list(ops)}


def o_item(k):
    return {'op': 'item', 'k': jv(k)}


def o_add(v):
    return {'op': 'add', 'v': jv(v)}


def o_mul(n):
    return {'op': 'mul', 'n': n}


def o_or(v):
    return {'op': 'or', 'v': jv(v)}


def o_mod(n):
    return {'op': 'mod', 'n': n}


def cls(c):
    return {'fn': 'cls', 'c': c}


# T-expression chains per item family; the mutable operands are lists (w), dicts (m) and list items
T_KEYS = {
    'int': lambda r: r.choice([tx(o_add(1), o_mod(2)), tx(o_mul(2), o_mod(3)), tx(o_add(1)), tx(o_mul(0)),
                               tx(o_mul(-1)), tx(o_add(True), o_mod(3))]),
    'rec': lambda r: r.choice([tx(o_item('a'), o_add(1)), tx(o_item('b'), o_add('s')), tx(o_item('b'), o_mul(2)),
                               tx(o_item('w'), o_add([7]), o_item(0)), tx(o_item('w'), o_mul(2), o_item(-1)),
                               tx(o_item('w'), o_add([0, 1]), o_item(-2)),
                               tx(o_item('m'), o_or({'zz': 5}), o_item('zz')), tx(o_or({'g': 'all'}), o_item('g')),
                               tx(o_item('a'), o_mod(2))]),
    'seq': lambda r: r.choice([tx(o_add([0]), o_item(0)), tx(o_mul(2), o_item(0)), tx(o_item(0), o_add(1)),
                               tx(o_item(0), o_mod(2)), tx(o_add([3, 4]), o_item(-2)), tx(o_mul(2), o_item(-1))]),
}
T_VALS = {
    'int': lambda r: r.choice([tx(o_add(1)), tx(o_mul(2)), tx(o_mul(3), o_add(1)), tx(o_mod(3))]),
    'rec': lambda r: r.choice([tx(o_item('w'), o_add([9])), tx(o_item('w'), o_mul(2)), tx(o_item('m'), o_or({'z': 1})),
                               tx(o_or({'zz': 0})), tx(o_item('w')), tx(o_item('w'), o_add([1]), o_add([2])),
                               tx(o_item('b'), o_add('!')), tx(o_item('v'), o_mul(2)),
                               tx(o_item('m'), o_or({'p': 7}), o_or({'q': 8}))]),
    'seq': lambda r: r.choice([tx(o_add([9])), tx(o_mul(2)), tx(o_add([1]), o_mul(2)), tx(o_mul(0)),
                               tx(o_add([8]), o_item(-1))]),
}
T_FLAT = {
    'rec': lambda r: r.choice([tx(o_item('w'), o_add([5])), tx(o_item('w'), o_mul(2)), tx(o_item('w'))]),
    'seq': lambda r: r.choice([tx(o_add([1])), tx(o_mul(2)), tx(o_add([]))]),
}
T_MERGE = {'rec': lambda r: r.choice([tx(o_item('m'), o_or({'r': 5})), tx(o_item('m')), tx(o_or({'zz': 1}))])}
T_SUM = {
    'int': lambda r: r.choice([tx(o_add(1)), tx(o_mul(3))]),
    'rec': lambda r: r.choice([tx(o_item('v'), o_add(1)), tx(o_item('v'), o_mul(2)), tx(o_item('a'))]),
    'seq': lambda r: r.choice([tx(o_item(0)), tx(o_item(0), o_add(1))]),
}
CLS_KEYS = {'int': ['type', 'str', 'bool', 'int'], 'rec': ['type', 'bool', 'str'], 'seq': ['type', 'bool', 'str'],
            'num': ['type', 'bool']}


def key_fn(rng, fam, bias=None):
    """bias: 'tarith' / 'clsobj' force that class of key function"""
    c = rng.random()
    if fam == 'num':
        # numbers incl. floats and ints beyond 2^53: key functions that do no arithmetic
        # … and the numbers themselves as bucket keys (1 == 1.0 == True: one bucket)
        return rng.choice([cls('type'), cls('bool'), fn('ident'), fn('ident'), fn('const', v=jv(rng.choice(['k', 0]))),
                           fn('skip_if', v=jv(1))])
    if bias == 'tarith' or (bias is None and c < 0.1):
        return T_KEYS[fam](rng)
    if bias == 'clsobj' or (bias is None and c < 0.18):
        return cls(rng.choice(CLS_KEYS[fam]))
    if fam == 'int':
        c = rng.random()
        if c < 0.5:
            return fn('mod', n=rng.choice([2, 2, 3, 4, 1]))
        if c < 0.62:
            return fn('key_skip', n=rng.choice([2, 3]))
        if c < 0.72:
            return fn('skip_odd')
        if c < 0.82:
            return fn('skip_if', v=jv(rng.choice([0, 1, 2, 3])))
        if c < 0.92:
            return fn('ident', style=rng.choice(['T', 'lambda']))
        return fn('const', v=jv(rng.choice(['k', 0, None, True])))
    if fam == 'rec':
        return fn('item', k=jv(rng.choice(['g', 'g', 'a', 'b'])))
    # (the item itself as key: a tuple is a bucket key, a list is unhashable)
    return rng.choice([fn('len'), fn('item', k=jv(0)), fn('item', k=jv(-1)), fn('len'), fn('ident')])


def val_fn(rng, fam, bias=None):
    c = rng.random()
    if fam == 'num':
        return rng.choice([fn('ident'), fn('ident', style='lambda'), cls('type'), cls('bool'), fn('skip_if', v=jv(1))])
    if bias == 'tarith' or (bias is None and c < 0.14):
        return T_VALS[fam](rng)
    if bias == 'clsobj' or (bias is None and c < 0.2):
        return cls(rng.choice(CLS_KEYS[fam]))
    if fam == 'int':
        return rng.choice([fn('ident'), fn('ident', style='lambda'), fn('skip_odd'), fn('mod', n=3),
                           fn('skip_if', v=jv(rng.choice([1, 2]))), fn('ident')])
    if fam == 'rec':
        return rng.choice([fn('ident'), fn('item', k=jv('v')), fn('item', k=jv('a')), fn('item', k=jv('w'))])
    return rng.choice([fn('ident'), fn('len'), fn('item', k=jv(0))])


def agg_choice(rng, fam, bias=None):
    ta = bias == 'tarith' or (bias is None and rng.random() < 0.15)
    if bias == 'clsobj' or (bias is None and rng.random() < 0.08):
        return rng.choice([{'agg': 'cls_last'}, {'agg': 'cls_count'}, {'agg': 'cls_last'}])
    if rng.random() < 0.07:
        return {'agg': 'sample', 'size': rng.choice([0, 1, 2, 2, 3]), 'tbl': []}
    if fam == 'num':
        return rng.choice([{'agg': 'avg'}, {'agg': 'avg'}, {'agg': 'sum'}, {'agg': 'sum', 'f': fn('ident')}, {'agg': 'max'},
                           {'agg': 'min'}, {'agg': 'count'}, {'agg': 'first'}, {'agg': 'cls_last'}])
    if fam == 'int':
        if ta:
            return {'agg': 'sum', 'f': T_SUM['int'](rng)}
        return rng.choice([{'agg': 'first'}, {'agg': 'max'}, {'agg': 'min'}, {'agg': 'avg'}, {'agg': 'count'},
                           {'agg': 'sum', 'f': fn('ident')}, {'agg': 'sum'}, {'agg': 'sum', 'f': fn('mod', n=3)},
                           {'agg': 'max'}, {'agg': 'avg'}])
    if fam == 'rec':
        if ta:
            return rng.choice([{'agg': 'flatten', 'f': T_FLAT['rec'](rng)}, {'agg': 'merge', 'f': T_MERGE['rec'](rng)},
                               {'agg': 'sum', 'f': T_SUM['rec'](rng)}, {'agg': 'flatten', 'f': T_FLAT['rec'](rng)}])
        return rng.choice([{'agg': 'first'}, {'agg': 'count'}, {'agg': 'sum', 'f': fn('item', k=jv('v'))},
                           {'agg': 'flatten', 'f': fn('item', k=jv('w'))}, {'agg': 'merge', 'f': fn('item', k=jv('m'))},
                           {'agg': 'merge'}, {'agg': 'flatten', 'f': fn('ident')}])
    if ta:
        return rng.choice([{'agg': 'flatten', 'f': T_FLAT['seq'](rng)}, {'agg': 'sum', 'f': T_SUM['seq'](rng)}])
    return rng.choice([{'agg': 'first'}, {'agg': 'count'}, {'agg': 'flatten'}, {'agg': 'flatten', 'f': fn('ident')},
                       {'agg': 'sum', 'f': fn('len')}, {'agg': 'count'}, {'agg': 'sum', 'f': fn('fold_sum')},
                       {'agg': 'sum', 'f': fn('fold_count')}])


GID = [0]      # Group object numbers (unique in a case: reset by gen_case)


def mk_nested(inner):
    GID[0] += 1
    return {'k': 'nested', 'gid': GID[0], 'g': inner}


def leaf(rng, fam, ctr, allow_nested=True, bias=None):
    c = rng.random()
    if c < 0.32:
        return {'k': 'list', 'id': ctr.next(), 'f': val_fn(rng, fam, bias)}
    if c < 0.9:
        return {'k': 'agg', 'oid': ctr.next(), 'a': agg_choice(rng, fam, bias)}
    if fam == 'seq' and allow_nested and rng.random() < 0.35:
        inner = gen_spec(rng, 'int', ctr, rng.choice([0, 0, 1]), allow_nested=False)
        return mk_nested(inner)
    if c < 0.96 or fam != 'seq' or not allow_nested:
        # a bare function in value position — SKIP-producing ones included
        return {'k': 'fn', 'f': val_fn(rng, fam, bias)}
    inner = gen_spec(rng, 'int', ctr, rng.choice([0, 0, 1]), allow_nested=False)
    return mk_nested(inner)


def gen_spec(rng, fam, ctr, depth, allow_nested=True, bias=None):
    """bias is applied at ONE randomly chosen position (a key level or the leaf) — every position is hit"""
    pos = rng.randint(0, depth) if bias else None
    return _gen_spec(rng, fam, ctr, depth, allow_nested, bias, pos)


def _gen_spec(rng, fam, ctr, depth, allow_nested, bias, pos):
    if depth == 0:
        return leaf(rng, fam, ctr, allow_nested, bias if pos == 0 else None)
    key = key_fn(rng, fam, bias if pos == depth else None)
    return mk_dict(ctr, key, _gen_spec(rng, fam, ctr, depth - 1, allow_nested, bias, pos))


def stop_free_leaf(s, no_avg=False):
    """replace STOP sources inside (for the main stream below key levels)"""
    if s['k'] == 'agg' and s['a']['agg'] == 'first':
        s['a'] = {'agg': 'count'}
    if no_avg and s['k'] == 'agg' and s['a']['agg'] == 'avg':
        s['a'] = {'agg': 'sum'}      # Avg's [sum, count] is modelled with an exact int sum (visible only in corrupted trees)
    if no_avg and s['k'] == 'agg' and s['a']['agg'] == 'sample':
        s['a'] = {'agg': 'count'}
    if s['k'] in ('dict', 'limit'):
        stop_free_leaf(s['sub'], no_avg)
    return s


NUM_FLOATS = [0.1, 0.1, 2.5, -1.5, 0.0, 3.0, 1e16, 0.3]
NUM_BIG = [2 ** 53, 2 ** 53 + 1, 2 ** 53 + 3, 2 ** 60 + 129, -(2 ** 53) - 1]


def gen_item(rng, fam, numkind=None):
    if fam == 'num':
        c = rng.random()
        if c < 0.45:
            return jv(rng.randint(-3, 12))
        if c < 0.5:
            return jv(rng.choice([True, False]))
        # one target holds floats OR ints beyond 2^53, not both (Max / Min compare as doubles)
        return jv(rng.choice(NUM_FLOATS if numkind == 'float' else NUM_BIG))
    if fam == 'int':
        return jv(rng.choice([True, False]) if rng.random() < 0.06 else rng.randint(-3, 12))
    if fam == 'rec':
        return jv({'g': rng.choice(['x', 'y', 'z', 0, 1]), 'a': rng.randint(0, 3), 'b': rng.choice(['p', 'q']),
                   'v': rng.randint(-5, 20), 'w': [rng.randint(0, 9) for _ in range(rng.choice([0, 1, 2]))],
                   'm': {rng.choice(['p', 'q', 'r']): rng.randint(0, 9) for _ in range(rng.choice([0, 1, 2]))}})
    xs = [rng.randint(0, 9) for _ in range(rng.choice([0, 1, 2, 3]))]
    return jv(xs if rng.random() < 0.7 else tuple(xs))


def gen_items(rng, fam, n=None):
    n = rng.choice([0, 1, 2, 3, 4, 5, 6, 8, 12]) if n is None else n
    numkind = rng.choice(['float', 'float', 'big'])
    return [gen_item(rng, fam, numkind) for _ in range(n)]


def add_sharing(rng, fam, targets, shared, force=False):
    """the same item object at several positions (of one or several targets); a list / dict field
    shared by several items"""
    if fam in ('int', 'num') or not (force or rng.random() < 0.3):
        return
    places = [(ti, i) for ti, t in enumerate(targets) for i in range(len(t)) if 'sh' not in (t[i] or {})]
    for _ in range(rng.choice([1, 1, 2])):
        if not places:
            return
        ti, i = rng.choice(places)
        c = rng.random()
        if c < 0.6 or fam == 'seq':
            # the whole item becomes a shared object that occurs again
            shared.append(targets[ti][i])
            ref = {'sh': len(shared) - 1}
            targets[ti][i] = ref
            for _ in range(rng.choice([1, 1, 2])):
                tj = rng.randrange(len(targets))
                targets[tj].insert(rng.randint(0, len(targets[tj])), dict(ref))
        else:
            # a field of a record is shared with another record
            it = targets[ti][i]
            fld = rng.choice(['w', 'm'])
            if not (isinstance(it, dict) and 'd' in it):
                continue
            ent = next((e for e in it['d'] if e[0] == jv(fld)), None)
            others = [(tj, j) for (tj, j) in places if (tj, j) != (ti, i) and 'd' in (targets[tj][j] or {})]
            if ent is None or not others or 'sh' in (ent[1] or {}):
                continue
            shared.append(ent[1])
            ref = {'sh': len(shared) - 1}
            ent[1] = ref
            for tj, j in rng.sample(others, min(len(others), rng.choice([1, 2]))):
                for e in targets[tj][j]['d']:
                    if e[0] == jv(fld):
                        e[1] = dict(ref)
        places = [(ti, i) for ti, t in enumerate(targets) for i in range(len(t)) if 'sh' not in (t[i] or {})]


def set_key(d, key, ctr):
    """the key function of a dict level; its key-spec object number: a class object is itself"""
    d['key'] = key
    if key['fn'] == 'cls':
        d['kid'] = CLS_BASE + CLS_IDX[key['c']]
    elif d.get('kid', CLS_BASE) >= CLS_BASE:
        d['kid'] = ctr.next()
    return d


def mk_dict(ctr, key, sub):
    return set_key({'k': 'dict', 'id': ctr.next(), 'sub': sub}, key, ctr)


def first_dict(s):
    while s['k'] in ('limit',):
        s = s['sub']
    return s if s['k'] == 'dict' else None


def deepest_sub_holder(s):
    """the innermost dict node (its 'sub' is the leaf)"""
    d = first_dict(s)
    if d is None:
        return None
    while d['sub']['k'] == 'dict':
        d = d['sub']
    return d


STREAMS = ['main', 'toplimit', 'mutate', 'h1', 'h2', 'hist', 'tarith', 'quiet', 'sgroup', 'foldgroup']
WEIGHTS = [0.34, 0.08, 0.10, 0.10, 0.08, 0.09, 0.09, 0.04, 0.03, 0.05]


def gen_shared_group(rng):
    """ONE Group object (number 1) nested in two other specs of the history AND evaluated itself"""
    inner = gen_spec(rng, 'int', Ctr(500), rng.choice([0, 0, 1]), allow_nested=False)
    d = first_dict(inner)
    if d is not None:
        stop_free_leaf(d['sub'])

    def nested():
        return {'k': 'nested', 'gid': 1, 'g': json.loads(json.dumps(inner))}
    ca, cb = Ctr(), Ctr(100)
    sa = mk_dict(ca, rng.choice([fn('len'), cls('type'), fn('item', k=jv(0))]), nested()) if rng.random() < 0.7 else nested()
    sb = mk_dict(cb, rng.choice([fn('len'), cls('bool')]), mk_dict(cb, fn('len'), nested())) if rng.random() < 0.5 \
        else mk_dict(cb, fn('len'), nested())
    sc = {'k': 'group_obj', 'gid': 1, 'g': json.loads(json.dumps(inner))}
    specs = [sa, sb, sc]
    targets = [gen_items(rng, 'seq'), gen_items(rng, 'int'), gen_items(rng, 'seq')]
    evals = [[0, 0], [1, 0], [2, 1], [0, 2], [2, 1], [1, 2]]
    rng.shuffle(evals)
    evals = evals[:rng.choice([3, 4, 6])]
    tbl = [rng.randint(0, 20) for _ in range(3)]
    case = {'specs': specs, 'shared': [], 'targets': targets, 'evals': evals, 'rng': tbl, 'stream': 'sgroup'}
    for sp in specs:
        set_tbl(sp, tbl)
    return case


def gen_fold_group(rng):
    """a Group nested as the SUBSPEC of a Fold-family leaf (Sum / Flatten / Merge) of an outer Group: every
    Fold-family leaf x inner Group shapes (Fold-family leaves of their own included), at the top and below key
    levels; the inner Group object is also evaluated itself, before and after"""
    kind = rng.choice(['sum', 'flatten', 'merge'])
    ci = Ctr(500)
    deep = False

    def agg(a):
        return {'k': 'agg', 'oid': ci.next(), 'a': a}
    if kind == 'sum':        # the inner result is a number
        inner = rng.choice([lambda: agg({'agg': 'count'}), lambda: agg({'agg': 'sum'}), lambda: agg({'agg': 'sum', 'f': fn('mod', n=3)}),
                            lambda: agg({'agg': 'max'}), lambda: agg({'agg': 'cls_count'}), lambda: agg({'agg': 'avg'}),
                            lambda: {'k': 'limit', 'oid': ci.next(), 'n': 9, 'sub': agg({'agg': 'count'})}])()
    elif kind == 'merge':    # … a dict
        lf = rng.choice([lambda: agg({'agg': 'sum'}), lambda: agg({'agg': 'count'}), lambda: agg({'agg': 'max'}),
                         lambda: {'k': 'list', 'id': ci.next(), 'f': fn('ident')}, lambda: agg({'agg': 'sum', 'f': fn('mod', n=3)})])()
        inner = mk_dict(ci, rng.choice([fn('mod', n=2), fn('mod', n=3), cls('bool'), fn('key_skip', n=2)]), lf)
    else:                    # … a list
        c = rng.random()
        if c < 0.45:
            deep = True      # items are lists of lists: Flatten(Group(Flatten()))
            inner = agg(rng.choice([{'agg': 'flatten'}, {'agg': 'flatten', 'f': fn('ident')}]))
        elif c < 0.8:
            inner = {'k': 'list', 'id': ci.next(), 'f': rng.choice([fn('ident'), fn('mod', n=2), fn('skip_odd')])}
        else:
            inner = agg({'agg': 'sample', 'size': 2, 'tbl': []})
    co = Ctr()
    leaf = {'k': 'fold_group', 'oid': co.next(), 'fold': kind, 'gid': 1, 'g': inner}
    spec = leaf
    for _ in range(rng.choice([0, 1, 1, 2])):
        spec = mk_dict(co, rng.choice([fn('len'), cls('type'), cls('bool'), fn('len')]), spec)
    if rng.random() < 0.2:
        spec = {'k': 'limit', 'oid': co.next(), 'n': rng.choice([2, 3, 9]), 'sub': spec}

    def batch():
        n = rng.choice([1, 2, 3, 4, 2, 3, 0])
        if deep:
            return jv([[rng.randint(0, 9) for _ in range(rng.choice([0, 1, 2]))] for _ in range(n)])
        xs = [rng.randint(0, 9) for _ in range(n)]
        return jv(xs if rng.random() < 0.8 else tuple(xs))
    batches = [batch() for _ in range(rng.choice([0, 1, 2, 3, 4, 6]))]
    specs = [spec, {'k': 'group_obj', 'gid': 1, 'g': json.loads(json.dumps(inner))}]
    own = [b for b in batches if 'l' in b] or [jv([1, 2, 3])]
    targets = [batches, json.loads(json.dumps(rng.choice(own)['l']))]
    evals = rng.choice([[[0, 0]], [[1, 1], [0, 0], [1, 1]], [[0, 0], [1, 1], [0, 0]], [[0, 0], [0, 0]]])
    tbl = [rng.randint(0, 20) for _ in range(3)]
    case = {'specs': specs, 'shared': [], 'targets': targets, 'evals': evals, 'rng': tbl, 'stream': 'foldgroup'}
    for sp in specs:
        set_tbl(sp, tbl)
    return case


def limits_of(s):
    out = []
    while True:
        if s['k'] == 'limit':
            out.append(s)
        if s['k'] in ('dict', 'limit'):
            s = s['sub']
        elif s['k'] in ('nested', 'group_obj', 'fold_group'):
            s = s['g']
        else:
            return out


def vary_limits(rng, spec):
    """Limit(n) without a subspec (the default [T]); a negative bound (nothing passes, like 0); a float
    bound (`count > n`: like its floor)"""
    for lm in limits_of(spec):
        c = rng.random()
        if c < 0.25 and isinstance(lm['n'], int):
            lm['n'] = lm['n'] + 0.5
        elif c < 0.35:
            lm['n'] = rng.choice([-1, -3, 0])
        if lm['sub']['k'] == 'list' and lm['sub']['f'] == fn('ident') and rng.random() < 0.6:
            lm['nosub'] = True


def vary_targets(rng, fam, targets, evals, shared):
    """the target OBJECT: not only lists (the Group docstring uses range(10))"""
    kinds = ['list'] * len(targets)
    if shared:
        return kinds
    uses = [sum(1 for _, t in evals if t == i) for i in range(len(targets))]
    for i, t in enumerate(targets):
        if rng.random() >= 0.22:
            continue
        opts = ['tuple', 'tuple']
        if uses[i] <= 1:
            opts += ['gen', 'iter', 'gen']
        ints = [x['i'] for x in t if isinstance(x, dict) and 'i' in x]
        if fam in ('int', 'num') and len(ints) == len(t):
            opts += ['range', 'set', 'dict', 'dict']
        k = rng.choice(opts)
        if k == 'range':
            a = rng.randint(-2, 3)
            targets[i] = [jv(a + j) for j in range(len(t))]
        elif k == 'set':
            order = list(set(ints))                          # the set's own iteration order: a fixpoint,
            for _ in range(6):                               # since the harness builds set(<these items>)
                nxt = list(set(order))
                if nxt == order:
                    break
                order = nxt
            else:
                k = 'tuple'
            targets[i] = [jv(x) for x in order] if k == 'set' else targets[i]
        elif k == 'dict':
            targets[i] = [jv(x) for x in dict.fromkeys(ints)]
        kinds[i] = k
    return kinds


def gen_case(rng, tier, stream=None):
    ctr = Ctr()
    GID[0] = 1
    fam = rng.choice(['int', 'int', 'int', 'rec', 'rec', 'seq', 'num'])
    st = stream or rng.choices(STREAMS, WEIGHTS)[0]
    if st == 'sgroup':
        return gen_shared_group(rng)
    if st == 'foldgroup':
        return gen_fold_group(rng)
    if fam == 'num' and st in ('tarith', 'h2', 'quiet', 'mutate'):
        fam = 'int'
    if st == 'tarith' and fam == 'int' and rng.random() < 0.8:
        fam = rng.choice(['rec', 'rec', 'seq'])
    depth = rng.choice([0, 1, 1, 1, 2, 2, 3])
    bias = {'tarith': 'tarith', 'hist': rng.choice(['clsobj', 'clsobj', None])}.get(st)
    spec = gen_spec(rng, fam, ctr, depth, bias=bias)
    if st != 'h1':
        d = first_dict(spec)
        if d is not None:
            stop_free_leaf(d['sub'], st == 'h2')
        if st == 'h2':
            stop_free_leaf(spec, True)
    if st == 'toplimit' or (st == 'main' and rng.random() < 0.1):
        spec = {'k': 'limit', 'oid': ctr.next(), 'n': rng.choice([0, 1, 2, 3, 3, 5, 8]), 'sub': spec}
    targets = [gen_items(rng, fam) for _ in range(rng.choice([1, 1, 2, 3]))]
    specs = [spec]
    if st == 'quiet':
        # STOP sources that do not fire: Limit(n) below the key levels with n above every bucket size,
        # First under a key function that gives every item its own bucket
        d = deepest_sub_holder(spec)
        if d is not None:
            if rng.random() < 0.6:
                d['sub'] = {'k': 'limit', 'oid': ctr.next(), 'n': rng.choice([12, 13, 40]), 'sub': d['sub']}
            elif fam == 'int':
                set_key(d, fn('ident'), ctr)
                d['sub'] = {'k': 'agg', 'oid': ctr.next(), 'a': {'agg': 'first'}}
                targets = [sorted({json.dumps(x) for x in t if x is not None and 'i' in x}) for t in targets]
                targets = [[json.loads(x) for x in t] for t in targets]
                for t in targets:
                    rng.shuffle(t)
    if st == 'mutate':
        m = rng.random()
        r = rng.choice(targets)
        if m < 0.35 and r:
            r.insert(rng.randint(0, len(r)), jv(rng.choice(['zz', None, [1], {'q': 1}, 3])))
        elif m < 0.5:
            d = deepest_sub_holder(spec)
            if d is not None and d['sub']['k'] == 'list':
                d['sub']['f'] = fn('stop_at', n=rng.choice([2, 5]))
            elif spec['k'] == 'list':
                spec['f'] = fn('stop_at', n=rng.choice([2, 5]))
        elif m < 0.65:
            d = first_dict(spec)
            if d is not None:
                set_key(d, fn('item', k=jv('nope')), ctr)
        elif m < 0.8:
            d = first_dict(spec)
            if d is not None:
                set_key(d, fn('stop_at', n=rng.choice([3, 6])), ctr)
        else:
            # the parentheses of an aggregator were forgotten: the CLASS is the leaf
            lf = {'k': 'agg', 'oid': ctr.next(), 'a': {'agg': 'unbound', 'of': rng.choice(['First', 'Max', 'Min', 'Avg'])}}
            d = deepest_sub_holder(spec)
            if d is not None:
                d['sub'] = lf
            else:
                spec = lf
                specs = [spec]
    if st == 'h1':
        d = deepest_sub_holder(spec)
        if d is None:
            spec = mk_dict(ctr, key_fn(rng, fam), spec)
            specs = [spec]
            d = spec
        c = rng.random()
        if c < 0.5:
            d['sub'] = {'k': 'agg', 'oid': ctr.next(), 'a': {'agg': 'first'}}
        elif c < 0.8:
            d['sub'] = {'k': 'limit', 'oid': ctr.next(), 'n': rng.choice([0, 1, 2, 3]),
                        'sub': {'k': 'list', 'id': ctr.next(), 'f': fn('ident')}}
        else:
            d['sub'] = {'k': 'list', 'id': ctr.next(), 'f': fn('stop_at', n=rng.choice([3, 6]))}
            if fam != 'int':
                d['sub'] = {'k': 'agg', 'oid': ctr.next(), 'a': {'agg': 'first'}}
    if st == 'h2':
        d = first_dict(spec)
        if d is None:
            spec = mk_dict(ctr, key_fn(rng, fam), spec)
            specs = [spec]
            d = spec
        tgt = d if rng.random() < 0.7 else deepest_sub_holder(spec)
        probe = None
        for r in targets:
            if r:
                probe = rng.choice(r)
        c = rng.random()
        scalar = isinstance(probe, dict) and ('i' in probe or 'b' in probe or 's' in probe)
        set_key(tgt, fn('ident'), ctr)      # (a class object as key function gives its number back)
        if c < 0.6 and scalar:
            tgt['key'] = fn('id_if', v=probe, n=tgt['id'])
        elif c < 0.75:
            tgt['key'] = fn('id_of', n=tgt['id'])
        elif c < 0.9 and scalar:
            tgt['key'] = fn('obj_if', v=probe, n=tgt['kid'])
        else:
            # the id of ANOTHER container (harmless) or of the leaf list
            other = tgt['sub'].get('id', tgt['id'])
            tgt['key'] = fn('id_if', v=probe if scalar else jv(1), n=other)
    # ---- the history
    shared = []
    if st != 'h2':
        add_sharing(rng, fam, targets, shared, force=(st == 'tarith' and rng.random() < 0.7))
    evals = [[0, i] for i in range(len(targets))]
    if st == 'hist':
        # further spec objects (each with its own counter space), evaluated in between, in every order
        for _ in range(rng.choice([1, 1, 2])):
            c2 = Ctr()
            s2 = gen_spec(rng, fam, c2, rng.choice([0, 1, 1, 2]), bias=rng.choice(['clsobj', 'clsobj', None]))
            d = first_dict(s2)
            if d is not None:
                stop_free_leaf(d['sub'])
            specs.append(s2)
        evals = [[si, rng.randrange(len(targets))] for si in range(len(specs))]
        for _ in range(rng.choice([0, 1, 2, 3])):
            evals.append([rng.randrange(len(specs)), rng.randrange(len(targets))])
        rng.shuffle(evals)
    elif st != 'h2' and rng.random() < (0.8 if st == 'tarith' else 0.3):
        # the same spec object over the same target object again
        for _ in range(rng.choice([1, 1, 2])):
            evals.insert(rng.randint(0, len(evals)), [0, rng.randrange(len(targets))])
    tbl = [rng.randint(0, 20) for _ in range(rng.choice([1, 3, 5, 7]))] if rng.random() < 0.9 else []
    if st != 'h2':
        for sp in specs:
            vary_limits(rng, sp)
    kinds = vary_targets(rng, fam, targets, evals, shared) if st not in ('h2', 'mutate') else ['list'] * len(targets)
    case = {'specs': specs, 'shared': shared, 'targets': targets, 'tkinds': kinds, 'evals': evals, 'rng': tbl,
            'stream': st}
    for s in specs:
        set_tbl(s, tbl)
    return case


def generate(rng, tier, scale, stream=None, **focus):
    n = (1500 if tier == 'quick' else 40000) * scale
    for _ in range(n):
        yield gen_case(rng, tier, stream)
    if tier == 'thorough' and not stream:
        yield from exhaustive()
        yield from exhaustive_histories()


def exhaustive():
    """every spec of a small grammar (<= 2 key levels) over fixed int item lists, evaluated twice"""
    keyfns = [fn('mod', n=2), fn('mod', n=3), fn('key_skip', n=2), fn('skip_odd'), fn('const', v=jv('k')),
              cls('bool'), tx(o_add(1), o_mod(2))]
    leaves = [lambda c: {'k': 'list', 'id': c.next(), 'f': fn('ident')},
              lambda c: {'k': 'list', 'id': c.next(), 'f': fn('skip_odd')},
              lambda c: {'k': 'fn', 'f': fn('ident')},
              lambda c: {'k': 'limit', 'oid': c.next(), 'n': 2, 'sub': {'k': 'list', 'id': c.next(), 'f': fn('ident')}}]
    for a in ('first', 'max', 'min', 'avg', 'count', 'sum', 'cls_last', 'cls_count'):
        leaves.append(lambda c, a=a: {'k': 'agg', 'oid': c.next(), 'a': {'agg': a}})
    leaves.append(lambda c: {'k': 'agg', 'oid': c.next(), 'a': {'agg': 'sample', 'size': 2, 'tbl': []}})
    runs_list = [[[1, 2, 3, 4, 5, 6, 7]], [[0, 2, 1], [4]], [[]], [[3, 3, 3]], [[5, 1, 4, 1, 2, 2]]]
    import itertools
    for depth in (0, 1, 2):
        for keys in itertools.product(keyfns, repeat=depth):
            for lf in leaves:
                for lim in (None, 2):
                    for runs in runs_list:
                        c = Ctr()
                        s = lf(c)
                        for kf in reversed(keys):
                            s = mk_dict(c, json.loads(json.dumps(kf)), s)
                        if lim is not None:
                            s = {'k': 'limit', 'oid': c.next(), 'n': lim, 'sub': s}
                        yield {'spec': s, 'runs': [[jv(x) for x in r] for r in runs], 'rng': [4, 0, 1],
                               'stream': 'exhaustive'}


def exhaustive_histories():
    """class-object nodes of both kinds (plain callables / aggregator classes) and ordinary nodes, two or
    three spec objects, EVERY order of evaluation, over shared mutable items"""
    import itertools

    def mk(keyf, leaf_a=None, leaf_f=None):
        c = Ctr()
        if leaf_a is not None:
            lf = {'k': 'agg', 'oid': c.next(), 'a': dict(leaf_a)}
        else:
            lf = {'k': 'list', 'id': c.next(), 'f': leaf_f}
        if keyf is None:
            return lf
        return mk_dict(c, keyf, lf)
    pool = [mk(fn('len'), {'agg': 'cls_last'}), mk(cls('type'), leaf_f=fn('ident')), mk(cls('bool'), {'agg': 'count'}),
            mk(fn('len'), {'agg': 'cls_count'}), mk(None, {'agg': 'cls_last'}), mk(None, leaf_f=cls('str')),
            mk(fn('len'), {'agg': 'flatten', 'f': tx(o_mul(2))}), mk(tx(o_add([0]), o_item(0)), leaf_f=tx(o_add([9]))),
            mk(fn('len'), {'agg': 'unbound', 'of': 'First'}), mk(cls('type'), {'agg': 'cls_count'})]
    shared = [jv([1, 2]), jv([3])]
    target = [{'sh': 0}, {'sh': 1}, jv([4, 5, 6]), {'sh': 0}, jv((7,))]
    for k in (2, 3):
        for combo in itertools.permutations(range(len(pool)), k):
            if k == 3 and combo[0] > 3:
                continue
            yield {'specs': [json.loads(json.dumps(pool[i])) for i in combo], 'shared': shared,
                   'targets': [target], 'evals': [[i, 0] for i in range(k)] + [[0, 0]], 'rng': [2],
                   'stream': 'exhaustive-hist'}


def corpus():
    """the stored witnesses of the two known defects, and the docstring examples"""
    out = []
    # F9: glom([0, 2, 1], Group({T % 2: First()})) == {0: 0}
    out.append({'spec': {'k': 'dict', 'id': 0, 'kid': 1, 'key': fn('mod', n=2),
                         'sub': {'k': 'agg', 'oid': 2, 'a': {'agg': 'first'}}},
                'runs': [[jv(0), jv(2), jv(1)]], 'stream': 'corpus'})
    # F10: a bucket key equal to id(spec dict)
    out.append({'spec': {'k': 'dict', 'id': 0, 'kid': 1, 'key': fn('id_if', v=jv(2), n=0),
                         'sub': {'k': 'list', 'id': 2, 'f': fn('ident')}},
                'runs': [[jv(1), jv(2), jv(3)]], 'stream': 'corpus'})
    out.append({'spec': {'k': 'dict', 'id': 0, 'kid': 1, 'key': fn('mod', n=2),
                         'sub': {'k': 'list', 'id': 2, 'f': fn('ident')}},
                'runs': [[jv(x) for x in range(10)], [jv(x) for x in range(3)]], 'stream': 'corpus'})
    out.append({'spec': {'k': 'limit', 'oid': 5, 'n': 5, 'sub':
                         {'k': 'dict', 'id': 0, 'kid': 1, 'key': fn('mod', n=2),
                          'sub': {'k': 'limit', 'oid': 2, 'n': 2, 'sub': {'k': 'list', 'id': 3, 'f': fn('ident')}}}},
                'runs': [[jv(x) for x in range(10)]], 'stream': 'corpus'})
    # class objects as nodes, both kinds, both orders, in one process
    last = {'k': 'dict', 'id': 0, 'kid': 1, 'key': fn('mod', n=2), 'sub': {'k': 'agg', 'oid': 2, 'a': {'agg': 'cls_last'}}}
    bytype = {'k': 'dict', 'id': 0, 'kid': CLS_BASE + CLS_IDX['type'], 'key': cls('type'),
              'sub': {'k': 'list', 'id': 2, 'f': fn('ident')}}
    nums = [jv(x) for x in (3, 8, 5, 2, 7)]
    mixed = [jv(x) for x in (1, 'a', None, 'b', 3, True)]
    out.append({'specs': [last, bytype], 'shared': [], 'targets': [nums, mixed],
                'evals': [[0, 0], [1, 1], [1, 0], [0, 0]], 'stream': 'corpus'})
    out.append({'specs': [bytype, last], 'shared': [], 'targets': [mixed, nums],
                'evals': [[0, 0], [1, 1], [0, 1], [1, 1]], 'stream': 'corpus'})
    # T arithmetic over mutable items: one row object twice, key and leaf from the same field, the same
    # spec object twice over the same target object
    out.append({'specs': [{'k': 'dict', 'id': 0, 'kid': 1, 'key': tx(o_item(0)),
                           'sub': {'k': 'list', 'id': 2, 'f': tx(o_add(['end']))}}],
                'shared': [jv(['a', 1])], 'targets': [[{'sh': 0}, jv(['b', 2]), {'sh': 0}]],
                'evals': [[0, 0], [0, 0]], 'stream': 'corpus'})
    out.append({'specs': [{'k': 'dict', 'id': 0, 'kid': 1, 'key': tx(o_item('w'), o_add([0]), o_item(0)),
                           'sub': {'k': 'agg', 'oid': 2, 'a': {'agg': 'flatten', 'f': tx(o_item('w'), o_mul(2))}}}],
                'shared': [jv([4, 5])],
                'targets': [[jv({'w': [1]}), {'d': [[jv('w'), {'sh': 0}]]}, {'d': [[jv('w'), {'sh': 0}]]}]],
                'evals': [[0, 0], [0, 0]], 'stream': 'corpus'})
    out.append({'specs': [{'k': 'dict', 'id': 0, 'kid': 1, 'key': fn('len'),
                           'sub': {'k': 'agg', 'oid': 2, 'a': {'agg': 'sample', 'size': 2, 'tbl': []}}}],
                'shared': [], 'targets': [[jv([x] * (x % 2 + 1)) for x in range(9)]], 'evals': [[0, 0], [0, 0]],
                'rng': [0, 5, 1, 9], 'stream': 'corpus'})
    # empty_or_limit0: glom([], Group(Sum())) is None (the loop: 0); Group(Limit(0)) is None (the loop: []);
    # {T % 2: Limit(0, [T])} is {} (the loop: {0: [], 1: []}); Group(Count()) / Limit(2) over nothing
    lim0 = {'k': 'limit', 'oid': 4, 'n': 0, 'nosub': True, 'sub': {'k': 'list', 'id': 5, 'f': fn('ident')}}
    out.append({'specs': [{'k': 'agg', 'oid': 0, 'a': {'agg': 'sum'}}, {'k': 'agg', 'oid': 0, 'a': {'agg': 'count'}},
                          dict(lim0, n=2), lim0,
                          {'k': 'dict', 'id': 0, 'kid': 1, 'key': fn('mod', n=2), 'sub': json.loads(json.dumps(lim0))}],
                'shared': [], 'targets': [[], [jv(x) for x in range(6)]],
                'evals': [[0, 0], [1, 0], [2, 0], [3, 1], [4, 1]], 'stream': 'corpus'})
    # skip_below_key_level: {T % 2: Limit(2, lambda t: SKIP if t == 1 else t)} over [1, 3, 5, 7] is {1: 5} (the loop: {1: 3})
    out.append({'specs': [{'k': 'dict', 'id': 0, 'kid': 1, 'key': fn('mod', n=2), 'sub':
                           {'k': 'limit', 'oid': 2, 'n': 2, 'sub': {'k': 'fn', 'f': fn('skip_if', v=jv(1))}}},
                          {'k': 'dict', 'id': 0, 'kid': 1, 'key': fn('mod', n=2), 'sub': {'k': 'fn', 'f': fn('skip_odd')}}],
                'shared': [], 'targets': [[jv(x) for x in (1, 3, 5, 7)], [jv(x) for x in (1, 2, 3)]],
                'evals': [[0, 0], [1, 1]], 'stream': 'corpus'})
    # per-bucket well-typedness, float arithmetic, float / tuple keys, the Group docstring's range(10)
    out.append({'specs': [{'k': 'dict', 'id': 0, 'kid': CLS_BASE + CLS_IDX['type'], 'key': cls('type'),
                           'sub': {'k': 'agg', 'oid': 2, 'a': {'agg': 'max'}}}],
                'shared': [], 'targets': [[jv(1), jv('a'), jv(3)]], 'evals': [[0, 0]], 'stream': 'corpus'})
    out.append({'specs': [{'k': 'agg', 'oid': 0, 'a': {'agg': 'avg'}}, {'k': 'agg', 'oid': 0, 'a': {'agg': 'sum'}},
                          {'k': 'dict', 'id': 1, 'kid': 2, 'key': fn('ident'), 'sub': {'k': 'list', 'id': 3, 'f': fn('ident')}}],
                'shared': [], 'targets': [[jv(2 ** 53), jv(1), jv(1)], [jv(0.1)] * 10, [jv(1.0), jv(1), jv(2.5)],
                                          [jv((1, 2)), jv((1, 2))]],
                'evals': [[0, 0], [0, 1], [1, 1], [2, 2], [2, 3]], 'stream': 'corpus'})
    out.append({'specs': [{'k': 'dict', 'id': 0, 'kid': 1, 'key': fn('mod', n=2), 'sub': {'k': 'list', 'id': 2, 'f': fn('ident')}}],
                'shared': [], 'targets': [[jv(x) for x in range(10)]], 'tkinds': ['range'], 'evals': [[0, 0], [0, 0]],
                'stream': 'corpus'})
    # a Group as the SUBSPEC of a Fold-family leaf of an outer Group (the CUR_AGG tripwire is reset by the inner
    # Group.glomit): Group({len: Merge(per_batch)}), Group(Sum(Group(Count()))), Group(Flatten(Group(Flatten())))
    per_batch = {'k': 'dict', 'id': 501, 'kid': 502, 'key': fn('mod', n=2), 'sub': {'k': 'agg', 'oid': 500, 'a': {'agg': 'sum'}}}
    batches = [jv([1, 2, 3]), jv([4, 5]), jv([6, 8, 10])]
    out.append({'specs': [{'k': 'dict', 'id': 0, 'kid': 1, 'key': fn('len'),
                           'sub': {'k': 'fold_group', 'oid': 2, 'fold': 'merge', 'gid': 1, 'g': per_batch}},
                          {'k': 'group_obj', 'gid': 1, 'g': per_batch}],
                'shared': [], 'targets': [batches, [jv(1), jv(2), jv(3)]], 'evals': [[1, 1], [0, 0], [1, 1]],
                'stream': 'corpus'})
    out.append({'specs': [{'k': 'fold_group', 'oid': 2, 'fold': 'sum', 'gid': 1, 'g': {'k': 'agg', 'oid': 500, 'a': {'agg': 'count'}}},
                          {'k': 'fold_group', 'oid': 2, 'fold': 'flatten', 'gid': 2,
                           'g': {'k': 'agg', 'oid': 600, 'a': {'agg': 'flatten'}}}],
                'shared': [], 'targets': [batches, [jv([[1], [2]]), jv([[3]]), jv([[4]]), jv([[5], [6]])]],
                'evals': [[0, 0], [1, 1]], 'stream': 'corpus'})
    # ONE Group object nested in two specs and evaluated itself
    inner = {'k': 'agg', 'oid': 500, 'a': {'agg': 'sum'}}
    out.append({'specs': [{'k': 'dict', 'id': 0, 'kid': 1, 'key': fn('len'), 'sub': {'k': 'nested', 'gid': 1, 'g': inner}},
                          {'k': 'nested', 'gid': 1, 'g': inner}, {'k': 'group_obj', 'gid': 1, 'g': inner}],
                'shared': [], 'targets': [[jv([1, 2]), jv([3]), jv([4, 5])], [jv(7), jv(8)]],
                'evals': [[0, 0], [2, 1], [1, 0], [0, 0], [2, 1]], 'stream': 'corpus'})
    p = os.path.join(os.path.dirname(os.path.dirname(os.path.dirname(os.path.abspath(__file__)))),
                     'corpus', 'C16.jsonl')
    if os.path.exists(p):
        for line in open(p):
            if line.strip():
                out.append(json.loads(line))
    return out


def key(case):
    c = normalize(case)
    return {'specs': c['specs'], 'shared': c['shared'], 'targets': c['targets'], 'tkinds': c['tkinds'],
            'evals': c['evals'], 'rng': c['rng']}


def nontrivial(case, verdict):
    c = normalize(case)
    return any(len(c['targets'][ti]) >= 2 for _, ti in c['evals'])


def classify(case, verdict):
    """name of the known defect a failing case is an instance of — only when the implementation
    behaves exactly as the MODEL of the current code does on it (so any other deviation from the
    hand-written loop is still reported)"""
    if not verdict.get('agree'):
        return None
    shape = verdict.get('known_shape') or ''
    return shape or None


H2_FNS = ('id_of', 'id_if', 'obj_if')


def known_features(s, below=False):
    """does the spec carry what the two known defects need (a key function returning an id /
    a spec object; a STOP source under a key level)?"""
    k = s['k']
    if k == 'dict':
        return s['key']['fn'] in H2_FNS or (s['key']['fn'] == 'stop_at' and below) or known_features(s['sub'], True)
    if k == 'limit':
        return below or known_features(s['sub'], below)
    if k == 'agg':
        return below and s['a']['agg'] == 'first'
    if k in ('list', 'fn'):
        return below and s['f']['fn'] == 'stop_at'
    if k in ('nested', 'group_obj', 'fold_group'):
        return known_features(s['g'], False)
    return False


def strip_features(s, below=False):
    s = dict(s)
    k = s['k']
    if k == 'dict':
        if s['key']['fn'] in H2_FNS or s['key']['fn'] == 'stop_at':
            s['key'] = fn('ident')
        s['sub'] = strip_features(s['sub'], True)
    elif k == 'limit':
        if below:
            return strip_features(s['sub'], below)
        s['sub'] = strip_features(s['sub'], below)
    elif k == 'agg' and below and s['a']['agg'] == 'first':
        s['a'] = {'agg': 'count'}
    elif k in ('list', 'fn') and below and s['f']['fn'] == 'stop_at':
        s['f'] = fn('ident')
    elif k in ('nested', 'group_obj', 'fold_group'):
        s['g'] = strip_features(s['g'], False)
    return s


def _inline(j, n, val):
    if not isinstance(j, dict):
        return j
    if 'sh' in j:
        return json.loads(json.dumps(val)) if j['sh'] == n else j
    if 'l' in j:
        return {'l': [_inline(x, n, val) for x in j['l']]}
    if 't' in j:
        return {'t': [_inline(x, n, val) for x in j['t']]}
    if 'd' in j:
        return {'d': [[_inline(k, n, val), _inline(v, n, val)] for k, v in j['d']]}
    return j


def shrink(case):
    base = normalize(case)
    if any(known_features(s) for s in base['specs']):
        # first get rid of what the two KNOWN defects need; while it is there, do not shrink further
        # (a greedy shrinker would drift from a new failure into a known one)
        c = dict(base); c['specs'] = [strip_features(s) for s in base['specs']]
        yield c
        return
    specs, targets, evals, shared = base['specs'], base['targets'], base['evals'], base['shared']
    # fewer evaluations
    for i in range(len(evals)):
        if len(evals) > 1:
            c = dict(base); c['evals'] = evals[:i] + evals[i + 1:]
            yield c
    # spec objects / target objects nobody evaluates any more
    used_s = sorted({si for si, _ in evals})
    if len(used_s) < len(specs):
        c = dict(base); c['specs'] = [specs[i] for i in used_s]
        c['evals'] = [[used_s.index(si), ti] for si, ti in evals]
        yield c
    kinds = base['tkinds']
    used_t = sorted({ti for _, ti in evals})
    if len(used_t) < len(targets):
        c = dict(base); c['targets'] = [targets[i] for i in used_t]
        c['tkinds'] = [kinds[i] for i in used_t]
        c['evals'] = [[si, used_t.index(ti)] for si, ti in evals]
        yield c
    # plain list targets
    for i, k in enumerate(kinds):
        if k != 'list':
            c = dict(base); c['tkinds'] = kinds[:i] + ['list'] + kinds[i + 1:]
            yield c
    # fewer items
    for i, r in enumerate(targets):
        if kinds[i] in ('range', 'set', 'dict') or len(r) <= 1:
            continue        # (never down to NO items: that is the known deviation empty_or_limit0, not this failure)
        for j in range(len(r)):
            c = dict(base); c['targets'] = targets[:i] + [r[:j] + r[j + 1:]] + targets[i + 1:]
            yield c
    # less sharing: a shared object becomes separate equal objects
    for n in range(len(shared)):
        if any(json.dumps({'sh': n}, sort_keys=True) in json.dumps(t, sort_keys=True) for t in targets + shared):
            c = dict(base)
            c['targets'] = [[_inline(x, n, shared[n]) for x in t] for t in targets]
            c['shared'] = [_inline(x, n, shared[n]) if m != n else x for m, x in enumerate(shared)]
            yield c
    if shared and not any('"sh"' in json.dumps(t) for t in targets):
        c = dict(base); c['shared'] = []
        yield c
    # smaller specs
    for i, s in enumerate(specs):
        if s['k'] in ('limit', 'dict'):
            c = dict(base); c['specs'] = specs[:i] + [s['sub']] + specs[i + 1:]
            yield c
        if s['k'] == 'dict' and s['sub']['k'] == 'dict':
            c = dict(base); c['specs'] = specs[:i] + [dict(s, sub=s['sub']['sub'])] + specs[i + 1:]
            yield c
        if s['k'] == 'dict' and s['key']['fn'] not in ('ident', 'len'):
            for simple in (fn('ident'), fn('len')):
                s2 = dict(s, key=simple)
                if s2['kid'] >= CLS_BASE:
                    s2['kid'] = 900 + i
                c = dict(base); c['specs'] = specs[:i] + [s2] + specs[i + 1:]
                yield c


def focus(disagreements, facts_changed):
    streams = sorted({c.get('stream') for c, _ in disagreements
                      if c.get('stream') in ('h1', 'h2', 'toplimit', 'mutate', 'hist', 'tarith', 'quiet')})
    if len(streams) == 1:
        return {'stream': streams[0]}
    if not disagreements and facts_changed:
        # the statements of Group mode / of _t_eval's arithmetic changed and no case disagrees yet:
        # look where module state and in-place arithmetic would show
        return {}
    return {}
