"""C16 — Group mode: generators, implementation runner, classifier of the two known defects."""
import json
import os
import random
import struct

PROP = 'C16'
LEAN_MODULES = ['Glom.Props.C16']
FACT_FILES = ['GroupFacts', 'c16']
READY = True
MANIFEST = dict(
    text="Lean 4 theorems about a statement-by-statement model of Group mode (Group.glomit, GROUP with its single "
         "accumulator tree keyed by id(spec) / spec objects / bucket keys, the STOP marks and the `done` flag, First, "
         "Max, Min, Avg, Sample with its random source as a parameter, Limit at any depth, Fold._agg, Merge._agg, "
         "aggregator CLASSES used as nodes, class objects used as key functions, T-expressions with the arithmetic "
         "operators of _t_eval): c16_exact — for every spec tree of any depth, every item sequence and every key "
         "function the result is EXACTLY the dictionary of a hand-written bucketing loop over the items before the "
         "first STOP event (keys in order of first occurrence, values in encounter order, SKIP drops an item, every "
         "leaf equal to its plain-Python reference over the items routed to it), under the one hypothesis the proof "
         "forces (no bucket key equals id() of its spec dict).  Corollaries: c16_eq_reference_partial (no STOP event: "
         "the whole hand-written loop), top-level Limit(n) / First, per-bucket independence, Sample = the reservoir "
         "reference with length / membership bounds, freshness of the tree on re-use, nesting and in every history of "
         "evaluations.  The full statement is DISPROVED in the model by `decide` on the two concrete witnesses "
         "(c16_F9_counterexample, c16_F10_counterexample), on which model and real glom agree: both are genuine "
         "defects of /repo, listed as known findings; c16_exact (F9) and c16_F10_exact (F10) say exactly what the code "
         "computes instead.  T-expression evaluation on a store of mutable cells never writes an existing cell "
         "(c16_texpr_frame) and refines the value-level evaluation.  Per-run facts obligation: the statements of Group "
         "mode regenerated from /repo equal the statements the model transcribes, grouping.py has no module-level "
         "state besides its two sentinels, every arithmetic arm of _t_eval rebinds `cur`.  Model tied to the code by "
         "differential execution of histories of evaluations, each case in a fresh copy of the process.",
    note="partial: the equality with the hand-written loop needs H1'' (no STOP EVENT under a key level — a STOP from "
         "one bucket's leaf ends the whole evaluation in the code: F9) and H2' (the tree mixes namespaces: F10).  "
         "trusted: Lean kernel + {propext, Classical.choice, Quot.sound}; extractor; harness/driver; one key-spec per "
         "dict level and one value-spec per list (the documented shape); key/value functions from a finite catalogue "
         "(T-expression chains, class objects, lambdas); IEEE division of Avg is a primitive (float(sum)/count on "
         "exact integer sums, compared by bit pattern); Sample's random source is a function of num_seen (a table; "
         "the harness substitutes random.randint by it), which covers every draw sequence of ONE reservoir, not the "
         "joint distribution over several; runs in which a user function raises are outside the property (error "
         "classes still compared).",
    technique='Lean 4 simulation proof (tree-threading interpreter = bucketing loop cut at the first STOP event) + '
              'decide on counterexample witnesses + facts obligation + differential correspondence over histories',
    ref='DESIGN.md §3 C16')
RULE = ('type-directed: a case is a HISTORY in one (forked, fresh) process: 1-3 Group spec objects, 1-3 target objects '
        'with shared sub-objects (the same item object at several positions / in several targets, a list or dict field '
        'shared by several items), and a list of evaluations (spec i on target j; the same spec object and the same '
        'target object repeatedly, other spec objects in between, both orders).  Spec trees: 0-3 key levels; key '
        'functions T % n, T[k], len, lambdas incl. SKIP-producing ones, T-expression chains with + * | % on ints, '
        'strings, lists, tuples and dicts (key and leaf computed from the same mutable field), the class objects type '
        '/ str / bool / int; leaf = [f] / First / Max / Min / Avg / Sum(f) / Count / Flatten(f) / Merge(f) / Sample(k) '
        '/ a bare function / a nested Group / an aggregator CLASS used without instantiation (static or class method '
        'agg) / an aggregator class without parentheses; Limit(n) at the top and below key levels.  Observed per '
        'evaluation: the result, the target afterwards (values) and whether every edge of its object graph still '
        'points to the same object.  Item families: ints, bools, strs, small dicts, lists/tuples; 0-12 items.  A '
        'one-edit mutation stream plants a wrong-typed item / missing key / STOP-producing function / a forgotten '
        'pair of parentheses; two separate streams violate H1 (First / Limit / stop_at under a key level) and H2 (a '
        'key function returning id(spec dict) or the key-spec object) on purpose; thorough additionally enumerates '
        'all specs of a small grammar over fixed item lists and all orders of small histories. non-trivial = some '
        'evaluated target has >= 2 items; distinct = distinct (specs, targets, evals).')
TRUSTED = ['the catalogue of key/value functions (Lean `Fn.apply` vs the Python lambdas / T-expressions / class '
           'objects below) and Python dict / comparison / iteration / str() semantics as modelled in '
           'Glom/Model/C16.lean: validated by the correspondence only',
           'Avg: float(sum)/count as an IEEE primitive (Lean Float in the driver); averaged values are ints with |sum| < 2^53',
           'Sample: random.randint is substituted by a table-driven function of its upper bound for the evaluation']
ASSUMPTIONS = ['one key-spec per dict level and one value-spec per list level (multi-entry levels are outside the model)',
               'object addresses (id()) are larger than every generated int (1e9)',
               'a SKIP-producing bare function in value position under a key level is skipped (keys are then ordered '
               'by first value, not first occurrence)',
               'runs in which a user function raises are outside the property',
               'os.fork is available: every case runs in a fresh copy of a process that has imported glom and '
               'evaluated nothing (VERIF_C16_NOFORK=1 runs in-process)']


# ------------------------------------------------------------------ values
def jv(v):
    if v is None:
        return None
    if isinstance(v, bool):
        return {'b': v}
    if isinstance(v, int):
        return {'i': v}
    if isinstance(v, str):
        return {'s': v}
    if isinstance(v, list):
        return {'l': [jv(x) for x in v]}
    if isinstance(v, tuple):
        return {'t': [jv(x) for x in v]}
    if isinstance(v, dict):
        return {'d': [[jv(k), jv(x)] for k, x in v.items()]}
    raise ValueError(v)


class Edges:
    """every container -> child edge of the objects built from a case: `check()` says whether each
    still points to the very same object"""
    def __init__(self):
        self.edges = []

    def add(self, container, key, child):
        self.edges.append((container, key, child))

    def check(self):
        for c, k, ch in self.edges:
            try:
                if type(c) is tuple or type(c) is list:
                    if c[k] is not ch:
                        return False
                elif c[k] is not ch:
                    return False
            except Exception:
                return False
        return True


def dec(j, objs=None, shared=None, edges=None):
    from glom import SKIP, STOP
    if j is None:
        return None
    if 'b' in j:
        return j['b']
    if 'i' in j:
        return j['i']
    if 's' in j:
        return j['s']
    if 'sent' in j:
        return SKIP if j['sent'] == 'SKIP' else STOP
    if 'sh' in j:
        return shared[j['sh']]
    if 'l' in j or 't' in j:
        xs = [dec(x, objs, shared, edges) for x in (j['l'] if 'l' in j else j['t'])]
        out = xs if 'l' in j else tuple(xs)
        if edges is not None:
            for i, x in enumerate(xs):
                edges.add(out, i, x)
        return out
    if 'd' in j:
        out = {}
        for k, v in j['d']:
            kk, vv = dec(k, objs, shared, edges), dec(v, objs, shared, edges)
            out[kk] = vv
            if edges is not None:
                edges.add(out, kk, vv)
        return out
    if 'obj' in j:
        return objs[j['obj']]
    if 'id' in j:
        return id(objs[j['id']])
    raise ValueError(j)


CLS_BASE = 1000
# class objects by identity (Lean: `typeObj`): the values `type(x)` returns — and the SAME objects when
# they are used as key functions (`bool`, `int`, `str`, `type`): then the key-spec object of the level
# is that class object (`kid` = its number)
TYPE_OBJS = [type(None), bool, int, str, float, list, tuple, dict, None, type]
CLS_IDX = {'bool': 1, 'int': 2, 'str': 3, 'type': 9}


def enc(v, ids, oids):
    from glom import SKIP, STOP
    if v is None:
        return None
    if v is SKIP:
        return {'sent': 'SKIP'}
    if v is STOP:
        return {'sent': 'STOP'}
    if isinstance(v, bool):
        return {'b': v}
    if isinstance(v, int):
        if v in ids:
            return {'id': ids[v]}
        return {'i': v}
    if isinstance(v, str):
        return {'s': v}
    if isinstance(v, float):
        return {'fbits': str(struct.unpack('<Q', struct.pack('<d', v))[0])}
    if isinstance(v, type) and v in TYPE_OBJS:
        return {'obj': CLS_BASE + TYPE_OBJS.index(v)}
    if id(v) in oids:
        return {'obj': oids[id(v)]}
    if type(v) is list:
        return {'l': [enc(x, ids, oids) for x in v]}
    if type(v) is tuple:
        return {'t': [enc(x, ids, oids) for x in v]}
    if type(v) is dict:
        return {'d': [[enc(k, ids, oids), enc(x, ids, oids)] for k, x in v.items()]}
    return {'s': '<unknown %s>' % type(v).__name__}


def resolve(j, shared_json):
    """the plain value (no {'sh': n}) a target entry denotes"""
    if j is None or not isinstance(j, dict):
        return j
    if 'sh' in j:
        return resolve(shared_json[j['sh']], shared_json)
    if 'l' in j:
        return {'l': [resolve(x, shared_json) for x in j['l']]}
    if 't' in j:
        return {'t': [resolve(x, shared_json) for x in j['t']]}
    if 'd' in j:
        return {'d': [[resolve(k, shared_json), resolve(v, shared_json)] for k, v in j['d']]}
    return j


# ------------------------------------------------------------------ building the real spec
def build_texpr(ops):
    from glom import T
    t = T
    for o in ops:
        k = o['op']
        if k == 'item':
            t = t[dec(o['k'])]
        elif k == 'add':
            t = t + dec(o['v'])
        elif k == 'mul':
            t = t * o['n']
        elif k == 'or':
            t = t | dec(o['v'])
        elif k == 'mod':
            t = t % o['n']
        else:
            raise ValueError(k)
    return t


def build_fn(j, objs):
    from glom import T, SKIP, STOP
    name = j['fn']
    if name == 'ident':
        return T if j.get('style') != 'lambda' else (lambda t: t)
    if name == 'mod':
        return T % j['n']
    if name == 'item':
        return T[dec(j['k'])]
    if name == 't':
        return build_texpr(j['ops'])
    if name == 'cls':
        return {'type': type, 'str': str, 'bool': bool, 'int': int}[j['c']]
    if name == 'skip_odd':
        return lambda t: SKIP if t % 2 else t
    if name == 'skip_if':
        v = dec(j['v'])
        return lambda t: SKIP if t == v else t
    if name == 'key_skip':
        n = j['n']
        return lambda t: SKIP if t % n == 0 else t % n
    if name == 'stop_at':
        n = j['n']
        return lambda t: STOP if t >= n else t
    if name == 'id_of':
        n = j['n']
        return lambda t: id(objs[n])
    if name == 'id_if':
        v, n = dec(j['v']), j['n']
        return lambda t: id(objs[n]) if t == v else t
    if name == 'obj_if':
        v, n = dec(j['v']), j['n']
        return lambda t: objs[n] if t == v else t
    if name == 'len':
        return len
    if name == 'const':
        v = dec(j['v'])
        return lambda t: v
    raise ValueError(name)


def make_cls_last():
    """a stateless aggregator used as a CLASS ("any object that defines agg(target, accumulator)")"""
    class Last:
        @staticmethod
        def agg(target, tree):
            return target
    return Last


def make_cls_count():
    class Tally:
        @classmethod
        def agg(cls, target, tree):
            tree[cls] = tree.get(cls, 0) + 1
            return tree[cls]
    return Tally


def build_spec(j, objs):
    from glom.grouping import Group, First, Avg, Max, Min, Limit, Sample
    from glom.reduction import Sum, Count, Flatten, Merge
    k = j['k']
    if k == 'dict':
        keyfn = build_fn(j['key'], objs)
        d = {}
        objs[j['id']] = d
        objs[j['kid']] = keyfn
        d[keyfn] = build_spec(j['sub'], objs)
        return d
    if k == 'list':
        l = [build_fn(j['f'], objs)]
        objs[j['id']] = l
        return l
    if k == 'agg':
        a = j['a']
        n = a['agg']
        if n in ('sum', 'flatten', 'merge'):
            f = build_fn(a['f'], objs) if 'f' in a else None
            cls = {'sum': Sum, 'flatten': Flatten, 'merge': Merge}[n]
            o = cls(f) if f is not None else cls()
        elif n == 'sample':
            o = Sample(a['size'])
        elif n == 'cls_last':
            o = make_cls_last()
        elif n == 'cls_count':
            o = make_cls_count()
        elif n == 'unbound':
            o = {'First': First, 'Max': Max, 'Min': Min, 'Avg': Avg}[a.get('of', 'First')]   # parentheses forgotten
        else:
            o = {'first': First, 'max': Max, 'min': Min, 'avg': Avg, 'count': Count}[n]()
        objs[j['oid']] = o
        return o
    if k == 'fn':
        return build_fn(j['f'], objs)
    if k == 'limit':
        sub = build_spec(j['sub'], objs)
        o = Limit(j['n'], sub)
        objs[j['oid']] = o
        return o
    if k == 'nested':
        return Group(build_spec(j['g'], objs))
    raise ValueError(k)


def exc_class(e):
    for c in type(e).__mro__:
        if not c.__name__.startswith('GlomError.wrap'):
            return c
    return type(e)


def set_tbl(s, tbl):
    """every Sample node of a case draws from the case's one table"""
    if s['k'] == 'agg' and s['a']['agg'] == 'sample':
        s['a']['tbl'] = list(tbl)
    for c in ('sub', 'g'):
        if c in s:
            set_tbl(s[c], tbl)


def normalize(case):
    """the canonical form {'specs', 'shared', 'targets', 'evals', 'rng'}; the earlier form
    {'spec', 'runs'} is one spec object evaluated on each run in turn"""
    c = {k: v for k, v in case.items() if not k.startswith('impl')}
    if 'specs' not in c:
        c['specs'] = [c.pop('spec')]
        c['targets'] = c.pop('runs')
        c['evals'] = [[0, i] for i in range(len(c['targets']))]
    c.setdefault('shared', [])
    c.setdefault('rng', [])
    c = json.loads(json.dumps(c))
    for s in c['specs']:
        set_tbl(s, c['rng'])
    return c


def _run_here(case):
    import glom
    from glom.grouping import Group
    import random as _random
    tbl = case['rng']

    def table_randint(a, b):
        # random.randint(0, num_seen), as a function of num_seen (Lean: `draw`)
        return (tbl[b % len(tbl)] % (b + 1)) if tbl else 0
    _random.randint = table_randint

    groups, encs = [], []
    for sj in case['specs']:
        objs = {}
        spec = build_spec(sj, objs)
        groups.append(Group(spec))               # ONE Group object per spec for the whole history
        ids = {id(o): n for n, o in objs.items() if type(o) in (dict, list)}
        oids = {id(o): n for n, o in objs.items() if type(o) not in (dict, list)}
        encs.append((objs, ids, oids))
    edges = Edges()
    shared = []
    for sj in case['shared']:
        shared.append(dec(sj, None, shared, edges))
    targets = []
    for tj in case['targets']:
        t = []
        for x in tj:
            # {'id': n} / {'obj': n} inside items refer to the first spec's objects
            t.append(dec(x, encs[0][0] if encs else None, shared, edges))
        for i, x in enumerate(t):
            edges.add(t, i, x)
        targets.append(t)
    lens = [len(t) for t in targets]
    out = []
    for si, ti in case['evals']:
        objs, ids, oids = encs[si]
        target = targets[ti]
        try:
            r = glom.glom(target, groups[si])
            o = {'ok': enc(r, ids, oids)}
        except Exception as e:
            o = {'err': exc_class(e).__name__}
        o['after'] = [enc(x, {}, {}) for x in target]
        o['ident'] = bool(edges.check() and [len(t) for t in targets] == lens)
        out.append(o)
    return out


NOFORK = os.environ.get('VERIF_C16_NOFORK') == '1'
_SERVER = None      # (pid, to_server, from_server)


def _read_exact(f, n):
    buf = b''
    while len(buf) < n:
        chunk = f.read(n - len(buf))
        if not chunk:
            return buf
        buf += chunk
    return buf


def _server_main(rfd, wfd):
    """a small process that has imported glom and evaluates NOTHING itself: it forks one child per
    case (cheap: the server stays small, unlike the check process), the child runs the history"""
    import gc
    rf, wf = os.fdopen(rfd, 'rb'), os.fdopen(wfd, 'wb')
    gc.collect()
    gc.freeze()          # the children share these pages (no copy-on-write by the collector)
    while True:
        hdr = _read_exact(rf, 10)
        if len(hdr) < 10:
            os._exit(0)
        case = json.loads(_read_exact(rf, int(hdr)))
        r, w = os.pipe()
        pid = os.fork()
        if pid == 0:
            try:
                os.close(r)
                try:
                    data = json.dumps({'impl': _run_here(case)})
                except BaseException as e:      # harness bug: reported by the parent
                    data = json.dumps({'crash': repr(e)})
                with os.fdopen(w, 'w') as f:
                    f.write(data)
            finally:
                os._exit(0)
        os.close(w)
        with os.fdopen(r, 'rb') as f:
            out = f.read()
        os.waitpid(pid, 0)
        wf.write(b'%010d' % len(out))
        wf.write(out)
        wf.flush()


def _stop_server():
    global _SERVER
    if _SERVER is not None:
        pid, tx_, rx_ = _SERVER
        _SERVER = None
        for f in (tx_, rx_):
            try:
                f.close()
            except OSError:
                pass
        try:
            os.killpg(pid, 9)           # the server and a child that may still be running
        except OSError:
            pass
        try:
            os.waitpid(pid, 0)
        except OSError:
            pass


def _start_server():
    global _SERVER
    import atexit
    p2s_r, p2s_w = os.pipe()
    s2p_r, s2p_w = os.pipe()
    pid = os.fork()
    if pid == 0:
        try:
            os.setsid()
            os.close(p2s_w)
            os.close(s2p_r)
            _server_main(p2s_r, s2p_w)
        finally:
            os._exit(0)
    os.close(p2s_r)
    os.close(s2p_w)
    _SERVER = (pid, os.fdopen(p2s_w, 'wb'), os.fdopen(s2p_r, 'rb'))
    atexit.register(_stop_server)


def run_impl(case):
    """every case is a history that runs in a FRESH copy of a process that has imported glom and
    evaluated nothing (a fork server forks one child per case), so what a case observes never depends
    on the cases before it (module-level tables, caches) and a stored case replays exactly"""
    import glom  # noqa: F401  (this process imports, never evaluates)
    import glom.grouping  # noqa: F401
    import glom.reduction  # noqa: F401
    c = normalize(case)
    if NOFORK or not hasattr(os, 'fork'):
        c['impl'] = _run_here(c)
        return c
    if _SERVER is None:
        _start_server()
    _, to_server, from_server = _SERVER
    data = json.dumps(c).encode()
    done = False
    try:
        to_server.write(b'%010d' % len(data))
        to_server.write(data)
        to_server.flush()
        hdr = _read_exact(from_server, 10)
        out = _read_exact(from_server, int(hdr)) if len(hdr) == 10 else b''
        done = len(hdr) == 10
    finally:
        if not done:                    # the framework's per-case budget fired (the child hangs), or the server died
            _stop_server()
    if not done:
        raise RuntimeError('the fork server died')
    res = json.loads(out)
    if 'crash' in res:
        raise RuntimeError(res['crash'])
    c['impl'] = res['impl']
    return c


# ------------------------------------------------------------------ generators
class Ctr:
    def __init__(self):
        self.n = 0

    def next(self):
        self.n += 1
        return self.n - 1


def fn(name, **kw):
    d = {'fn': name}
    d.update(kw)
    return d


def tx(*ops):
    return {'fn': 't', 'ops': list(ops)}


def o_item(k):
    return {'op': 'item', 'k': jv(k)}


def o_add(v):
    return {'op': 'add', 'v': jv(v)}


def o_mul(n):
    return {'op': 'mul', 'n': n}


def o_or(v):
    return {'op': 'or', 'v': jv(v)}


def o_mod(n):
    return {'op': 'mod', 'n': n}


def cls(c):
    return {'fn': 'cls', 'c': c}


# T-expression chains per item family; the mutable operands are lists (w), dicts (m) and list items
T_KEYS = {
    'int': lambda r: r.choice([tx(o_add(1), o_mod(2)), tx(o_mul(2), o_mod(3)), tx(o_add(1)), tx(o_mul(0)),
                               tx(o_mul(-1)), tx(o_add(True), o_mod(3))]),
    'rec': lambda r: r.choice([tx(o_item('a'), o_add(1)), tx(o_item('b'), o_add('s')), tx(o_item('b'), o_mul(2)),
                               tx(o_item('w'), o_add([7]), o_item(0)), tx(o_item('w'), o_mul(2), o_item(-1)),
                               tx(o_item('w'), o_add([0, 1]), o_item(-2)),
                               tx(o_item('m'), o_or({'zz': 5}), o_item('zz')), tx(o_or({'g': 'all'}), o_item('g')),
                               tx(o_item('a'), o_mod(2))]),
    'seq': lambda r: r.choice([tx(o_add([0]), o_item(0)), tx(o_mul(2), o_item(0)), tx(o_item(0), o_add(1)),
                               tx(o_item(0), o_mod(2)), tx(o_add([3, 4]), o_item(-2)), tx(o_mul(2), o_item(-1))]),
}
T_VALS = {
    'int': lambda r: r.choice([tx(o_add(1)), tx(o_mul(2)), tx(o_mul(3), o_add(1)), tx(o_mod(3))]),
    'rec': lambda r: r.choice([tx(o_item('w'), o_add([9])), tx(o_item('w'), o_mul(2)), tx(o_item('m'), o_or({'z': 1})),
                               tx(o_or({'zz': 0})), tx(o_item('w')), tx(o_item('w'), o_add([1]), o_add([2])),
                               tx(o_item('b'), o_add('!')), tx(o_item('v'), o_mul(2)),
                               tx(o_item('m'), o_or({'p': 7}), o_or({'q': 8}))]),
    'seq': lambda r: r.choice([tx(o_add([9])), tx(o_mul(2)), tx(o_add([1]), o_mul(2)), tx(o_mul(0)),
                               tx(o_add([8]), o_item(-1))]),
}
T_FLAT = {
    'rec': lambda r: r.choice([tx(o_item('w'), o_add([5])), tx(o_item('w'), o_mul(2)), tx(o_item('w'))]),
    'seq': lambda r: r.choice([tx(o_add([1])), tx(o_mul(2)), tx(o_add([]))]),
}
T_MERGE = {'rec': lambda r: r.choice([tx(o_item('m'), o_or({'r': 5})), tx(o_item('m')), tx(o_or({'zz': 1}))])}
T_SUM = {
    'int': lambda r: r.choice([tx(o_add(1)), tx(o_mul(3))]),
    'rec': lambda r: r.choice([tx(o_item('v'), o_add(1)), tx(o_item('v'), o_mul(2)), tx(o_item('a'))]),
    'seq': lambda r: r.choice([tx(o_item(0)), tx(o_item(0), o_add(1))]),
}
CLS_KEYS = {'int': ['type', 'str', 'bool', 'int'], 'rec': ['type', 'bool', 'str'], 'seq': ['type', 'bool', 'str']}


def key_fn(rng, fam, bias=None):
    """bias: 'tarith' / 'clsobj' force that class of key function"""
    c = rng.random()
    if bias == 'tarith' or (bias is None and c < 0.1):
        return T_KEYS[fam](rng)
    if bias == 'clsobj' or (bias is None and c < 0.18):
        return cls(rng.choice(CLS_KEYS[fam]))
    if fam == 'int':
        c = rng.random()
        if c < 0.5:
            return fn('mod', n=rng.choice([2, 2, 3, 4, 1]))
        if c < 0.62:
            return fn('key_skip', n=rng.choice([2, 3]))
        if c < 0.72:
            return fn('skip_odd')
        if c < 0.82:
            return fn('skip_if', v=jv(rng.choice([0, 1, 2, 3])))
        if c < 0.92:
            return fn('ident', style=rng.choice(['T', 'lambda']))
        return fn('const', v=jv(rng.choice(['k', 0, None, True])))
    if fam == 'rec':
        return fn('item', k=jv(rng.choice(['g', 'g', 'a', 'b'])))
    return rng.choice([fn('len'), fn('item', k=jv(0)), fn('item', k=jv(-1))])


def val_fn(rng, fam, bias=None):
    c = rng.random()
    if bias == 'tarith' or (bias is None and c < 0.14):
        return T_VALS[fam](rng)
    if bias == 'clsobj' or (bias is None and c < 0.2):
        return cls(rng.choice(CLS_KEYS[fam]))
    if fam == 'int':
        return rng.choice([fn('ident'), fn('ident', style='lambda'), fn('skip_odd'), fn('mod', n=3),
                           fn('skip_if', v=jv(rng.choice([1, 2]))), fn('ident')])
    if fam == 'rec':
        return rng.choice([fn('ident'), fn('item', k=jv('v')), fn('item', k=jv('a')), fn('item', k=jv('w'))])
    return rng.choice([fn('ident'), fn('len'), fn('item', k=jv(0))])


def agg_choice(rng, fam, bias=None):
    ta = bias == 'tarith' or (bias is None and rng.random() < 0.15)
    if bias == 'clsobj' or (bias is None and rng.random() < 0.08):
        return rng.choice([{'agg': 'cls_last'}, {'agg': 'cls_count'}, {'agg': 'cls_last'}])
    if rng.random() < 0.07:
        return {'agg': 'sample', 'size': rng.choice([0, 1, 2, 2, 3]), 'tbl': []}
    if fam == 'int':
        if ta:
            return {'agg': 'sum', 'f': T_SUM['int'](rng)}
        return rng.choice([{'agg': 'first'}, {'agg': 'max'}, {'agg': 'min'}, {'agg': 'avg'}, {'agg': 'count'},
                           {'agg': 'sum', 'f': fn('ident')}, {'agg': 'sum'}, {'agg': 'sum', 'f': fn('mod', n=3)},
                           {'agg': 'max'}, {'agg': 'avg'}])
    if fam == 'rec':
        if ta:
            return rng.choice([{'agg': 'flatten', 'f': T_FLAT['rec'](rng)}, {'agg': 'merge', 'f': T_MERGE['rec'](rng)},
                               {'agg': 'sum', 'f': T_SUM['rec'](rng)}, {'agg': 'flatten', 'f': T_FLAT['rec'](rng)}])
        return rng.choice([{'agg': 'first'}, {'agg': 'count'}, {'agg': 'sum', 'f': fn('item', k=jv('v'))},
                           {'agg': 'flatten', 'f': fn('item', k=jv('w'))}, {'agg': 'merge', 'f': fn('item', k=jv('m'))},
                           {'agg': 'merge'}, {'agg': 'flatten', 'f': fn('ident')}])
    if ta:
        return rng.choice([{'agg': 'flatten', 'f': T_FLAT['seq'](rng)}, {'agg': 'sum', 'f': T_SUM['seq'](rng)}])
    return rng.choice([{'agg': 'first'}, {'agg': 'count'}, {'agg': 'flatten'}, {'agg': 'flatten', 'f': fn('ident')},
                       {'agg': 'sum', 'f': fn('len')}, {'agg': 'count'}])


def leaf(rng, fam, ctr, allow_nested=True, bias=None):
    c = rng.random()
    if c < 0.32:
        return {'k': 'list', 'id': ctr.next(), 'f': val_fn(rng, fam, bias)}
    if c < 0.9:
        return {'k': 'agg', 'oid': ctr.next(), 'a': agg_choice(rng, fam, bias)}
    if fam == 'seq' and allow_nested and rng.random() < 0.35:
        inner = gen_spec(rng, 'int', ctr, rng.choice([0, 0, 1]), allow_nested=False)
        return {'k': 'nested', 'g': inner}
    if c < 0.96 or fam != 'seq' or not allow_nested:
        f = val_fn(rng, fam, bias)
        if f['fn'] in ('skip_odd', 'skip_if'):
            f = fn('ident')
        return {'k': 'fn', 'f': f}
    inner = gen_spec(rng, 'int', ctr, rng.choice([0, 0, 1]), allow_nested=False)
    return {'k': 'nested', 'g': inner}


def gen_spec(rng, fam, ctr, depth, allow_nested=True, bias=None):
    """bias is applied at ONE randomly chosen position (a key level or the leaf) — every position is hit"""
    pos = rng.randint(0, depth) if bias else None
    return _gen_spec(rng, fam, ctr, depth, allow_nested, bias, pos)


def _gen_spec(rng, fam, ctr, depth, allow_nested, bias, pos):
    if depth == 0:
        return leaf(rng, fam, ctr, allow_nested, bias if pos == 0 else None)
    key = key_fn(rng, fam, bias if pos == depth else None)
    return mk_dict(ctr, key, _gen_spec(rng, fam, ctr, depth - 1, allow_nested, bias, pos))


def stop_free_leaf(s, no_avg=False):
    """replace STOP sources inside (for the main stream below key levels)"""
    if s['k'] == 'agg' and s['a']['agg'] == 'first':
        s['a'] = {'agg': 'count'}
    if no_avg and s['k'] == 'agg' and s['a']['agg'] == 'avg':
        s['a'] = {'agg': 'sum'}      # Avg's [sum, count] is modelled with an exact int sum (visible only in corrupted trees)
    if no_avg and s['k'] == 'agg' and s['a']['agg'] == 'sample':
        s['a'] = {'agg': 'count'}
    if s['k'] in ('dict', 'limit'):
        stop_free_leaf(s['sub'], no_avg)
    return s


def gen_item(rng, fam):
    if fam == 'int':
        return jv(rng.choice([True, False]) if rng.random() < 0.06 else rng.randint(-3, 12))
    if fam == 'rec':
        return jv({'g': rng.choice(['x', 'y', 'z', 0, 1]), 'a': rng.randint(0, 3), 'b': rng.choice(['p', 'q']),
                   'v': rng.randint(-5, 20), 'w': [rng.randint(0, 9) for _ in range(rng.choice([0, 1, 2]))],
                   'm': {rng.choice(['p', 'q', 'r']): rng.randint(0, 9) for _ in range(rng.choice([0, 1, 2]))}})
    xs = [rng.randint(0, 9) for _ in range(rng.choice([0, 1, 2, 3]))]
    return jv(xs if rng.random() < 0.7 else tuple(xs))


def gen_items(rng, fam, n=None):
    n = rng.choice([0, 1, 2, 3, 4, 5, 6, 8, 12]) if n is None else n
    return [gen_item(rng, fam) for _ in range(n)]


def add_sharing(rng, fam, targets, shared, force=False):
    """the same item object at several positions (of one or several targets); a list / dict field
    shared by several items"""
    if fam == 'int' or not (force or rng.random() < 0.3):
        return
    places = [(ti, i) for ti, t in enumerate(targets) for i in range(len(t)) if 'sh' not in (t[i] or {})]
    for _ in range(rng.choice([1, 1, 2])):
        if not places:
            return
        ti, i = rng.choice(places)
        c = rng.random()
        if c < 0.6 or fam == 'seq':
            # the whole item becomes a shared object that occurs again
            shared.append(targets[ti][i])
            ref = {'sh': len(shared) - 1}
            targets[ti][i] = ref
            for _ in range(rng.choice([1, 1, 2])):
                tj = rng.randrange(len(targets))
                targets[tj].insert(rng.randint(0, len(targets[tj])), dict(ref))
        else:
            # a field of a record is shared with another record
            it = targets[ti][i]
            fld = rng.choice(['w', 'm'])
            if not (isinstance(it, dict) and 'd' in it):
                continue
            ent = next((e for e in it['d'] if e[0] == jv(fld)), None)
            others = [(tj, j) for (tj, j) in places if (tj, j) != (ti, i) and 'd' in (targets[tj][j] or {})]
            if ent is None or not others or 'sh' in (ent[1] or {}):
                continue
            shared.append(ent[1])
            ref = {'sh': len(shared) - 1}
            ent[1] = ref
            for tj, j in rng.sample(others, min(len(others), rng.choice([1, 2]))):
                for e in targets[tj][j]['d']:
                    if e[0] == jv(fld):
                        e[1] = dict(ref)
        places = [(ti, i) for ti, t in enumerate(targets) for i in range(len(t)) if 'sh' not in (t[i] or {})]


def set_key(d, key, ctr):
    """the key function of a dict level; its key-spec object number: a class object is itself"""
    d['key'] = key
    if key['fn'] == 'cls':
        d['kid'] = CLS_BASE + CLS_IDX[key['c']]
    elif d.get('kid', CLS_BASE) >= CLS_BASE:
        d['kid'] = ctr.next()
    return d


def mk_dict(ctr, key, sub):
    return set_key({'k': 'dict', 'id': ctr.next(), 'sub': sub}, key, ctr)


def first_dict(s):
    while s['k'] in ('limit',):
        s = s['sub']
    return s if s['k'] == 'dict' else None


def deepest_sub_holder(s):
    """the innermost dict node (its 'sub' is the leaf)"""
    d = first_dict(s)
    if d is None:
        return None
    while d['sub']['k'] == 'dict':
        d = d['sub']
    return d


STREAMS = ['main', 'toplimit', 'mutate', 'h1', 'h2', 'hist', 'tarith', 'quiet']
WEIGHTS = [0.38, 0.08, 0.12, 0.10, 0.08, 0.11, 0.09, 0.04]


def gen_case(rng, tier, stream=None):
    ctr = Ctr()
    fam = rng.choice(['int', 'int', 'int', 'rec', 'rec', 'seq'])
    st = stream or rng.choices(STREAMS, WEIGHTS)[0]
    if st == 'tarith' and fam == 'int' and rng.random() < 0.8:
        fam = rng.choice(['rec', 'rec', 'seq'])
    depth = rng.choice([0, 1, 1, 1, 2, 2, 3])
    bias = {'tarith': 'tarith', 'hist': rng.choice(['clsobj', 'clsobj', None])}.get(st)
    spec = gen_spec(rng, fam, ctr, depth, bias=bias)
    if st != 'h1':
        d = first_dict(spec)
        if d is not None:
            stop_free_leaf(d['sub'], st == 'h2')
        if st == 'h2':
            stop_free_leaf(spec, True)
    if st == 'toplimit' or (st == 'main' and rng.random() < 0.1):
        spec = {'k': 'limit', 'oid': ctr.next(), 'n': rng.choice([0, 1, 2, 3, 3, 5, 8]), 'sub': spec}
    targets = [gen_items(rng, fam) for _ in range(rng.choice([1, 1, 2, 3]))]
    specs = [spec]
    if st == 'quiet':
        # STOP sources that do not fire: Limit(n) below the key levels with n above every bucket size,
        # First under a key function that gives every item its own bucket
        d = deepest_sub_holder(spec)
        if d is not None:
            if rng.random() < 0.6:
                d['sub'] = {'k': 'limit', 'oid': ctr.next(), 'n': rng.choice([12, 13, 40]), 'sub': d['sub']}
            elif fam == 'int':
                set_key(d, fn('ident'), ctr)
                d['sub'] = {'k': 'agg', 'oid': ctr.next(), 'a': {'agg': 'first'}}
                targets = [sorted({json.dumps(x) for x in t if x is not None and 'i' in x}) for t in targets]
                targets = [[json.loads(x) for x in t] for t in targets]
                for t in targets:
                    rng.shuffle(t)
    if st == 'mutate':
        m = rng.random()
        r = rng.choice(targets)
        if m < 0.35 and r:
            r.insert(rng.randint(0, len(r)), jv(rng.choice(['zz', None, [1], {'q': 1}, 3])))
        elif m < 0.5:
            d = deepest_sub_holder(spec)
            if d is not None and d['sub']['k'] == 'list':
                d['sub']['f'] = fn('stop_at', n=rng.choice([2, 5]))
            elif spec['k'] == 'list':
                spec['f'] = fn('stop_at', n=rng.choice([2, 5]))
        elif m < 0.65:
            d = first_dict(spec)
            if d is not None:
                set_key(d, fn('item', k=jv('nope')), ctr)
        elif m < 0.8:
            d = first_dict(spec)
            if d is not None:
                set_key(d, fn('stop_at', n=rng.choice([3, 6])), ctr)
        else:
            # the parentheses of an aggregator were forgotten: the CLASS is the leaf
            lf = {'k': 'agg', 'oid': ctr.next(), 'a': {'agg': 'unbound', 'of': rng.choice(['First', 'Max', 'Min', 'Avg'])}}
            d = deepest_sub_holder(spec)
            if d is not None:
                d['sub'] = lf
            else:
                spec = lf
                specs = [spec]
    if st == 'h1':
        d = deepest_sub_holder(spec)
        if d is None:
            spec = mk_dict(ctr, key_fn(rng, fam), spec)
            specs = [spec]
            d = spec
        c = rng.random()
        if c < 0.5:
            d['sub'] = {'k': 'agg', 'oid': ctr.next(), 'a': {'agg': 'first'}}
        elif c < 0.8:
            d['sub'] = {'k': 'limit', 'oid': ctr.next(), 'n': rng.choice([1, 2, 3]),
                        'sub': {'k': 'list', 'id': ctr.next(), 'f': fn('ident')}}
        else:
            d['sub'] = {'k': 'list', 'id': ctr.next(), 'f': fn('stop_at', n=rng.choice([3, 6]))}
            if fam != 'int':
                d['sub'] = {'k': 'agg', 'oid': ctr.next(), 'a': {'agg': 'first'}}
    if st == 'h2':
        d = first_dict(spec)
        if d is None:
            spec = mk_dict(ctr, key_fn(rng, fam), spec)
            specs = [spec]
            d = spec
        tgt = d if rng.random() < 0.7 else deepest_sub_holder(spec)
        probe = None
        for r in targets:
            if r:
                probe = rng.choice(r)
        c = rng.random()
        scalar = isinstance(probe, dict) and ('i' in probe or 'b' in probe or 's' in probe)
        set_key(tgt, fn('ident'), ctr)      # (a class object as key function gives its number back)
        if c < 0.6 and scalar:
            tgt['key'] = fn('id_if', v=probe, n=tgt['id'])
        elif c < 0.75:
            tgt['key'] = fn('id_of', n=tgt['id'])
        elif c < 0.9 and scalar:
            tgt['key'] = fn('obj_if', v=probe, n=tgt['kid'])
        else:
            # the id of ANOTHER container (harmless) or of the leaf list
            other = tgt['sub'].get('id', tgt['id'])
            tgt['key'] = fn('id_if', v=probe if scalar else jv(1), n=other)
    # ---- the history
    shared = []
    if st != 'h2':
        add_sharing(rng, fam, targets, shared, force=(st == 'tarith' and rng.random() < 0.7))
    evals = [[0, i] for i in range(len(targets))]
    if st == 'hist':
        # further spec objects (each with its own counter space), evaluated in between, in every order
        for _ in range(rng.choice([1, 1, 2])):
            c2 = Ctr()
            s2 = gen_spec(rng, fam, c2, rng.choice([0, 1, 1, 2]), bias=rng.choice(['clsobj', 'clsobj', None]))
            d = first_dict(s2)
            if d is not None:
                stop_free_leaf(d['sub'])
            specs.append(s2)
        evals = [[si, rng.randrange(len(targets))] for si in range(len(specs))]
        for _ in range(rng.choice([0, 1, 2, 3])):
            evals.append([rng.randrange(len(specs)), rng.randrange(len(targets))])
        rng.shuffle(evals)
    elif st != 'h2' and rng.random() < (0.8 if st == 'tarith' else 0.3):
        # the same spec object over the same target object again
        for _ in range(rng.choice([1, 1, 2])):
            evals.insert(rng.randint(0, len(evals)), [0, rng.randrange(len(targets))])
    tbl = [rng.randint(0, 20) for _ in range(rng.choice([1, 3, 5, 7]))] if rng.random() < 0.9 else []
    case = {'specs': specs, 'shared': shared, 'targets': targets, 'evals': evals, 'rng': tbl, 'stream': st}
    for s in specs:
        set_tbl(s, tbl)
    return case


def generate(rng, tier, scale, stream=None, **focus):
    n = (1500 if tier == 'quick' else 40000) * scale
    for _ in range(n):
        yield gen_case(rng, tier, stream)
    if tier == 'thorough' and not stream:
        yield from exhaustive()
        yield from exhaustive_histories()


def exhaustive():
    """every spec of a small grammar (<= 2 key levels) over fixed int item lists, evaluated twice"""
    keyfns = [fn('mod', n=2), fn('mod', n=3), fn('key_skip', n=2), fn('skip_odd'), fn('const', v=jv('k')),
              cls('bool'), tx(o_add(1), o_mod(2))]
    leaves = [lambda c: {'k': 'list', 'id': c.next(), 'f': fn('ident')},
              lambda c: {'k': 'list', 'id': c.next(), 'f': fn('skip_odd')},
              lambda c: {'k': 'fn', 'f': fn('ident')},
              lambda c: {'k': 'limit', 'oid': c.next(), 'n': 2, 'sub': {'k': 'list', 'id': c.next(), 'f': fn('ident')}}]
    for a in ('first', 'max', 'min', 'avg', 'count', 'sum', 'cls_last', 'cls_count'):
        leaves.append(lambda c, a=a: {'k': 'agg', 'oid': c.next(), 'a': {'agg': a}})
    leaves.append(lambda c: {'k': 'agg', 'oid': c.next(), 'a': {'agg': 'sample', 'size': 2, 'tbl': []}})
    runs_list = [[[1, 2, 3, 4, 5, 6, 7]], [[0, 2, 1], [4]], [[]], [[3, 3, 3]], [[5, 1, 4, 1, 2, 2]]]
    import itertools
    for depth in (0, 1, 2):
        for keys in itertools.product(keyfns, repeat=depth):
            for lf in leaves:
                for lim in (None, 2):
                    for runs in runs_list:
                        c = Ctr()
                        s = lf(c)
                        for kf in reversed(keys):
                            s = mk_dict(c, json.loads(json.dumps(kf)), s)
                        if lim is not None:
                            s = {'k': 'limit', 'oid': c.next(), 'n': lim, 'sub': s}
                        yield {'spec': s, 'runs': [[jv(x) for x in r] for r in runs], 'rng': [4, 0, 1],
                               'stream': 'exhaustive'}


def exhaustive_histories():
    """class-object nodes of both kinds (plain callables / aggregator classes) and ordinary nodes, two or
    three spec objects, EVERY order of evaluation, over shared mutable items"""
    import itertools

    def mk(keyf, leaf_a=None, leaf_f=None):
        c = Ctr()
        if leaf_a is not None:
            lf = {'k': 'agg', 'oid': c.next(), 'a': dict(leaf_a)}
        else:
            lf = {'k': 'list', 'id': c.next(), 'f': leaf_f}
        if keyf is None:
            return lf
        return mk_dict(c, keyf, lf)
    pool = [mk(fn('len'), {'agg': 'cls_last'}), mk(cls('type'), leaf_f=fn('ident')), mk(cls('bool'), {'agg': 'count'}),
            mk(fn('len'), {'agg': 'cls_count'}), mk(None, {'agg': 'cls_last'}), mk(None, leaf_f=cls('str')),
            mk(fn('len'), {'agg': 'flatten', 'f': tx(o_mul(2))}), mk(tx(o_add([0]), o_item(0)), leaf_f=tx(o_add([9]))),
            mk(fn('len'), {'agg': 'unbound', 'of': 'First'}), mk(cls('type'), {'agg': 'cls_count'})]
    shared = [jv([1, 2]), jv([3])]
    target = [{'sh': 0}, {'sh': 1}, jv([4, 5, 6]), {'sh': 0}, jv((7,))]
    for k in (2, 3):
        for combo in itertools.permutations(range(len(pool)), k):
            if k == 3 and combo[0] > 3:
                continue
            yield {'specs': [json.loads(json.dumps(pool[i])) for i in combo], 'shared': shared,
                   'targets': [target], 'evals': [[i, 0] for i in range(k)] + [[0, 0]], 'rng': [2],
                   'stream': 'exhaustive-hist'}


def corpus():
    """the stored witnesses of the two known defects, and the docstring examples"""
    out = []
    # F9: glom([0, 2, 1], Group({T % 2: First()})) == {0: 0}
    out.append({'spec': {'k': 'dict', 'id': 0, 'kid': 1, 'key': fn('mod', n=2),
                         'sub': {'k': 'agg', 'oid': 2, 'a': {'agg': 'first'}}},
                'runs': [[jv(0), jv(2), jv(1)]], 'stream': 'corpus'})
    # F10: a bucket key equal to id(spec dict)
    out.append({'spec': {'k': 'dict', 'id': 0, 'kid': 1, 'key': fn('id_if', v=jv(2), n=0),
                         'sub': {'k': 'list', 'id': 2, 'f': fn('ident')}},
                'runs': [[jv(1), jv(2), jv(3)]], 'stream': 'corpus'})
    out.append({'spec': {'k': 'dict', 'id': 0, 'kid': 1, 'key': fn('mod', n=2),
                         'sub': {'k': 'list', 'id': 2, 'f': fn('ident')}},
                'runs': [[jv(x) for x in range(10)], [jv(x) for x in range(3)]], 'stream': 'corpus'})
    out.append({'spec': {'k': 'limit', 'oid': 5, 'n': 5, 'sub':
                         {'k': 'dict', 'id': 0, 'kid': 1, 'key': fn('mod', n=2),
                          'sub': {'k': 'limit', 'oid': 2, 'n': 2, 'sub': {'k': 'list', 'id': 3, 'f': fn('ident')}}}},
                'runs': [[jv(x) for x in range(10)]], 'stream': 'corpus'})
    # class objects as nodes, both kinds, both orders, in one process
    last = {'k': 'dict', 'id': 0, 'kid': 1, 'key': fn('mod', n=2), 'sub': {'k': 'agg', 'oid': 2, 'a': {'agg': 'cls_last'}}}
    bytype = {'k': 'dict', 'id': 0, 'kid': CLS_BASE + CLS_IDX['type'], 'key': cls('type'),
              'sub': {'k': 'list', 'id': 2, 'f': fn('ident')}}
    nums = [jv(x) for x in (3, 8, 5, 2, 7)]
    mixed = [jv(x) for x in (1, 'a', None, 'b', 3, True)]
    out.append({'specs': [last, bytype], 'shared': [], 'targets': [nums, mixed],
                'evals': [[0, 0], [1, 1], [1, 0], [0, 0]], 'stream': 'corpus'})
    out.append({'specs': [bytype, last], 'shared': [], 'targets': [mixed, nums],
                'evals': [[0, 0], [1, 1], [0, 1], [1, 1]], 'stream': 'corpus'})
    # T arithmetic over mutable items: one row object twice, key and leaf from the same field, the same
    # spec object twice over the same target object
    out.append({'specs': [{'k': 'dict', 'id': 0, 'kid': 1, 'key': tx(o_item(0)),
                           'sub': {'k': 'list', 'id': 2, 'f': tx(o_add(['end']))}}],
                'shared': [jv(['a', 1])], 'targets': [[{'sh': 0}, jv(['b', 2]), {'sh': 0}]],
                'evals': [[0, 0], [0, 0]], 'stream': 'corpus'})
    out.append({'specs': [{'k': 'dict', 'id': 0, 'kid': 1, 'key': tx(o_item('w'), o_add([0]), o_item(0)),
                           'sub': {'k': 'agg', 'oid': 2, 'a': {'agg': 'flatten', 'f': tx(o_item('w'), o_mul(2))}}}],
                'shared': [jv([4, 5])],
                'targets': [[jv({'w': [1]}), {'d': [[jv('w'), {'sh': 0}]]}, {'d': [[jv('w'), {'sh': 0}]]}]],
                'evals': [[0, 0], [0, 0]], 'stream': 'corpus'})
    out.append({'specs': [{'k': 'dict', 'id': 0, 'kid': 1, 'key': fn('len'),
                           'sub': {'k': 'agg', 'oid': 2, 'a': {'agg': 'sample', 'size': 2, 'tbl': []}}}],
                'shared': [], 'targets': [[jv([x] * (x % 2 + 1)) for x in range(9)]], 'evals': [[0, 0], [0, 0]],
                'rng': [0, 5, 1, 9], 'stream': 'corpus'})
    p = os.path.join(os.path.dirname(os.path.dirname(os.path.dirname(os.path.abspath(__file__)))),
                     'corpus', 'C16.jsonl')
    if os.path.exists(p):
        for line in open(p):
            if line.strip():
                out.append(json.loads(line))
    return out


def key(case):
    c = normalize(case)
    return {'specs': c['specs'], 'shared': c['shared'], 'targets': c['targets'], 'evals': c['evals'], 'rng': c['rng']}


def nontrivial(case, verdict):
    c = normalize(case)
    return any(len(c['targets'][ti]) >= 2 for _, ti in c['evals'])


def classify(case, verdict):
    """name of the known defect a failing case is an instance of — only when the implementation
    behaves exactly as the MODEL of the current code does on it (so any other deviation from the
    hand-written loop is still reported)"""
    if not verdict.get('agree'):
        return None
    shape = verdict.get('known_shape') or ''
    return shape or None


H2_FNS = ('id_of', 'id_if', 'obj_if')


def known_features(s, below=False):
    """does the spec carry what the two known defects need (a key function returning an id /
    a spec object; a STOP source under a key level)?"""
    k = s['k']
    if k == 'dict':
        return s['key']['fn'] in H2_FNS or (s['key']['fn'] == 'stop_at' and below) or known_features(s['sub'], True)
    if k == 'limit':
        return below or known_features(s['sub'], below)
    if k == 'agg':
        return below and s['a']['agg'] == 'first'
    if k in ('list', 'fn'):
        return below and s['f']['fn'] == 'stop_at'
    if k == 'nested':
        return known_features(s['g'], False)
    return False


def strip_features(s, below=False):
    s = dict(s)
    k = s['k']
    if k == 'dict':
        if s['key']['fn'] in H2_FNS or s['key']['fn'] == 'stop_at':
            s['key'] = fn('ident')
        s['sub'] = strip_features(s['sub'], True)
    elif k == 'limit':
        if below:
            return strip_features(s['sub'], below)
        s['sub'] = strip_features(s['sub'], below)
    elif k == 'agg' and below and s['a']['agg'] == 'first':
        s['a'] = {'agg': 'count'}
    elif k in ('list', 'fn') and below and s['f']['fn'] == 'stop_at':
        s['f'] = fn('ident')
    elif k == 'nested':
        s['g'] = strip_features(s['g'], False)
    return s


def _inline(j, n, val):
    if not isinstance(j, dict):
        return j
    if 'sh' in j:
        return json.loads(json.dumps(val)) if j['sh'] == n else j
    if 'l' in j:
        return {'l': [_inline(x, n, val) for x in j['l']]}
    if 't' in j:
        return {'t': [_inline(x, n, val) for x in j['t']]}
    if 'd' in j:
        return {'d': [[_inline(k, n, val), _inline(v, n, val)] for k, v in j['d']]}
    return j


def shrink(case):
    base = normalize(case)
    if any(known_features(s) for s in base['specs']):
        # first get rid of what the two KNOWN defects need; while it is there, do not shrink further
        # (a greedy shrinker would drift from a new failure into a known one)
        c = dict(base); c['specs'] = [strip_features(s) for s in base['specs']]
        yield c
        return
    specs, targets, evals, shared = base['specs'], base['targets'], base['evals'], base['shared']
    # fewer evaluations
    for i in range(len(evals)):
        if len(evals) > 1:
            c = dict(base); c['evals'] = evals[:i] + evals[i + 1:]
            yield c
    # spec objects / target objects nobody evaluates any more
    used_s = sorted({si for si, _ in evals})
    if len(used_s) < len(specs):
        c = dict(base); c['specs'] = [specs[i] for i in used_s]
        c['evals'] = [[used_s.index(si), ti] for si, ti in evals]
        yield c
    used_t = sorted({ti for _, ti in evals})
    if len(used_t) < len(targets):
        c = dict(base); c['targets'] = [targets[i] for i in used_t]
        c['evals'] = [[si, used_t.index(ti)] for si, ti in evals]
        yield c
    # fewer items
    for i, r in enumerate(targets):
        for j in range(len(r)):
            c = dict(base); c['targets'] = targets[:i] + [r[:j] + r[j + 1:]] + targets[i + 1:]
            yield c
    # less sharing: a shared object becomes separate equal objects
    for n in range(len(shared)):
        if any(json.dumps({'sh': n}, sort_keys=True) in json.dumps(t, sort_keys=True) for t in targets + shared):
            c = dict(base)
            c['targets'] = [[_inline(x, n, shared[n]) for x in t] for t in targets]
            c['shared'] = [_inline(x, n, shared[n]) if m != n else x for m, x in enumerate(shared)]
            yield c
    if shared and not any('"sh"' in json.dumps(t) for t in targets):
        c = dict(base); c['shared'] = []
        yield c
    # smaller specs
    for i, s in enumerate(specs):
        if s['k'] in ('limit', 'dict'):
            c = dict(base); c['specs'] = specs[:i] + [s['sub']] + specs[i + 1:]
            yield c
        if s['k'] == 'dict' and s['sub']['k'] == 'dict':
            c = dict(base); c['specs'] = specs[:i] + [dict(s, sub=s['sub']['sub'])] + specs[i + 1:]
            yield c
        if s['k'] == 'dict' and s['key']['fn'] not in ('ident', 'len'):
            for simple in (fn('ident'), fn('len')):
                s2 = dict(s, key=simple)
                if s2['kid'] >= CLS_BASE:
                    s2['kid'] = 900 + i
                c = dict(base); c['specs'] = specs[:i] + [s2] + specs[i + 1:]
                yield c


def focus(disagreements, facts_changed):
    streams = sorted({c.get('stream') for c, _ in disagreements
                      if c.get('stream') in ('h1', 'h2', 'toplimit', 'mutate', 'hist', 'tarith', 'quiet')})
    if len(streams) == 1:
        return {'stream': streams[0]}
    if not disagreements and facts_changed:
        # the statements of Group mode / of _t_eval's arithmetic changed and no case disagrees yet:
        # look where module state and in-place arithmetic would show
        return {}
    return {}
