"""C16 — Group mode: generators, implementation runner, classifier of the two known defects."""
import json
import os
import random
import struct

PROP = 'C16'
LEAN_MODULES = ['Glom.Props.C16']
FACT_FILES = ['GroupFacts', 'c16']
READY = True
MANIFEST = dict(
    text="Lean 4 theorems about a statement-by-statement model of Group mode (Group.glomit, GROUP with its single "
         "accumulator tree keyed by id(spec) / spec objects / bucket keys, the STOP marks and the `done` flag, First, "
         "Max, Min, Avg, Limit, Fold._agg, Merge._agg): for every spec tree of any depth, every item sequence and "
         "every key function, the result equals the dictionary of a hand-written bucketing loop (keys in order of first "
         "occurrence, values in encounter order, SKIP drops an item, every leaf equal to its plain-Python reference over "
         "the items routed to it) — c16_eq_reference_partial, proved under the two hypotheses the proof forces (no "
         "STOP source under a key level; bucket keys apart from id(spec)/key-spec objects), plus top-level Limit(n) = "
         "the first n items, top-level First, freshness of the tree on re-use and nesting.  The full statement is "
         "DISPROVED in the model by `decide` on the two concrete witnesses (c16_F9_counterexample, "
         "c16_F10_counterexample), on which model and real glom agree: both are genuine defects of /repo, listed as "
         "known findings.  Per-run facts obligation: the 113 statements of Group mode regenerated from /repo equal the "
         "statements the model transcribes.  Model tied to the code by differential execution.",
    note="partial: the equality theorem needs H1 (a STOP-producing leaf under a key level stops the whole level in the "
         "code: F9) and H2 (the tree mixes namespaces: F10).  trusted: Lean kernel + {propext, Classical.choice, "
         "Quot.sound}; extractor; harness/driver; one key-spec per dict level and one value-spec per list (the "
         "documented shape); key/value functions from a finite catalogue (T-expressions and lambdas); IEEE division of "
         "Avg is a primitive (float(sum)/count on exact integer sums, compared by bit pattern); Sample (random) is out "
         "of scope; runs in which a user function raises are outside the property (error classes still compared).",
    technique='Lean 4 simulation proof (tree-threading interpreter = bucketing loop) + decide on counterexample '
              'witnesses + facts obligation + differential correspondence',
    ref='DESIGN.md §3 C16')
RULE = ('type-directed: a Group spec tree is drawn first (0-3 key levels; key functions T % n, T[k], len and lambdas '
        'incl. SKIP-producing ones; leaf = [f] / First / Max / Min / Avg / Sum(f) / Count / Flatten(f) / Merge(f) / a '
        'bare function / a nested Group; optionally a top-level Limit(n)), then 1-3 item sequences of the family the '
        'spec needs (ints, bools, strs, small dicts, lists/tuples; 0-12 items), all evaluated with the SAME spec object; '
        'a one-edit mutation stream plants a wrong-typed item / missing key / STOP-producing function; two separate '
        'streams violate H1 (First / Limit / stop_at under a key level) and H2 (a key function returning id(spec dict) '
        'or the key-spec object) on purpose; thorough additionally enumerates all specs of a small grammar over fixed '
        'item lists. non-trivial = some run has >= 2 items; distinct = distinct (spec, runs).')
TRUSTED = ['the catalogue of key/value functions (Lean `Fn.apply` vs the Python lambdas / T-expressions below) and '
           'Python dict / comparison / iteration semantics as modelled in Glom/Model/C16.lean: validated by the '
           'correspondence only',
           'Avg: float(sum)/count as an IEEE primitive (Lean Float in the driver); averaged values are ints with |sum| < 2^53']
ASSUMPTIONS = ['one key-spec per dict level and one value-spec per list level (multi-entry levels are outside the model)',
               'object addresses (id()) are larger than every generated int (1e9)',
               'a SKIP-producing bare function in value position under a key level is skipped (keys are then ordered '
               'by first value, not first occurrence)',
               'runs in which a user function raises are outside the property']


# ------------------------------------------------------------------ values
def jv(v):
    if v is None:
        return None
    if isinstance(v, bool):
        return {'b': v}
    if isinstance(v, int):
        return {'i': v}
    if isinstance(v, str):
        return {'s': v}
    if isinstance(v, list):
        return {'l': [jv(x) for x in v]}
    if isinstance(v, tuple):
        return {'t': [jv(x) for x in v]}
    if isinstance(v, dict):
        return {'d': [[jv(k), jv(x)] for k, x in v.items()]}
    raise ValueError(v)


def dec(j, objs=None):
    from glom import SKIP, STOP
    if j is None:
        return None
    if 'b' in j:
        return j['b']
    if 'i' in j:
        return j['i']
    if 's' in j:
        return j['s']
    if 'sent' in j:
        return SKIP if j['sent'] == 'SKIP' else STOP
    if 'l' in j:
        return [dec(x, objs) for x in j['l']]
    if 't' in j:
        return tuple(dec(x, objs) for x in j['t'])
    if 'd' in j:
        return {dec(k, objs): dec(v, objs) for k, v in j['d']}
    if 'obj' in j:
        return objs[j['obj']]
    if 'id' in j:
        return id(objs[j['id']])
    raise ValueError(j)


def enc(v, ids, oids):
    from glom import SKIP, STOP
    if v is None:
        return None
    if v is SKIP:
        return {'sent': 'SKIP'}
    if v is STOP:
        return {'sent': 'STOP'}
    if isinstance(v, bool):
        return {'b': v}
    if isinstance(v, int):
        if v in ids:
            return {'id': ids[v]}
        return {'i': v}
    if isinstance(v, str):
        return {'s': v}
    if isinstance(v, float):
        return {'fbits': str(struct.unpack('<Q', struct.pack('<d', v))[0])}
    if id(v) in oids:
        return {'obj': oids[id(v)]}
    if type(v) is list:
        return {'l': [enc(x, ids, oids) for x in v]}
    if type(v) is tuple:
        return {'t': [enc(x, ids, oids) for x in v]}
    if type(v) is dict:
        return {'d': [[enc(k, ids, oids), enc(x, ids, oids)] for k, x in v.items()]}
    return {'s': '<unknown %s>' % type(v).__name__}


# ------------------------------------------------------------------ building the real spec
def build_fn(j, objs):
    from glom import T, SKIP, STOP
    name = j['fn']
    if name == 'ident':
        return T if j.get('style') != 'lambda' else (lambda t: t)
    if name == 'mod':
        return T % j['n']
    if name == 'item':
        return T[dec(j['k'])]
    if name == 'skip_odd':
        return lambda t: SKIP if t % 2 else t
    if name == 'skip_if':
        v = dec(j['v'])
        return lambda t: SKIP if t == v else t
    if name == 'key_skip':
        n = j['n']
        return lambda t: SKIP if t % n == 0 else t % n
    if name == 'stop_at':
        n = j['n']
        return lambda t: STOP if t >= n else t
    if name == 'id_of':
        n = j['n']
        return lambda t: id(objs[n])
    if name == 'id_if':
        v, n = dec(j['v']), j['n']
        return lambda t: id(objs[n]) if t == v else t
    if name == 'obj_if':
        v, n = dec(j['v']), j['n']
        return lambda t: objs[n] if t == v else t
    if name == 'len':
        return len
    if name == 'const':
        v = dec(j['v'])
        return lambda t: v
    raise ValueError(name)


def build_spec(j, objs):
    from glom.grouping import Group, First, Avg, Max, Min, Limit
    from glom.reduction import Sum, Count, Flatten, Merge
    k = j['k']
    if k == 'dict':
        keyfn = build_fn(j['key'], objs)
        d = {}
        objs[j['id']] = d
        objs[j['kid']] = keyfn
        d[keyfn] = build_spec(j['sub'], objs)
        return d
    if k == 'list':
        l = [build_fn(j['f'], objs)]
        objs[j['id']] = l
        return l
    if k == 'agg':
        a = j['a']
        n = a['agg']
        if n in ('sum', 'flatten', 'merge'):
            f = build_fn(a['f'], objs) if 'f' in a else None
            cls = {'sum': Sum, 'flatten': Flatten, 'merge': Merge}[n]
            o = cls(f) if f is not None else cls()
        else:
            o = {'first': First, 'max': Max, 'min': Min, 'avg': Avg, 'count': Count}[n]()
        objs[j['oid']] = o
        return o
    if k == 'fn':
        return build_fn(j['f'], objs)
    if k == 'limit':
        sub = build_spec(j['sub'], objs)
        o = Limit(j['n'], sub)
        objs[j['oid']] = o
        return o
    if k == 'nested':
        return Group(build_spec(j['g'], objs))
    raise ValueError(k)


def exc_class(e):
    for c in type(e).__mro__:
        if not c.__name__.startswith('GlomError.wrap'):
            return c
    return type(e)


def run_impl(case):
    import glom
    from glom.grouping import Group
    objs = {}
    spec = build_spec(case['spec'], objs)
    g = Group(spec)                      # ONE spec object for all runs
    ids = {id(o): n for n, o in objs.items() if type(o) in (dict, list)}
    oids = {id(o): n for n, o in objs.items() if type(o) not in (dict, list)}
    out = []
    for items in case['runs']:
        target = [dec(x, objs) for x in items]
        try:
            r = glom.glom(target, g)
            out.append({'ok': enc(r, ids, oids)})
        except Exception as e:
            out.append({'err': exc_class(e).__name__})
    res = dict(case)
    res['impl'] = out
    return res


# ------------------------------------------------------------------ generators
class Ctr:
    def __init__(self):
        self.n = 0

    def next(self):
        self.n += 1
        return self.n - 1


def fn(name, **kw):
    d = {'fn': name}
    d.update(kw)
    return d


def key_fn(rng, fam):
    if fam == 'int':
        c = rng.random()
        if c < 0.5:
            return fn('mod', n=rng.choice([2, 2, 3, 4, 1]))
        if c < 0.62:
            return fn('key_skip', n=rng.choice([2, 3]))
        if c < 0.72:
            return fn('skip_odd')
        if c < 0.82:
            return fn('skip_if', v=jv(rng.choice([0, 1, 2, 3])))
        if c < 0.92:
            return fn('ident', style=rng.choice(['T', 'lambda']))
        return fn('const', v=jv(rng.choice(['k', 0, None, True])))
    if fam == 'rec':
        return fn('item', k=jv(rng.choice(['g', 'g', 'a', 'b'])))
    return rng.choice([fn('len'), fn('item', k=jv(0)), fn('item', k=jv(-1))])


def val_fn(rng, fam):
    if fam == 'int':
        return rng.choice([fn('ident'), fn('ident', style='lambda'), fn('skip_odd'), fn('mod', n=3),
                           fn('skip_if', v=jv(rng.choice([1, 2]))), fn('ident')])
    if fam == 'rec':
        return rng.choice([fn('ident'), fn('item', k=jv('v')), fn('item', k=jv('a')), fn('item', k=jv('w'))])
    return rng.choice([fn('ident'), fn('len'), fn('item', k=jv(0))])


def leaf(rng, fam, ctr, allow_nested=True):
    c = rng.random()
    if c < 0.32:
        return {'k': 'list', 'id': ctr.next(), 'f': val_fn(rng, fam)}
    if c < 0.9:
        if fam == 'int':
            a = rng.choice([{'agg': 'first'}, {'agg': 'max'}, {'agg': 'min'}, {'agg': 'avg'}, {'agg': 'count'},
                            {'agg': 'sum', 'f': fn('ident')}, {'agg': 'sum'}, {'agg': 'sum', 'f': fn('mod', n=3)},
                            {'agg': 'max'}, {'agg': 'avg'}])
        elif fam == 'rec':
            a = rng.choice([{'agg': 'first'}, {'agg': 'count'}, {'agg': 'sum', 'f': fn('item', k=jv('v'))},
                            {'agg': 'flatten', 'f': fn('item', k=jv('w'))}, {'agg': 'merge', 'f': fn('item', k=jv('m'))},
                            {'agg': 'merge'}, {'agg': 'flatten', 'f': fn('ident')}])
        else:
            a = rng.choice([{'agg': 'first'}, {'agg': 'count'}, {'agg': 'flatten'}, {'agg': 'flatten', 'f': fn('ident')},
                            {'agg': 'sum', 'f': fn('len')}, {'agg': 'count'}])
        return {'k': 'agg', 'oid': ctr.next(), 'a': a}
    if fam == 'seq' and allow_nested and rng.random() < 0.35:
        inner = gen_spec(rng, 'int', ctr, rng.choice([0, 0, 1]), top=True, allow_nested=False)
        return {'k': 'nested', 'g': inner}
    if c < 0.96 or fam != 'seq' or not allow_nested:
        f = val_fn(rng, fam)
        if f['fn'] in ('skip_odd', 'skip_if'):
            f = fn('ident')
        return {'k': 'fn', 'f': f}
    inner = gen_spec(rng, 'int', ctr, rng.choice([0, 0, 1]), top=True, allow_nested=False)
    return {'k': 'nested', 'g': inner}


def gen_spec(rng, fam, ctr, depth, top=True, allow_nested=True):
    if depth == 0:
        s = leaf(rng, fam, ctr, allow_nested)
    else:
        did, kid = ctr.next(), ctr.next()
        s = {'k': 'dict', 'id': did, 'kid': kid, 'key': key_fn(rng, fam),
             'sub': gen_spec(rng, fam, ctr, depth - 1, top=False, allow_nested=allow_nested)}
    return s


def stop_free_leaf(s, no_avg=False):
    """replace STOP sources inside (for the main stream below key levels)"""
    if s['k'] == 'agg' and s['a']['agg'] == 'first':
        s['a'] = {'agg': 'count'}
    if no_avg and s['k'] == 'agg' and s['a']['agg'] == 'avg':
        s['a'] = {'agg': 'sum'}      # Avg's [sum, count] is modelled with an exact int sum (visible only in corrupted trees)
    if s['k'] in ('dict', 'limit'):
        stop_free_leaf(s['sub'], no_avg)
    return s


def gen_items(rng, fam, n=None):
    n = rng.choice([0, 1, 2, 3, 4, 5, 6, 8, 12]) if n is None else n
    out = []
    for _ in range(n):
        if fam == 'int':
            c = rng.random()
            out.append(jv(rng.choice([True, False]) if c < 0.06 else rng.randint(-3, 12)))
        elif fam == 'rec':
            d = {'g': rng.choice(['x', 'y', 'z', 0, 1]), 'a': rng.randint(0, 3), 'b': rng.choice(['p', 'q']),
                 'v': rng.randint(-5, 20), 'w': [rng.randint(0, 9) for _ in range(rng.choice([0, 1, 2]))],
                 'm': {rng.choice(['p', 'q', 'r']): rng.randint(0, 9) for _ in range(rng.choice([0, 1, 2]))}}
            out.append(jv(d))
        else:
            k = rng.choice([0, 1, 2, 3])
            xs = [rng.randint(0, 9) for _ in range(k)]
            out.append(jv(xs if rng.random() < 0.7 else tuple(xs)))
    return out


def first_dict(s):
    while s['k'] in ('limit',):
        s = s['sub']
    return s if s['k'] == 'dict' else None


def deepest_sub_holder(s):
    """the innermost dict node (its 'sub' is the leaf)"""
    d = first_dict(s)
    if d is None:
        return None
    while d['sub']['k'] == 'dict':
        d = d['sub']
    return d


def gen_case(rng, tier, stream=None):
    ctr = Ctr()
    fam = rng.choice(['int', 'int', 'int', 'rec', 'rec', 'seq'])
    depth = rng.choice([0, 1, 1, 1, 2, 2, 3])
    spec = gen_spec(rng, fam, ctr, depth)
    st = stream or rng.choices(['main', 'toplimit', 'mutate', 'h1', 'h2'], [0.55, 0.12, 0.13, 0.11, 0.09])[0]
    if st in ('main', 'toplimit', 'mutate', 'h2'):
        d = first_dict(spec)
        if d is not None:
            stop_free_leaf(d['sub'], st == 'h2')
        if st == 'h2':
            stop_free_leaf(spec, True)
    if st == 'toplimit' or (st == 'main' and rng.random() < 0.1):
        spec = {'k': 'limit', 'oid': ctr.next(), 'n': rng.choice([0, 1, 2, 3, 3, 5, 8]), 'sub': spec}
    runs = [gen_items(rng, fam) for _ in range(rng.choice([1, 1, 2, 3]))]
    if st == 'mutate':
        m = rng.random()
        r = rng.choice(runs)
        if m < 0.4 and r:
            r.insert(rng.randint(0, len(r)), jv(rng.choice(['zz', None, [1], {'q': 1}, 3])))
        elif m < 0.6:
            d = deepest_sub_holder(spec)
            if d is not None and d['sub']['k'] == 'list':
                d['sub']['f'] = fn('stop_at', n=rng.choice([2, 5]))
            elif spec['k'] == 'list':
                spec['f'] = fn('stop_at', n=rng.choice([2, 5]))
        elif m < 0.8:
            d = first_dict(spec)
            if d is not None:
                d['key'] = fn('item', k=jv('nope'))
        else:
            d = first_dict(spec)
            if d is not None:
                d['key'] = fn('stop_at', n=rng.choice([3, 6]))
    if st == 'h1':
        d = deepest_sub_holder(spec)
        if d is None:
            did, kid = ctr.next(), ctr.next()
            spec = {'k': 'dict', 'id': did, 'kid': kid, 'key': key_fn(rng, fam), 'sub': spec}
            d = spec
        c = rng.random()
        if c < 0.5:
            d['sub'] = {'k': 'agg', 'oid': ctr.next(), 'a': {'agg': 'first'}}
        elif c < 0.8:
            d['sub'] = {'k': 'limit', 'oid': ctr.next(), 'n': rng.choice([1, 2, 3]),
                        'sub': {'k': 'list', 'id': ctr.next(), 'f': fn('ident')}}
        else:
            d['sub'] = {'k': 'list', 'id': ctr.next(), 'f': fn('stop_at', n=rng.choice([3, 6]))}
            if fam != 'int':
                d['sub'] = {'k': 'agg', 'oid': ctr.next(), 'a': {'agg': 'first'}}
    if st == 'h2':
        d = first_dict(spec)
        if d is None:
            did, kid = ctr.next(), ctr.next()
            spec = {'k': 'dict', 'id': did, 'kid': kid, 'key': key_fn(rng, fam), 'sub': spec}
            d = spec
        tgt = d if rng.random() < 0.7 else deepest_sub_holder(spec)
        probe = None
        for r in runs:
            if r:
                probe = rng.choice(r)
        c = rng.random()
        scalar = isinstance(probe, dict) and ('i' in probe or 'b' in probe or 's' in probe)
        if c < 0.6 and scalar:
            tgt['key'] = fn('id_if', v=probe, n=tgt['id'])
        elif c < 0.75:
            tgt['key'] = fn('id_of', n=tgt['id'])
        elif c < 0.9 and scalar:
            tgt['key'] = fn('obj_if', v=probe, n=tgt['kid'])
        else:
            # the id of ANOTHER container (harmless) or of the leaf list
            other = tgt['sub'].get('id', tgt['id'])
            tgt['key'] = fn('id_if', v=probe if scalar else jv(1), n=other)
    return {'spec': spec, 'runs': runs, 'stream': st}


def generate(rng, tier, scale, stream=None, **focus):
    n = (1500 if tier == 'quick' else 40000) * scale
    for _ in range(n):
        yield gen_case(rng, tier, stream)
    if tier == 'thorough' and not stream:
        yield from exhaustive()


def exhaustive():
    """every spec of a small grammar (<= 2 key levels) over fixed int item lists, evaluated twice"""
    keyfns = [fn('mod', n=2), fn('mod', n=3), fn('key_skip', n=2), fn('skip_odd'), fn('const', v=jv('k'))]
    leaves = [lambda c: {'k': 'list', 'id': c.next(), 'f': fn('ident')},
              lambda c: {'k': 'list', 'id': c.next(), 'f': fn('skip_odd')},
              lambda c: {'k': 'fn', 'f': fn('ident')}]
    for a in ('first', 'max', 'min', 'avg', 'count', 'sum'):
        leaves.append(lambda c, a=a: {'k': 'agg', 'oid': c.next(), 'a': {'agg': a}})
    runs_list = [[[1, 2, 3, 4, 5, 6, 7]], [[0, 2, 1], [4]], [[]], [[3, 3, 3]], [[5, 1, 4, 1, 2, 2]]]
    for depth in (0, 1, 2):
        import itertools
        for keys in itertools.product(keyfns, repeat=depth):
            for lf in leaves:
                for lim in (None, 2):
                    for runs in runs_list:
                        c = Ctr()
                        s = lf(c)
                        for kf in reversed(keys):
                            did, kid = c.next(), c.next()
                            s = {'k': 'dict', 'id': did, 'kid': kid, 'key': dict(kf), 'sub': s}
                        if lim is not None:
                            s = {'k': 'limit', 'oid': c.next(), 'n': lim, 'sub': s}
                        yield {'spec': s, 'runs': [[jv(x) for x in r] for r in runs], 'stream': 'exhaustive'}


def corpus():
    """the stored witnesses of the two known defects, and the docstring examples"""
    out = []
    # F9: glom([0, 2, 1], Group({T % 2: First()})) == {0: 0}
    out.append({'spec': {'k': 'dict', 'id': 0, 'kid': 1, 'key': fn('mod', n=2),
                         'sub': {'k': 'agg', 'oid': 2, 'a': {'agg': 'first'}}},
                'runs': [[jv(0), jv(2), jv(1)]], 'stream': 'corpus'})
    # F10: a bucket key equal to id(spec dict)
    out.append({'spec': {'k': 'dict', 'id': 0, 'kid': 1, 'key': fn('id_if', v=jv(2), n=0),
                         'sub': {'k': 'list', 'id': 2, 'f': fn('ident')}},
                'runs': [[jv(1), jv(2), jv(3)]], 'stream': 'corpus'})
    out.append({'spec': {'k': 'dict', 'id': 0, 'kid': 1, 'key': fn('mod', n=2),
                         'sub': {'k': 'list', 'id': 2, 'f': fn('ident')}},
                'runs': [[jv(x) for x in range(10)], [jv(x) for x in range(3)]], 'stream': 'corpus'})
    out.append({'spec': {'k': 'limit', 'oid': 5, 'n': 5, 'sub':
                         {'k': 'dict', 'id': 0, 'kid': 1, 'key': fn('mod', n=2),
                          'sub': {'k': 'limit', 'oid': 2, 'n': 2, 'sub': {'k': 'list', 'id': 3, 'f': fn('ident')}}}},
                'runs': [[jv(x) for x in range(10)]], 'stream': 'corpus'})
    p = os.path.join(os.path.dirname(os.path.dirname(os.path.dirname(os.path.abspath(__file__)))),
                     'corpus', 'C16.jsonl')
    if os.path.exists(p):
        for line in open(p):
            if line.strip():
                out.append(json.loads(line))
    return out


def key(case):
    return {'spec': case['spec'], 'runs': case['runs']}


def nontrivial(case, verdict):
    return any(len(r) >= 2 for r in case['runs'])


def classify(case, verdict):
    """name of the known defect a failing case is an instance of — only when the implementation
    behaves exactly as the MODEL of the current code does on it (so any other deviation from the
    hand-written loop is still reported)"""
    if not verdict.get('agree'):
        return None
    shape = verdict.get('known_shape') or ''
    return shape or None


H2_FNS = ('id_of', 'id_if', 'obj_if')


def known_features(s, below=False):
    """does the spec carry what the two known defects need (a key function returning an id /
    a spec object; a STOP source under a key level)?"""
    k = s['k']
    if k == 'dict':
        return s['key']['fn'] in H2_FNS or (s['key']['fn'] == 'stop_at' and below) or known_features(s['sub'], True)
    if k == 'limit':
        return below or known_features(s['sub'], below)
    if k == 'agg':
        return below and s['a']['agg'] == 'first'
    if k in ('list', 'fn'):
        return below and s['f']['fn'] == 'stop_at'
    if k == 'nested':
        return known_features(s['g'], False)
    return False


def strip_features(s, below=False):
    s = dict(s)
    k = s['k']
    if k == 'dict':
        if s['key']['fn'] in H2_FNS or s['key']['fn'] == 'stop_at':
            s['key'] = fn('ident')
        s['sub'] = strip_features(s['sub'], True)
    elif k == 'limit':
        if below:
            return strip_features(s['sub'], below)
        s['sub'] = strip_features(s['sub'], below)
    elif k == 'agg' and below and s['a']['agg'] == 'first':
        s['a'] = {'agg': 'count'}
    elif k in ('list', 'fn') and below and s['f']['fn'] == 'stop_at':
        s['f'] = fn('ident')
    elif k == 'nested':
        s['g'] = strip_features(s['g'], False)
    return s


def shrink(case):
    base = {k: v for k, v in case.items() if not k.startswith('impl')}
    if known_features(case['spec']):
        # first get rid of what the two KNOWN defects need; while it is there, do not shrink further
        # (a greedy shrinker would drift from a new failure into a known one)
        c = dict(base); c['spec'] = strip_features(case['spec'])
        yield c
        return
    runs = case['runs']
    for i in range(len(runs)):
        if len(runs) > 1:
            c = dict(base); c['runs'] = runs[:i] + runs[i + 1:]
            yield c
    for i, r in enumerate(runs):
        for j in range(len(r)):
            c = dict(base); c['runs'] = runs[:i] + [r[:j] + r[j + 1:]] + runs[i + 1:]
            yield c
    s = case['spec']
    if s['k'] in ('limit', 'dict'):
        c = dict(base); c['spec'] = s['sub']
        yield c
    if s['k'] == 'dict' and s['sub']['k'] == 'dict':
        c = dict(base); c['spec'] = dict(s, sub=s['sub']['sub'])
        yield c


def focus(disagreements, facts_changed):
    streams = sorted({c.get('stream') for c, _ in disagreements if c.get('stream') in ('h1', 'h2', 'toplimit', 'mutate')})
    return {'stream': streams[0]} if len(streams) == 1 else {}
