"""Shared by C11 (assign) and C12 (delete): class catalogue with mutation faults, heap codec,
target / destination-path generators, observation helpers.

Not a property module (no PROP / READY).  harness/pyobjs.py is not modified: the codec below is
a parametrised re-implementation of its Encoder/decode over this module's class catalogue
(pyobjs.enc_val is reused for immediates).
"""
import json
import os
from collections import OrderedDict

from harness import pyobjs
from harness.pyobjs import Obj, Obj2


# ------------------------------------------------------------------ classes
class ROObj:
    """attribute object with a read-only property `ro` (no setter, no deleter); the getter
    reads the instance __dict__, so *reading* `ro` behaves like a plain attribute"""
    def __init__(self, **kw):
        self.__dict__.update(kw)

    @property
    def ro(self):
        try:
            return self.__dict__['ro']
        except KeyError:
            raise AttributeError('ro')


class GuardObj:
    """attribute object whose __setattr__ / __delattr__ raise"""
    def __init__(self, **kw):
        self.__dict__.update(kw)

    def __setattr__(self, name, value):
        raise RuntimeError('GuardObj.__setattr__')

    def __delattr__(self, name):
        raise RuntimeError('GuardObj.__delattr__')


class DictSub(dict):
    """dict subclass whose instances have a __dict__ (like collections.Counter)"""


class GuardDict(dict):
    def __setitem__(self, k, v):
        raise RuntimeError('GuardDict.__setitem__')

    def __delitem__(self, k):
        raise RuntimeError('GuardDict.__delitem__')


class ListSub(list):
    pass


class GuardList(list):
    def __setitem__(self, k, v):
        raise RuntimeError('GuardList.__setitem__')

    def __delitem__(self, k):
        raise RuntimeError('GuardList.__delitem__')


class TupleSub(tuple):
    pass


class TLeaf:
    """stands for a T-expression used as a VALUE (inside a literal container, or as the value itself):
    the cell's "attributes" are the expression's (op, arg) steps in order; `decode` builds the real
    `T[...]...` object for it, the Encoder re-encodes that object as the same cell"""


class Scope(dict):
    """stands for the scope FRAME an S-rooted destination starts from (`scope[UP]`) in the heap
    encoding: before the call it holds the caller's scope variables; the object handed to
    glom(scope=...) is a plain dict of its own with the same items (glom copies them into its root
    frame and never writes the caller's mapping: observed as `scope_kept`); after the call the cell is
    re-encoded from what a later step of the same chain sees of the scope (`Peek`), when there is one"""


# ---- write log: the ORDER in which glom writes (F11-2: "attached last" observed on the implementation)
WLOG = []          # ids of the objects written to (item / attribute stores and deletions), in order


class LogDict(dict):
    """a plain dict whose stores / deletions are logged (no `__dict__`: behaves like `dict` for setattr)"""
    __slots__ = ()

    def __setitem__(self, k, v):
        dict.__setitem__(self, k, v)
        WLOG.append(id(self))          # (a store that raised is no write)

    def __delitem__(self, k):
        dict.__delitem__(self, k)
        WLOG.append(id(self))          # (a store that raised is no write)


class LogList(list):
    __slots__ = ()

    def __setitem__(self, k, v):
        list.__setitem__(self, k, v)
        WLOG.append(id(self))          # (a store that raised is no write)

    def __delitem__(self, k):
        list.__delitem__(self, k)
        WLOG.append(id(self))          # (a store that raised is no write)


class LogObj(Obj):
    def __setattr__(self, n, v):
        object.__setattr__(self, n, v)
        WLOG.append(id(self))          # (a store that raised is no write)

    def __delattr__(self, n):
        object.__delattr__(self, n)
        WLOG.append(id(self))          # (a store that raised is no write)


CALLABLES = {'len': len, 'abs': abs, 'sorted': sorted}       # callables used as VALUES (arg mode does not call them)

LOGGED = {'dict': LogDict, 'list': LogList, 'Obj': LogObj}     # catalogue name -> logging stand-in


CLASSES = OrderedDict((c.__name__, c) for c in [
    dict, OrderedDict, DictSub, GuardDict, list, ListSub, GuardList, tuple, TupleSub, set,
    frozenset, Obj, Obj2, ROObj, GuardObj, Scope, TLeaf, __import__('collections').deque])


def layout_of(c):
    import collections
    if c is collections.deque:
        return 'list'          # items by index; NOT a list: no registered type but `object` above it
    if issubclass(c, dict):
        return 'dict'
    if issubclass(c, list):
        return 'list'
    if issubclass(c, tuple):
        return 'tuple'
    if issubclass(c, (set, frozenset)):
        return 'set'
    return 'inst'


LAYOUT = {n: layout_of(c) for n, c in CLASSES.items()}


def _flags(name, c):
    """behaviour flags of a class, by introspection (see lean/Glom/Model/C11.lean)"""
    if c is Scope:
        return ['scope']
    if c is TLeaf:
        return ['tleaf']
    fl = []
    lay = LAYOUT[name]
    if lay == 'inst':
        if c.__setattr__ is not object.__setattr__:
            fl.append('raise_setattr')
        if c.__delattr__ is not object.__delattr__:
            fl.append('raise_delattr')
        for k in dir(c):
            v = c.__dict__.get(k)
            if isinstance(v, property) and v.fset is None and v.fdel is None:
                fl.append('ro:' + k)
    else:
        base = {'dict': dict, 'list': list, 'tuple': tuple, 'set': set}[lay]
        if lay in ('dict', 'list') and c.__name__ != 'deque':
            if c.__setitem__ is not base.__setitem__ and c is not OrderedDict:
                fl.append('raise_setitem')
            if c.__delitem__ is not base.__delitem__ and c is not OrderedDict:
                fl.append('raise_delitem')
        try:
            inst = c() if lay != 'tuple' else c(())
            if hasattr(inst, '__dict__'):
                fl.append('has_dict')
        except Exception:
            pass
    return fl


FLAGS = {n: _flags(n, c) for n, c in CLASSES.items()}


def class_table():
    out = []
    for n, c in CLASSES.items():
        if c is Scope or c is TLeaf:
            out.append([n, [n, 'object']])
        else:
            out.append([n, [k.__name__ for k in c.__mro__]])
    return out


def class_flags(with_scope=True):
    return [[n, FLAGS[n]] for n in CLASSES if FLAGS[n] and (with_scope or n != 'Scope')]


def build_t(steps, dv, root=None):
    """the real T-expression for [(op, arg_json)] steps (item / attribute steps)"""
    from glom import T
    t = T if root is None else root
    for op, arg in steps:
        t = getattr(t, dv(arg)) if op == '.' else t[dv(arg)]
    return t


# ------------------------------------------------------------------ user registrations
def _raise_handler(*a):
    raise NotImplementedError('user handler')


def handler_table():
    import operator
    import glom.core as gc
    import glom.mutation as gm
    return {
        'get': {'getitem': operator.getitem, '_get_sequence_item': gc._get_sequence_item, 'getattr': getattr},
        'assign': {'setitem': operator.setitem, '_set_sequence_item': gm._set_sequence_item, 'setattr': setattr,
                   'False': False, 'user_raise': _raise_handler},
        'delete': {'delitem': operator.delitem, '_del_sequence_item': gm._del_sequence_item, 'delattr': delattr,
                   'False': False, 'user_raise': _raise_handler}}


UREG_CLASSES = ['DictSub', 'ListSub', 'Obj', 'Obj2', 'ROObj', 'OrderedDict', 'TupleSub', 'GuardObj']
NATURAL = {'dict': ('getitem', 'setitem', 'delitem'), 'list': ('_get_sequence_item', '_set_sequence_item', '_del_sequence_item'),
           'tuple': ('_get_sequence_item', 'False', 'False'), 'inst': ('getattr', 'setattr', 'delattr')}


def gen_ureg(rng):
    """registrations made on a private `Glommer` before the call: 1-3 user classes, each with explicit
    `get` / `assign` / `delete` handlers — mostly the natural `get` (so paths through such objects
    still read), `assign` / `delete` drawn from every handler kind (item / sequence item / attribute
    — also the wrong one for the layout —, False = registered as unsupported, a handler of the user's
    own that raises).  [[cls, get, assign, delete] ...], in registration order"""
    out = []
    for cn in rng.sample(UREG_CLASSES, rng.choice([1, 1, 2, 3])):
        g, a, d = NATURAL[LAYOUT[cn]]
        if rng.random() < 0.15:
            g = rng.choice(['getitem', '_get_sequence_item', 'getattr'])
        if rng.random() < 0.7:
            a = rng.choice(['setitem', '_set_sequence_item', 'setattr', 'False', 'user_raise'])
        if rng.random() < 0.7:
            d = rng.choice(['delitem', '_del_sequence_item', 'delattr', 'False', 'user_raise'])
        out.append([cn, g, a, d])
    return out


def ureg_tables(ureg):
    """the case's `ureg` as per-op tables for the Lean side: a later registration of a class replaces
    an earlier one, so the tables list the registrations last-first"""
    rev = list(reversed(ureg or []))
    return {'get': [[c, g] for c, g, a, d in rev], 'assign': [[c, a] for c, g, a, d in rev],
            'delete': [[c, d] for c, g, a, d in rev]}


class Runner:
    """`glom.glom`, or the `glom` of a private Glommer on which the case's user registrations were made"""
    def __init__(self, ureg):
        import glom
        self.ureg = ureg
        if ureg:
            ht = handler_table()
            self.g = glom.Glommer()
            for cn, g, a, d in ureg:
                self.g.register(CLASSES[cn], get=ht['get'][g], assign=ht['assign'][a], delete=ht['delete'][d])
            self.glom = self.g.glom
        else:
            self.glom = glom.glom


# ------------------------------------------------------------------ codec
def decode(heap, logged=False):
    """build real objects from heap JSON (sharing and cycles included) -> (objs by address, dv).
    logged: plain dict / list / Obj cells become their logging stand-ins (same behaviour, writes logged)"""
    objs = [None] * len(heap)
    pending = []
    for a, cell in enumerate(heap):
        cls = CLASSES[cell['c']]
        if logged and cell['c'] in LOGGED:
            cls = LOGGED[cell['c']]
        lay = cell['k']
        if cls is Scope:
            objs[a] = {}
        elif cls is TLeaf:
            objs[a] = build_t(cell['v'], lambda j: None if j is None else list(j.values())[0])
        elif lay in ('dict', 'list', 'inst') or (lay == 'set' and cls is set):
            objs[a] = OrderedDict() if cls is OrderedDict else cls.__new__(cls)
        else:
            pending.append(a)

    building = set()

    def build_immutable(a):
        if a in building:
            raise ValueError('cycle through immutable container at %d' % a)
        building.add(a)
        cell = heap[a]
        objs[a] = CLASSES[cell['c']]([dv(x) for x in cell['v']])
        building.discard(a)

    def dv(j):
        if j is None:
            return None
        if 'b' in j:
            return j['b']
        if 'i' in j:
            return j['i']
        if 's' in j:
            return j['s']
        if 'f' in j:
            return float.fromhex(j['f'])
        if 'r' in j:
            a = j['r']
            if objs[a] is None:
                build_immutable(a)
            return objs[a]
        if 'fn' in j:
            return CALLABLES[j['fn']]
        raise ValueError('cannot decode %r' % (j,))

    for a in pending:
        if objs[a] is None:
            build_immutable(a)
    for a, cell in enumerate(heap):
        lay, o = cell['k'], objs[a]
        if lay == 'dict':
            # OrderedDict keeps its order list outside the dict storage: fill it through its own
            # __setitem__ (dict.__setitem__ would leave it un-iterable); Guard classes are bypassed
            setitem = OrderedDict.__setitem__ if type(o) is OrderedDict else dict.__setitem__
            for k, v in cell['v']:
                setitem(o, dv(k), dv(v))
        elif lay == 'list':
            (o.extend if cell['c'] == 'deque' else (lambda xs, _o=o: list.extend(_o, xs)))([dv(x) for x in cell['v']])
        elif lay == 'set' and isinstance(o, set):
            for x in cell['v']:
                o.add(dv(x))
        elif lay == 'inst' and cell['c'] != 'TLeaf':
            d = object.__getattribute__(o, '__dict__')
            for k, v in cell['v']:
                d[k] = dv(v)
    return objs, dv


class Encoder:
    """object graph -> heap JSON over this module's catalogue; addresses are stable"""
    def __init__(self, objs=(), heap=()):
        self.objs = []
        self.ids = {}
        self.alias = {}          # id -> class name override (the Scope cell)
        self.fixed = {}          # id -> cell of an immutable stand-in (a T-expression used as a value)
        for o, cell in zip(objs, heap):
            self.ids[id(o)] = len(self.objs)
            self.objs.append(o)
            if cell['c'] == 'Scope':
                self.alias[id(o)] = 'Scope'
            elif cell['c'] == 'TLeaf':
                self.fixed[id(o)] = cell
            elif type(o) in (LogDict, LogList, LogObj):
                self.alias[id(o)] = cell['c']

    def is_container(self, v):
        n = type(v).__name__
        return (n in CLASSES and type(v) is CLASSES[n]) or id(v) in self.fixed or id(v) in self.alias

    def reserve(self, v):
        """give `v` the next address without visiting its children yet"""
        if self.is_container(v) and id(v) not in self.ids:
            self.ids[id(v)] = len(self.objs)
            self.objs.append(v)

    def addr(self, v):
        if not self.is_container(v):
            return None
        a = self.ids.get(id(v))
        if a is None:
            a = len(self.objs)
            self.ids[id(v)] = a
            self.objs.append(v)
            self._visit(v)       # first-visit (pre-order) numbering of everything below
        return a

    def _visit(self, v):
        self._cell(v)

    def _cell(self, v):
        if id(v) in self.fixed:
            return self.fixed[id(v)]
        cn = self.alias.get(id(v), type(v).__name__)
        lay = LAYOUT[cn]
        ev = lambda x: pyobjs.enc_val(x, self.addr)
        if lay == 'dict':
            return {'k': 'dict', 'c': cn, 'v': [[ev(k), ev(x)] for k, x in dict.items(v)]}
        if lay == 'list':
            return {'k': 'list', 'c': cn, 'v': [ev(x) for x in (iter(v) if cn == 'deque' else list.__iter__(v))]}
        if lay == 'tuple':
            return {'k': 'tuple', 'c': cn, 'v': [ev(x) for x in tuple.__iter__(v)]}
        if lay == 'set':
            return {'k': 'set', 'c': cn, 'v': [ev(x) for x in sorted(v, key=repr)]}
        d = object.__getattribute__(v, '__dict__')
        return {'k': 'inst', 'c': cn, 'v': [[k, ev(x)] for k, x in d.items()]}

    def snapshot(self):
        """re-encode every known object now, plus everything newly reachable"""
        out = []
        i = 0
        while i < len(self.objs):
            out.append(self._cell(self.objs[i]))
            i += 1
        return out

    def hidden(self):
        """did Python store an attribute on a container-subclass object (invisible to its cell)?"""
        for o in self.objs:
            if id(o) in self.fixed:
                continue
            cn = self.alias.get(id(o), type(o).__name__)
            if LAYOUT[cn] != 'inst' and cn != 'Scope' and getattr(o, '__dict__', None):
                return True
        return False


# ------------------------------------------------------------------ target generator
NAMES = ['a', 'b', 'c', 'k0']
# names that coincide with glom's internal op characters / wildcard spellings: a segment merely
# NAMED like an op must still be an ordinary key / attribute
OP_NAMES = ['x', 'X', 'P']
STAR_KEYS = ['*', '**', '.', '[']          # dict keys only; reachable through Path(...) / T[...]
SCALARS = [None, True, False, 0, 1, 7, -3, 'x', 'abc', '']


def jval(v):
    if v is None:
        return None
    if isinstance(v, bool):
        return {'b': v}
    if isinstance(v, int):
        return {'i': v}
    return {'s': v}


class HeapGen:
    def __init__(self, rng, maxdepth, faults=True):
        self.rng, self.maxdepth, self.faults = rng, maxdepth, faults
        self.heap = []
        self.open_mut = []
        self.closed = []

    def cls(self, lay):
        r = self.rng
        f = self.faults
        if lay == 'dict':
            return r.choice(['dict'] * 6 + ['OrderedDict', 'DictSub', 'DictSub'] + (['GuardDict'] if f else []))
        if lay == 'list':
            # (deque: a sequence that is not a list — plain segments find no sequence handler: getattr / setattr)
            return r.choice(['list'] * 6 + ['ListSub', 'deque'] + (['GuardList'] if f else []))
        if lay == 'tuple':
            return r.choice(['tuple'] * 5 + ['TupleSub'])
        if lay == 'set':
            return r.choice(['set', 'frozenset'])
        return r.choice(['Obj'] * 5 + ['Obj2'] + (['ROObj', 'ROObj', 'GuardObj'] if f else []))

    def node(self, depth):
        r = self.rng
        p = r.random()
        if depth >= self.maxdepth or p < 0.2:
            return jval(r.choice(SCALARS))
        if p < 0.28 and self.closed:
            return {'r': r.choice(self.closed)}
        if p < 0.31 and self.open_mut:
            return {'r': r.choice(self.open_mut)}
        lay = r.choice(['dict'] * 5 + ['list'] * 4 + ['inst'] * 4 + ['tuple', 'tuple'] + (['set'] if self.faults else []))
        a = len(self.heap)
        cell = {'k': lay, 'c': self.cls(lay), 'v': []}
        self.heap.append(cell)
        mutable = lay in ('dict', 'list', 'inst')
        if mutable:
            self.open_mut.append(a)
        n = r.choice([0, 1, 2, 2, 3])
        if lay in ('tuple', 'set') and n == 0:
            n = 1     # CPython shares the empty tuple / frozenset: distinct empty cells would be one object
        if lay == 'dict':
            pool = NAMES + [0, 1, '0', '1', '-1', 'x y']
            keys = r.sample(pool, n)
            if n and r.random() < 0.3:
                keys[r.randrange(n)] = r.choice(OP_NAMES + OP_NAMES + STAR_KEYS)
            cell['v'] = [[jval(k), self.node(depth + 1)] for k in keys]
        elif lay == 'inst':
            pool = NAMES + (['ro'] if cell['c'] == 'ROObj' else [])
            keys = r.sample(pool, min(n, len(pool)))
            if keys and r.random() < 0.3:
                keys[r.randrange(len(keys))] = r.choice(OP_NAMES)
            cell['v'] = [[k, self.node(depth + 1)] for k in keys]
        elif lay == 'set':
            cell['v'] = [jval(r.choice([0, 1, 7, 'x']))]
        else:
            cell['v'] = [self.node(depth + 1) for _ in range(n)]
        if mutable:
            self.open_mut.pop()
        self.closed.append(a)
        return {'r': a}


def gen_target(rng, maxdepth, faults=True):
    """(heap, root): the root is a container (a scalar target is a legal but rare case)"""
    for _ in range(20):
        g = HeapGen(rng, maxdepth, faults)
        root = g.node(0)
        if isinstance(root, dict) and 'r' in root or rng.random() < 0.05:
            return g.heap, root
    return g.heap, root


def children(heap, val):
    """[(kind, key_json, child_val)] reachable by one access step"""
    if not isinstance(val, dict) or 'r' not in val:
        return []
    cell = heap[val['r']]
    if cell['k'] == 'dict':
        return [('key', k, v) for k, v in cell['v']]
    if cell['k'] in ('list', 'tuple'):
        return [('idx', {'i': i}, v) for i, v in enumerate(cell['v'])]
    if cell['k'] == 'inst':
        return [('attr', {'s': k}, v) for k, v in cell['v']]
    return []


def valid_walk(rng, heap, root, length, prefer_deep=True):
    """[(kind, key_json)] along a random valid path, and the value reached"""
    cur = root
    out = []
    for _ in range(length):
        ch = children(heap, cur)
        if not ch:
            break
        if prefer_deep:
            cont = [c for c in ch if isinstance(c[2], dict) and 'r' in c[2]]
            if cont and rng.random() < 0.7:
                ch = cont
        kind, key, nxt = rng.choice(ch)
        n = len(heap[cur['r']]['v'])
        if kind == 'idx' and rng.random() < 0.3:
            key = {'i': key['i'] - n}
        out.append((kind, key))
        cur = nxt
    return out, cur


def layout_at(heap, val):
    if isinstance(val, dict) and 'r' in val:
        return heap[val['r']]['k']
    return 'scalar'


def text_ok(kind, key):
    if not isinstance(key, dict):
        return False
    if 'i' in key:
        return kind == 'idx'
    s = key.get('s')
    return isinstance(s, str) and '.' not in s and s not in ('*', '**')


def seg_text(kind, key):
    return str(key['i']) if 'i' in key else key['s']


def spell(rng, steps, style):
    """steps: [(kind, key)] with kind in key/idx/attr/star/raw -> spelling dict.
    raw: key is already an [op, arg] T step (wrong access kind on purpose)."""
    if style == 'text':
        return {'text': '.'.join('*' if k == 'star' else '**' if k == 'starstar' else seg_text(k, key) for k, key in steps)}
    parts = []
    for kind, key in steps:
        if kind == 'star':
            parts.append({'t': [['x', None]]})
        elif kind == 'starstar':
            parts.append({'t': [['X', None]]})
        elif kind == 'raw':
            parts.append({'t': [key]})
        elif style == 'path' or (style == 'mixed' and rng.random() < 0.5):
            if kind == 'idx' and isinstance(key, dict) and 'i' in key and rng.random() < 0.5:
                parts.append({'seg': {'s': str(key['i'])}})
            else:
                parts.append({'seg': key})
        else:
            parts.append({'t': [['.' if kind == 'attr' else '[', key]]})
    if style == 't':
        # one T expression
        return {'parts': [{'t': [st for p in parts for st in p['t']]}]} if parts else {'parts': []}
    return {'parts': parts}


def steps_of_spelling(sp):
    """the (op, arg) steps a spelling denotes (mirror of Path.from_text / Path.__init__)"""
    if 'text' in sp:
        return [['x', None] if s == '*' else ['X', None] if s == '**' else ['P', {'s': s}]
                for s in sp['text'].split('.')]
    out = []
    for p in sp['parts']:
        if 'seg' in p:
            out.append(['P', p['seg']])
        else:
            out += p['t']
    return out


def build_path(case, dv):
    """the real destination object: str, Path(...), or a T / S expression"""
    from glom import Path, T, S
    sp = case['spelling']
    root = S if case.get('root') == 'S' else T
    if 'text' in sp:
        assert root is T
        return sp['text']

    def texpr(t, steps):
        for op, arg in steps:
            if op == '.':
                t = getattr(t, dv(arg))
            elif op == '[':
                t = t[dv(arg)]
            elif op == 'x':
                t = t.__star__()
            elif op == 'X':
                t = t.__starstar__()
            elif op == 'P':
                t = Path(t, dv(arg)).path_t
            else:
                raise ValueError(op)
        return t

    parts = sp['parts']
    if len(parts) == 1 and 't' in parts[0] and case.get('style') == 't':
        return texpr(root, parts[0]['t'])
    args = []
    if root is S:
        args.append(S)
    for p in parts:
        if 'seg' in p:
            args.append(dv(p['seg']))
        else:
            args.append(texpr(T, p['t']))
    return Path(*args)


def exc_name(e):
    for c in type(e).__mro__:
        if not c.__name__.startswith('GlomError.wrap'):
            return c.__name__
    return type(e).__name__


def observe_exc(e):
    from glom import GlomError, PathAccessError, PathAssignError
    from glom.mutation import PathDeleteError
    inner = getattr(e, 'exc', None)
    is_path_err = isinstance(e, (PathAccessError, PathAssignError))
    return {'err': {
        'cls': exc_name(e),
        'inner': exc_name(inner) if is_path_err and isinstance(inner, BaseException) else None,
        'idx': e.part_idx if isinstance(e, PathAccessError) else None,
        'dest': {'v': pyobjs.enc_val(e.dest_name, lambda v: None)} if isinstance(e, PathAssignError) else None,
        'pae': isinstance(e, PathAccessError), 'passign': isinstance(e, PathAssignError),
        'pdelete': isinstance(e, PathDeleteError), 'glom': isinstance(e, GlomError)}}


class Peek:
    """a spec placed AFTER the spec under test in a chain: records the value handed on (what the spec
    under test returned) and the scope variables visible from a later step of the same chain — the
    scope frame an S-rooted destination binds in is not reachable once glom() has returned"""
    _baseline = None

    def __init__(self, own=()):
        self.seen, self.got, self.vars = False, None, []
        self.own = set(k for k in own if isinstance(k, str))

    @classmethod
    def baseline(cls):
        """variable-like keys glom itself keeps in every scope (e.g. 'globals')"""
        if cls._baseline is None:
            import glom
            p = cls()
            cls._baseline = set()
            glom.glom(None, p)
            cls._baseline = set(k for k, _ in p.vars)
        return cls._baseline

    def glomit(self, target, scope):
        self.seen, self.got = True, target
        base = type(self)._baseline or set()
        self.vars = [(k, scope[k]) for k in scope
                     if type(k) in (str, int, bool, type(None)) and (k not in base or k in self.own)]
        return target


def enc_nest(x, depth, enc):
    """a read result below `depth` wildcards: fresh lists are levels, everything else an entry"""
    if depth > 0 and type(x) is list and id(x) not in enc.ids:
        return {'l': [enc_nest(y, depth - 1, enc) for y in x]}
    return {'v': pyobjs.enc_val(x, lambda v: enc.ids.get(id(v)) if enc.is_container(v) else None)}


def load_corpus(prop):
    p = os.path.join(os.path.dirname(os.path.dirname(os.path.dirname(os.path.abspath(__file__)))),
                     'corpus', prop + '.jsonl')
    out = []
    if os.path.exists(p):
        for line in open(p):
            if line.strip():
                out.append(json.loads(line))
    return out


# ------------------------------------------------------------------ destination generator
STARSTAR = True        # generate `**` in destinations (weak check only)
NEW_NAMES = ['n0', 'n1', 'zz', 'x', 'X']
BAD_SEGS = [{'s': 'zz'}, {'s': '99'}, {'s': '-99'}, {'i': 99}, {'i': -99}, {'s': ''}, None,
            {'b': True}, {'s': '+1'}, {'s': '0'}, {'i': 0}, {'s': 'a'},
            # segments CPython's int() reads and the kernel's `[+-]?[0-9]+` does not (whitespace is
            # stripped, single underscores skipped, every Unicode decimal digit counts, int(1.5) == 1):
            # outside the model's int() — the drivers check same-object / atomicity only on them
            {'s': ' 1 '}, {'s': '0_1'}, {'s': '\u0661'}, {'s': '1\n'}, {'f': (1.5).hex()}, {'f': (0.0).hex()}]


def final_step(rng, heap, parent, present):
    """a final (kind, key) on `parent`: an existing slot (`present`) or an absent one"""
    lay = layout_at(heap, parent)
    ch = children(heap, parent)
    if present and ch:
        kind, key, _ = rng.choice(ch)
        n = len(ch)
        if kind == 'idx' and rng.random() < 0.3:
            key = {'i': key['i'] - n}
        return kind, key
    if lay == 'dict':
        return 'key', rng.choice([{'s': n} for n in NEW_NAMES] + [{'i': 5}, None, {'s': '0'}])
    if lay in ('list', 'tuple'):
        n = len(ch)
        return 'idx', {'i': rng.choice([n, n + 3, -n - 1, 99])}
    if lay == 'inst':
        return 'attr', {'s': rng.choice(NEW_NAMES)}
    # scalar / set parent: any kind
    return rng.choice([('key', {'s': 'n0'}), ('idx', {'i': 0}), ('attr', {'s': 'n0'})])


def gen_dest(rng, heap, root, maxlen, want_present, absent_tail, star_p=0.15, first_absent_p=None):
    """A destination: [(kind, key)] steps (last one is the final step).
    absent_tail > 0: the prefix stops existing `absent_tail` segments before the final one.
    first_absent_p: with that probability the existing prefix is EMPTY (the very first segment is the
    absent one: for an S-rooted destination the scope variable itself does not exist yet)."""
    plen = rng.randint(0, maxlen - 1)
    if first_absent_p is not None and absent_tail and rng.random() < first_absent_p:
        plen = 0
    walk, parent = valid_walk(rng, heap, root, plen)
    steps = list(walk)
    if absent_tail:
        # break the prefix: an absent segment on the last existing object, then fresh names
        k0, key0 = final_step(rng, heap, parent, False)
        steps.append((k0, key0))
        for _ in range(absent_tail - 1):
            steps.append(rng.choice([('key', {'s': rng.choice(NEW_NAMES)}), ('attr', {'s': rng.choice(NEW_NAMES)}),
                                     ('idx', {'i': 0}), ('key', {'s': '0'})]))
        steps.append(rng.choice([('key', {'s': rng.choice(NEW_NAMES)}), ('attr', {'s': rng.choice(NEW_NAMES)}),
                                 ('idx', {'i': 0})]))
    elif want_present and not children(heap, parent) and steps:
        pass        # the walk ended on a leaf: its last step is the (existing) final step
    else:
        steps.append(final_step(rng, heap, parent, want_present))
    # wildcards: replace a prefix step by `*` (the rest keeps addressing one child's shape)
    if len(steps) >= 2 and rng.random() < star_p:
        i = rng.randrange(len(steps) - 1)
        # (one in eight of them `**`: every level below — the enumeration order of `**` is C14's subject,
        # C11 / C12 check on such paths only what needs no model of it)
        steps[i] = ('starstar', None) if STARSTAR and rng.random() < 0.125 else ('star', None)
        if len(steps) >= 3 and rng.random() < 0.3:
            j = rng.randrange(len(steps) - 1)
            steps[j] = ('star', None)
    return steps


def gen_star_case(rng, present=True, share_p=0.0):
    """a regular nested target (2-3 levels of list / dict) whose leaves are lists / dicts / objects,
    and a destination with one `*` per level: every leaf is a match, the final step addresses an
    existing (or absent) slot of the leaves.  Returns (heap, root, steps).
    share_p: probability that an entry of a level is an object that already occurs among the entries
    of that depth (the SAME leaf / sub-container matched more than once by the wildcards)."""
    heap = []
    levels = rng.choice([1, 2, 2, 3])
    leaf_kind = rng.choice(['list', 'list', 'dict', 'inst'])
    seen = {}          # depth -> refs generated at that depth

    def leaf():
        a = len(heap)
        n = rng.randint(1, 3)
        if leaf_kind == 'list':
            heap.append({'k': 'list', 'c': 'list', 'v': [jval(rng.choice([0, 1, 7, 'x'])) for _ in range(n)]})
        elif leaf_kind == 'dict':
            heap.append({'k': 'dict', 'c': 'dict', 'v': [[{'s': k}, jval(rng.choice([0, 1, 7]))]
                                                         for k in ['a', 'b', 'c'][:n]]})
        else:
            heap.append({'k': 'inst', 'c': 'Obj', 'v': [[k, jval(rng.choice([0, 1, 7]))] for k in ['a', 'b', 'c'][:n]]})
        return {'r': a}

    def level(d):
        if seen.get(d) and rng.random() < share_p:
            return dict(rng.choice(seen[d]))
        if d == 0:
            r = leaf()
            seen.setdefault(d, []).append(r)
            return r
        a = len(heap)
        kind = rng.choice(['list', 'list', 'dict', 'tuple'])
        cell = {'k': kind, 'c': kind, 'v': []}
        heap.append(cell)
        if d < levels:
            seen.setdefault(d, []).append({'r': a})
        kids = [level(d - 1) for _ in range(rng.randint(1, 3) if not share_p else rng.randint(2, 3))]
        if kind == 'dict':
            cell['v'] = [[{'s': 'k%d' % i}, k] for i, k in enumerate(kids)]
        else:
            cell['v'] = kids
        return {'r': a}

    root = level(levels)
    steps = [('star', None)] * levels
    if leaf_kind == 'list':
        steps.append(('idx', {'i': 0 if present else 7}))
    elif leaf_kind == 'dict':
        steps.append(('key', {'s': 'a' if present else 'zz'}))
    else:
        steps.append(('attr', {'s': 'a' if present else 'zz'}))
    return heap, root, steps


class TemplateGen:
    """a LITERAL container value (what a user writes in `val` position: `{'a': [T['x'], 1], 'b': shared}`):
    cells appended to the case's heap, unreachable from the target.  Exact list / dict / tuple / set /
    frozenset cells are what arg mode rebuilds; subclass instances and plain objects are stored as they
    are; leaves are scalars, T-expressions (TLeaf cells: valid walks into the target, now and then a
    failing one), references to objects of the TARGET (any kind), and references to template cells
    generated earlier (sharing: the same container reachable by two routes) or still open (cycles
    through a list / dict)."""

    def __init__(self, rng, heap, root, maxdepth=3, tleaf_p=0.15):
        self.rng, self.heap, self.root, self.maxdepth, self.tleaf_p = rng, heap, root, maxdepth, tleaf_p
        self.ntarget = len(heap)
        # objects of the target a literal may mention (the Scope cell is a stand-in, not an object)
        self.tcells = [a for a, c in enumerate(heap) if c['c'] not in ('Scope', 'TLeaf')]
        self.closed, self.open = [], []
        self.shared = 0

    def tleaf(self):
        r = self.rng
        walk, _ = valid_walk(r, self.heap[:self.ntarget], self.root, r.randint(0, 3), prefer_deep=False)
        steps = [['.' if k == 'attr' else '[', key] for k, key in walk]
        if r.random() < 0.08:
            steps.append(['[', {'s': 'zz'}])
        if not steps:
            # `T` itself is one object: one cell
            for a, c in enumerate(self.heap):
                if c['c'] == 'TLeaf' and not c['v']:
                    return {'r': a}
        self.heap.append({'k': 'inst', 'c': 'TLeaf', 'v': steps})
        return {'r': len(self.heap) - 1}

    def node(self, depth, top=False):
        r = self.rng
        p = r.random()
        if not top:
            if depth >= self.maxdepth or p < 0.22:
                return jval(r.choice(SCALARS))
            if p < 0.40 and self.closed:
                self.shared += 1
                return {'r': r.choice(self.closed)}
            if p < 0.46 and self.open:
                self.shared += 1
                return {'r': r.choice(self.open)}
            if p < 0.46 + self.tleaf_p:
                return self.tleaf()
            if p < 0.54 + self.tleaf_p and self.tcells:
                return {'r': r.choice(self.tcells)}
        lay = r.choice(['list'] * 6 + ['dict'] * 5 + ['tuple'] * 2 + ['set', 'sub', 'inst'])
        if top and lay in ('set', 'inst', 'sub'):
            lay = 'list'
        a = len(self.heap)
        if lay == 'set':
            items = sorted(r.sample([0, 1, 7, 'x', 'abc'], r.randint(1, 2)), key=repr)
            self.heap.append({'k': 'set', 'c': r.choice(['set', 'frozenset']), 'v': [jval(x) for x in items]})
            return {'r': a}
        if lay == 'sub':
            lay, cls = r.choice([('list', 'ListSub'), ('dict', 'DictSub'), ('dict', 'OrderedDict'), ('tuple', 'TupleSub')])
        elif lay == 'inst':
            cls = 'Obj'
        else:
            cls = lay
        cell = {'k': lay, 'c': cls, 'v': []}
        self.heap.append(cell)
        cyclic = lay in ('list', 'dict', 'inst')
        if cyclic:
            self.open.append(a)
        n = r.choice([1, 2, 2, 3]) if lay == 'tuple' else r.choice([0, 1, 2, 2, 3])
        if lay == 'dict':
            keys = r.sample(NAMES + [0, 1, '0', 'x y', None], n)
            cell['v'] = [[jval(k), self.node(depth + 1)] for k in keys]
        elif lay == 'inst':
            cell['v'] = [[k, self.node(depth + 1)] for k in r.sample(NAMES, n)]
        else:
            cell['v'] = [self.node(depth + 1) for _ in range(n)]
        if cyclic:
            self.open.pop()
        self.closed.append(a)
        return {'r': a}


def gen_template(rng, heap, root, maxdepth=3, tleaf_p=0.15, want_shared=True):
    """append a literal container value to `heap`; returns its ref.  With `want_shared` a value in which
    no container is reachable by two routes gets one more entry: a second reference to one of its own
    list / dict cells"""
    g = TemplateGen(rng, heap, root, maxdepth, tleaf_p)
    top = g.node(0, top=True)
    if want_shared and not g.shared:
        inner = [a for a in g.closed if a != top['r'] and heap[a]['c'] in ('list', 'dict')]
        cell = heap[top['r']]
        if inner and cell['c'] in ('list', 'dict'):
            tgt = {'r': rng.choice(inner)}
            if cell['k'] == 'list':
                cell['v'].insert(rng.randint(0, len(cell['v'])), tgt)
            else:
                cell['v'].append([{'s': 'sh'}, tgt])
    return top


def append_copy(heap, root, perturb=True):
    """append a copy of every cell of `heap` (same shape, same keys; scalar leaves perturbed) to it —
    a second record like the first, sharing nothing with it; returns the root of the copy"""
    off = len(heap)
    src = perturb_heap(heap) if perturb else json.loads(json.dumps(heap))

    def sh(v):
        return {'r': v['r'] + off} if isinstance(v, dict) and 'r' in v else v
    for cell in src:
        if cell['k'] == 'dict':
            cell['v'] = [[sh(k), sh(v)] for k, v in cell['v']]
        elif cell['c'] == 'TLeaf':
            if not cell['v']:
                cell = {'k': 'inst', 'c': 'Obj', 'v': []}     # `T` itself is one object: no second cell for it
        elif cell['k'] == 'inst':
            cell['v'] = [[k, sh(v)] for k, v in cell['v']]
        else:
            cell['v'] = [sh(v) for v in cell['v']]
        heap.append(cell)
    return sh(root)


def perturb_heap(heap):
    """a variant of the heap with the same shape and the same keys / attribute names / lengths
    but different scalar leaves (ints + 100, strings + '~'): the same path breaks off at the
    same segment, the values it reaches differ"""
    def pv(v):
        if isinstance(v, dict) and 'i' in v:
            return {'i': v['i'] + 100}
        if isinstance(v, dict) and 's' in v:
            return {'s': v['s'] + '~'}
        return v
    out = []
    for cell in heap:
        c = {'k': cell['k'], 'c': cell['c']}
        if cell['c'] == 'TLeaf':
            c['v'] = [list(x) for x in cell['v']]
        elif cell['k'] == 'dict':
            c['v'] = [[k, pv(v)] for k, v in cell['v']]
        elif cell['k'] == 'inst':
            c['v'] = [[k, pv(v)] for k, v in cell['v']]
        elif cell['k'] == 'set':
            c['v'] = list(cell['v'])
        else:
            c['v'] = [pv(v) for v in cell['v']]
        out.append(c)
    return out


def warm_up(case, spec, factory=None):
    """history: apply the SAME spec object first to `case['warmup']` other targets (perturbed copies
    of the case's heap, built as separate objects); outcomes are ignored — a spec object must not
    carry anything over to its next use"""
    import glom
    for i in range(case.get('warmup') or 0):
        wheap = perturb_heap(case['heap']) if i % 2 == 0 else case['heap']
        wobjs, wdv = decode(wheap)
        kw = {}
        if case.get('scope') is not None:
            kw['scope'] = wdv(case['scope'])
        try:
            glom.glom(wdv(case['target']), spec, **kw)
        except Exception:
            pass
    if factory is not None:
        factory.calls = 0
        del factory.made[:]


def mutate_dest(rng, steps):
    """one-edit mutation stream: a bad segment / wrong access kind at a random position"""
    steps = list(steps)
    k = rng.randrange(len(steps))
    kind, key = steps[k]
    p = rng.random()
    if p < 0.5:
        nk = kind if kind in ('key', 'idx', 'attr') and rng.random() < 0.6 else rng.choice(['key', 'idx', 'attr'])
        nkey = rng.choice(BAD_SEGS)
        if nk == 'attr' and not (isinstance(nkey, dict) and 's' in nkey):
            nk = 'key'
        steps[k] = (nk, nkey)
    elif p < 0.8 and isinstance(key, dict) and 's' in key and kind in ('key', 'attr'):
        steps[k] = ('raw', ['.', key] if kind == 'key' else ['[', key])   # wrong access kind
    elif kind == 'idx' and isinstance(key, dict):
        steps[k] = ('raw', ['[', {'s': str(key.get('i', 0))}])             # T['0'] on a sequence
    else:
        steps[k] = ('key', {'s': 'zz'})
    return steps


def choose_style(rng, steps, sroot):
    can_text = not sroot and all(k in ('star', 'starstar') or (k != 'raw' and text_ok(k, key)) for k, key in steps)
    styles = ['path', 'mixed', 'mixed', 't'] + (['text', 'text', 'text'] if can_text else [])
    if sroot:
        styles = ['t', 't', 'mixed']
    return rng.choice(styles)


S_FIRST_PLAIN_P = 0.35


def s_first(rng, sp, p=S_FIRST_PLAIN_P):
    """spelling of the first step of an S-rooted path: with probability `p` as `S.name` / `Path(S, name)`
    (plain), else as `S[name]` — all three name the scope variable `name`"""
    parts = sp.get('parts')
    if not parts:
        return sp
    first = parts[0]
    key = first['seg'] if 'seg' in first else (first['t'][0][1] if first.get('t') else None)
    rest = [] if 'seg' in first else first['t'][1:]
    if 'seg' not in first and not first.get('t'):
        return sp
    if rng.random() < p:
        if isinstance(key, dict) and 's' in key and rng.random() < 0.5 and 'seg' not in first:
            new = {'t': [['.', key]] + rest}
        elif 'seg' in first or not rest:
            new = {'seg': key}
        else:
            new = first
    elif 'seg' in first:
        new = {'t': [['[', key]]}
    else:
        new = {'t': [['[' if first['t'][0][0] in ('.', 'P') else first['t'][0][0], key]] + rest}
    return {'parts': [new] + parts[1:]}


def gen_readback(rng, steps, style, p, sroot=False, star_readback=True):
    """chain mode: `(<spec under test on dest>, <peek>, readPath)` — a later step of the same chain reads the
    destination path (or a non-empty prefix of it) back, from the same root, in the same spelling"""
    if rng.random() >= p or not steps:
        return None
    n = len(steps) if rng.random() < 0.6 else rng.randint(1, len(steps))
    if sroot and not star_readback:
        stars = [i for i, st in enumerate(steps[:n]) if st[0] == 'star']
        if stars:
            n = stars[0]
            if n == 0:
                return None
    sp = spell(rng, steps[:n], style)
    return {'spelling': s_first(rng, sp, S_FIRST_PLAIN_P) if sroot else sp}


def make_scope(rng, heap, root):
    """append a Scope cell binding 1-3 variables to objects of the heap; returns its ref"""
    conts = [a for a, c in enumerate(heap) if c['k'] in ('dict', 'list', 'inst', 'tuple')]
    names = rng.sample(['d', 'e', 'v'], rng.randint(1, 3))
    ents = []
    for i, n in enumerate(names):
        if i == 0 and isinstance(root, dict) and 'r' in root and rng.random() < 0.5:
            ents.append([{'s': n}, root])
        elif conts and rng.random() < 0.8:
            ents.append([{'s': n}, {'r': rng.choice(conts)}])
        else:
            ents.append([{'s': n}, jval(rng.choice(SCALARS))])
    heap.append({'k': 'dict', 'c': 'Scope', 'v': ents})
    return {'r': len(heap) - 1}


def shrink_common(case):
    """smaller candidates: drop a path part / text segment, drop a child of a container"""
    sp = case['spelling']
    base = {k: v for k, v in case.items() if not k.startswith('impl')}
    if 'parts' in sp:
        ps = sp['parts']
        for i in range(len(ps)):
            if len(ps) > 1:
                c = dict(base); c['spelling'] = {'parts': ps[:i] + ps[i + 1:]}
                yield c
    else:
        segs = sp['text'].split('.')
        for i in range(len(segs)):
            if len(segs) > 1:
                c = dict(base); c['spelling'] = {'text': '.'.join(segs[:i] + segs[i + 1:])}
                yield c
    heap = case['heap']
    for a, cell in enumerate(heap):
        if cell['k'] in ('tuple', 'set') and len(cell['v']) <= 1:
            continue          # empty tuples / frozensets are shared objects in CPython
        for i in range(len(cell['v'])):
            h2 = json.loads(json.dumps(heap))
            del h2[a]['v'][i]
            c = dict(base); c['heap'] = h2
            yield c
